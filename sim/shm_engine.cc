// Engine S: seeded cooperative scheduler over ucontext coroutines + case-file driver (see shm_sched.h, DESIGN.md §3.4).
#include "squid.h"
#include "shm_sched.h"

#include <csignal>
#include <cstdio>
#include <cstdlib>
#include <fstream>
#include <map>
#include <sys/mman.h>
#include <ucontext.h>
#include <unistd.h>
#include <unordered_set>

#if defined(__SANITIZE_ADDRESS__)
#define SHM_ASAN 1
#elif defined(__has_feature)
#if __has_feature(address_sanitizer)
#define SHM_ASAN 1
#endif
#endif
#if SHM_ASAN
extern "C" void __sanitizer_start_switch_fiber(void **fake_stack_save, const void *bottom, size_t size);
extern "C" void __sanitizer_finish_switch_fiber(void *fake_stack_save, const void **bottom_old, size_t *size_old);
#endif

namespace shm {

static const size_t StackSize = 256 * 1024;
static const size_t GuardSize = 4096;

/* ------------------------------------------------------------------ small helpers */

uint64_t hashBytes(const void *p, size_t n, uint64_t h)
{
    const unsigned char *b = static_cast<const unsigned char *>(p);
    size_t i = 0;
    for (; i + 8 <= n; i += 8) {
        uint64_t w;
        memcpy(&w, b + i, 8);
        h = mix64(h, w);
    }
    uint64_t tail = 0;
    for (size_t k = 0; i < n; ++i, ++k)
        tail |= static_cast<uint64_t>(b[i]) << (8 * k);
    return mix64(h, tail ^ (static_cast<uint64_t>(n) << 56));
}

static std::unordered_set<uint64_t> &allStates() { static std::unordered_set<uint64_t> s; return s; }
static std::unordered_set<uint64_t> &allSchedules() { static std::unordered_set<uint64_t> s; return s; }
void noteState(uint64_t h) { allStates().insert(h); }

const char *CaseSpec::get(const char *key, const char *dflt) const
{
    for (auto &p : params)
        if (p.first == key)
            return p.second.c_str();
    return dflt;
}
long CaseSpec::num(const char *key, long dflt) const
{
    const char *v = get(key, nullptr);
    return v && *v ? strtol(v, nullptr, 10) : dflt;
}

bool parseCase(const std::string &line, CaseSpec &out, std::string &err)
{
    out = CaseSpec();
    std::vector<std::string> toks;
    size_t i = 0;
    while (i < line.size()) {
        while (i < line.size() && (line[i] == ' ' || line[i] == '\t' || line[i] == '\r')) ++i;
        size_t j = i;
        while (j < line.size() && line[j] != ' ' && line[j] != '\t' && line[j] != '\r') ++j;
        if (j > i) toks.push_back(line.substr(i, j - i));
        i = j;
    }
    if (toks.empty()) { err = "empty"; return false; }
    out.id = toks[0];
    size_t k = 1;
    for (; k < toks.size() && toks[k] != "|"; ++k) {
        const size_t eq = toks[k].find('=');
        if (eq == std::string::npos) { err = "bad parameter " + toks[k]; return false; }
        const std::string key = toks[k].substr(0, eq), val = toks[k].substr(eq + 1);
        if (key == "pol") {
            if (val.empty()) { err = "empty pol"; return false; }
            out.policy = static_cast<Policy>(val[0]);
            if (out.policy != polRandom && out.policy != polPct && out.policy != polRtc) { err = "bad pol"; return false; }
            if (out.policy == polPct && val.size() > 1) out.pctDepth = atoi(val.c_str() + 1);
            if (out.pctDepth < 1) out.pctDepth = 1;
        } else if (key == "seed") {
            out.seed = strtoull(val.c_str(), nullptr, 10);
        } else if (key == "crash") {
            const size_t at = val.find('@');
            if (at != std::string::npos) {
                out.crashTask = atoi(val.c_str());
                out.crashAt = strtoull(val.c_str() + at + 1, nullptr, 10);
            }
        } else if (key == "reps") {
            out.reps = atoi(val.c_str());
            if (out.reps < 1) out.reps = 1;
        } else
            out.params.push_back(std::make_pair(key, val));
    }
    while (k < toks.size()) {
        if (toks[k] == "|") { out.tasks.push_back(std::vector<std::string>()); ++k; continue; }
        if (out.tasks.empty()) { err = "operation before the first |"; return false; }
        out.tasks.back().push_back(toks[k++]);
    }
    if (out.tasks.empty()) { err = "no tasks"; return false; }
    if (out.tasks.size() > static_cast<size_t>(Sched::MaxTasks)) { err = "too many tasks"; return false; }
    return true;
}

static std::map<std::string, HarnessFactory> &structures() { static std::map<std::string, HarnessFactory> m; return m; }
void registerStructure(const char *name, HarnessFactory f) { structures()[name] = f; }

/* ------------------------------------------------------------------ context switching */

static const void *g_mainStackBottom = nullptr;
static size_t g_mainStackSize = 0;
static int g_switchFrom = -2; // task index we are switching away from (-1 main)

static void afterSwitch(void *fake)
{
#if SHM_ASAN
    const void *bottom = nullptr;
    size_t size = 0;
    __sanitizer_finish_switch_fiber(fake, &bottom, &size);
    if (g_switchFrom == -1) { g_mainStackBottom = bottom; g_mainStackSize = size; }
#else
    (void)fake;
#endif
}

static void doSwitch(ucontext_t *from, ucontext_t *to, const void *toBottom, size_t toSize, int fromIdx)
{
    void *fake = nullptr;
    g_switchFrom = fromIdx;
#if SHM_ASAN
    __sanitizer_start_switch_fiber(&fake, toBottom, toSize);
#else
    (void)toBottom; (void)toSize;
#endif
    swapcontext(from, to);
    afterSwitch(fake);
}

static void taskTrampoline(int t)
{
    afterSwitch(nullptr);
    Sched::Instance().taskMain(t);
    // not reached: taskMain leaves to another context for good
    abort();
}

static void yieldHookFn(const void *, int) { Sched::Instance().hookYield(); }

Sched &Sched::Instance()
{
    static Sched s;
    return s;
}

bool Sched::othersGone(int t) const
{
    for (int i = 0; i < n_; ++i)
        if (i != t && !tasks_[i].done && !tasks_[i].crashed)
            return false;
    return true;
}

void Sched::viol(const char *cls, const char *fmt, ...)
{
    char b[700];
    va_list ap;
    va_start(ap, fmt);
    vsnprintf(b, sizeof(b), fmt, ap);
    va_end(ap);
    for (char *p = b; *p; ++p)
        if (*p == '\t' || *p == '\n') *p = ' ';
    violated_ = true;
    if (violCount_++ < 2)
        vsim::hist("VIOL\t%s\t%s%s\trep=%d step=%llu task=%d: %s", spec_ ? spec_->id.c_str() : "?", classPrefix_.c_str(), cls, spec_ ? spec_->rep : 0,
                   static_cast<unsigned long long>(steps_), cur_, b);
}

void Sched::trace(const char *fmt, ...)
{
    if (!tracing_) return;
    char b[700];
    va_list ap;
    va_start(ap, fmt);
    vsnprintf(b, sizeof(b), fmt, ap);
    va_end(ap);
    vsim::hist("TRACE\t%s\t%d\t%llu\t%d\t%s", spec_ ? spec_->id.c_str() : "?", spec_ ? spec_->rep : 0, static_cast<unsigned long long>(steps_), cur_, b);
}

bool Sched::candidate(int t, bool allowIdle) const
{
    const Task &k = tasks_[t];
    if (k.done || k.crashed) return false;
    if (k.idle && !k.wake && !allowIdle) return false;
    return true;
}

int Sched::pick()
{
    int cand[MaxTasks], nc = 0;
    for (int i = 0; i < n_; ++i)
        if (candidate(i, false)) cand[nc++] = i;
    if (!nc)
        for (int i = 0; i < n_; ++i)
            if (candidate(i, true)) cand[nc++] = i;
    if (!nc) return -1;
    int choice = cand[0];
    switch (policy_) {
    case polRandom:
        choice = cand[nc > 1 ? rng_.range(0, nc - 1) : 0];
        break;
    case polPct:
        for (int i = 1; i < nc; ++i)
            if (tasks_[cand[i]].prio > tasks_[choice].prio) choice = cand[i];
        break;
    case polRtc: {
        bool curOk = false;
        for (int i = 0; i < nc; ++i)
            if (cand[i] == cur_) curOk = true;
        if (curOk) choice = cur_;
        else // the lowest "priority slot" first: order fixed per case by the seed
            for (int i = 1; i < nc; ++i)
                if (tasks_[cand[i]].prio > tasks_[choice].prio) choice = cand[i];
        break;
    }
    }
    schedHash_ = mix64(schedHash_, static_cast<uint64_t>(choice) + 1);
    return choice;
}

void Sched::endStep()
{
    const bool wasQuiet = quiet_;
    quiet_ = true;
    ++steps_;
    if (cur_ >= 0) {
        for (int i = 0; i < n_; ++i)
            if (i != cur_) tasks_[i].wake = true;
        harness_->afterStep(cur_);
        const uint64_t sh = harness_->stateHash();
        statesHash_ = mix64(statesHash_, sh);
        noteState(sh);
        if (policy_ == polPct)
            for (size_t i = 0; i < changePoints_.size(); ++i)
                if (changePoints_[i] == steps_) tasks_[cur_].prio = --nextLowPrio_;
    }
    if (steps_ >= stepLimit_ && !violated_) {
        hitLimit_ = true;
        viol("no-progress", "case did not finish within %llu steps although every operation is non-blocking", static_cast<unsigned long long>(stepLimit_));
    }
    quiet_ = wasQuiet;
}

void Sched::switchTo(int next)
{
    const int from = cur_;
    if (from >= 0 && candidate(from, true) && !(tasks_[from].idle && !tasks_[from].wake)) ++preemptions_;
    ++switches_;
    cur_ = next;
    Task &to = tasks_[next];
    to.started = true;
    ucontext_t *fromCtx = from >= 0 ? static_cast<ucontext_t *>(tasks_[from].ctx) : static_cast<ucontext_t *>(mainCtx_);
    doSwitch(fromCtx, static_cast<ucontext_t *>(to.ctx), to.stack + GuardSize, StackSize, from);
}

void Sched::leaveToMain()
{
    const int from = cur_;
    cur_ = -1;
    doSwitch(static_cast<ucontext_t *>(tasks_[from].ctx), static_cast<ucontext_t *>(mainCtx_), g_mainStackBottom, g_mainStackSize, from);
}

void Sched::hookYield()
{
    if (cur_ < 0 || quiet_) return;
    yieldNow(false);
}

void Sched::yieldNow(bool idle)
{
    if (cur_ < 0) return;
    Task &t = tasks_[cur_];
    ++t.yields;
    t.idle = idle;
    if (idle) t.wake = false;
    if (t.crashAt && t.yields == t.crashAt) {
        t.crashed = true;
        crashFired_ = true;
    }
    endStep();
    if (violated_) leaveToMain();
    const int next = pick();
    if (next < 0) leaveToMain();
    if (next == cur_) { t.idle = false; return; }
    switchTo(next);
    // resumed
    tasks_[cur_].idle = false;
}

void Sched::taskMain(int t)
{
    try {
        harness_->runTask(t);
    } catch (const std::exception &e) {
        Quiet q(*this);
        viol("exception", "task %d: uncaught exception: %s", t, e.what());
    } catch (...) {
        Quiet q(*this);
        viol("exception", "task %d: uncaught exception of unknown type", t);
    }
    tasks_[t].done = true;
    endStep();
    if (!violated_) {
        const int next = pick();
        if (next >= 0) switchTo(next);
    }
    leaveToMain();
}

CaseResult Sched::run(const CaseSpec &spec, Harness &h)
{
    static char *stacks[MaxTasks] = {nullptr, nullptr, nullptr, nullptr};
    static ucontext_t ctxs[MaxTasks];
    static ucontext_t mainCtx;
    spec_ = &spec;
    harness_ = &h;
    n_ = static_cast<int>(spec.tasks.size());
    cur_ = -1;
    mainCtx_ = &mainCtx;
    policy_ = spec.policy;
    steps_ = preemptions_ = switches_ = 0;
    schedHash_ = 0x5eed;
    statesHash_ = 0x57a7e;
    violated_ = hitLimit_ = crashFired_ = quiet_ = false;
    violCount_ = 0;
    tracing_ = spec.num("trace", 0) != 0;
    stepLimit_ = 50000 + 4000ULL * spec.totalOps();
    rng_.seed(mix64(spec.seed + static_cast<uint64_t>(spec.rep), 0x5c4ed));

    // priorities: a seeded permutation (PCT: initial priorities d..d+n-1; RTC: order in which tasks run)
    int perm[MaxTasks] = {0, 1, 2, 3};
    for (int i = n_ - 1; i > 0; --i) {
        const int j = static_cast<int>(rng_.range(0, i));
        const int tmp = perm[i]; perm[i] = perm[j]; perm[j] = tmp;
    }
    changePoints_.clear();
    nextLowPrio_ = 0;
    const int d = spec.pctDepth;
    if (policy_ == polPct) {
        const uint64_t k = std::max<uint64_t>(4, spec.totalOps() * h.yieldsPerOp());
        for (int i = 0; i + 1 < d; ++i)
            changePoints_.push_back(rng_.range(1, k));
    }
    for (int i = 0; i < n_; ++i) {
        Task &t = tasks_[i];
        t = Task();
        if (!stacks[i]) {
            void *m = mmap(nullptr, StackSize + GuardSize, PROT_READ | PROT_WRITE, MAP_PRIVATE | MAP_ANONYMOUS, -1, 0);
            if (m == MAP_FAILED) { vsim::hist("ERROR\tshm: cannot allocate a task stack"); vsim::endRun("shm-nomem", 3); }
            mprotect(m, GuardSize, PROT_NONE);
            stacks[i] = static_cast<char *>(m);
        }
        t.stack = stacks[i];
        t.ctx = &ctxs[i];
        t.prio = d + perm[i];
        if (spec.crashTask == i) t.crashAt = spec.crashAt;
        getcontext(&ctxs[i]);
        ctxs[i].uc_stack.ss_sp = t.stack + GuardSize;
        ctxs[i].uc_stack.ss_size = StackSize;
        ctxs[i].uc_link = nullptr;
        makecontext(&ctxs[i], reinterpret_cast<void (*)()>(&taskTrampoline), 1, i);
    }

    vsim::g_yieldHook = &yieldHookFn;
    const int first = pick();
    if (first >= 0) switchTo(first);
    vsim::g_yieldHook = nullptr;
    cur_ = -1;

    CaseResult r;
    r.steps = steps_; r.preemptions = preemptions_; r.switches = switches_;
    r.schedHash = schedHash_; r.statesHash = statesHash_;
    r.crashFired = crashFired_; r.violated = violated_; r.stepLimit = hitLimit_;
    r.allDone = true;
    for (int i = 0; i < n_; ++i)
        if (!tasks_[i].done) r.allDone = false;
    return r;
}

/* ------------------------------------------------------------------ the driver */

static std::string g_curCase = "-";
static int g_curRep = 0;

static void deathHandler(int sig)
{
    // synchronous signals raised by the code under test (assertion -> abort, wild pointer): keep the history
    vsim::hist("DIED\t%s\t%d\tsignal %d", g_curCase.c_str(), g_curRep, sig);
    vsim::histFlush();
    signal(sig, SIG_DFL);
    if (sig != SIGABRT) _exit(128 + sig);
    // SIGABRT: return; abort() re-raises with the default action
}

static int runCases(const std::vector<std::string> &args)
{
    if (args.empty()) { vsim::hist("ERROR\tshm:run needs a structure name"); return 3; }
    const auto it = structures().find(args[0]);
    if (it == structures().end()) { vsim::hist("ERROR\tshm:run: unknown structure %s", args[0].c_str()); return 3; }
    const std::string path = vsim::g_scn.rundir + "/" + (args.size() > 1 ? args[1] : std::string("cases.txt"));
    std::ifstream in(path.c_str());
    if (!in) { vsim::hist("ERROR\tshm:run: cannot read %s", (args.size() > 1 ? args[1] : std::string("cases.txt")).c_str()); return 3; }

    static char altStack[64 * 1024];
    stack_t ss;
    ss.ss_sp = altStack; ss.ss_size = sizeof(altStack); ss.ss_flags = 0;
    sigaltstack(&ss, nullptr);
    struct sigaction sa;
    memset(&sa, 0, sizeof(sa));
    sa.sa_handler = &deathHandler;
    sa.sa_flags = SA_ONSTACK | SA_NODEFER;
    const int sigs[] = {SIGABRT, SIGSEGV, SIGBUS, SIGFPE, SIGILL};
    for (int s : sigs) sigaction(s, &sa, nullptr);

    Sched &sched = Sched::Instance();
    std::string line, err;
    uint64_t nCases = 0, nReps = 0, nViolCases = 0;
    while (std::getline(in, line)) {
        if (line.empty() || line[0] == '#') continue;
        CaseSpec spec;
        if (!parseCase(line, spec, err)) { vsim::hist("ERROR\tshm:run: bad case line (%s): %.200s", err.c_str(), line.c_str()); return 3; }
        ++nCases;
        g_curCase = spec.id;
        uint64_t steps = 0, preempt = 0, sh = 0, st = 0;
        bool crashFired = false, violated = false, allDone = true;
        for (int rep = 0; rep < spec.reps && !violated; ++rep) {
            spec.rep = rep;
            g_curRep = rep;
            Harness *h = it->second();
            sched.setClassPrefix("");
            h->setup(spec, sched);
            const CaseResult r = sched.run(spec, *h);
            if (!r.violated)
                h->finish(r.allDone && !r.crashFired);
            violated = r.violated || sched.violated();
            delete h;
            ++nReps;
            steps += r.steps; preempt += r.preemptions;
            sh = mix64(sh, r.schedHash); st = mix64(st, r.statesHash);
            crashFired = crashFired || r.crashFired;
            allDone = allDone && r.allDone;
            allSchedules().insert(r.schedHash);
            vsim::probe("shm.steps", r.steps);
            vsim::probe("shm.preemptions", r.preemptions);
            vsim::probe("shm.switches", r.switches);
            if (r.crashFired) vsim::probe("fault.shm.kid_crash");
        }
        if (violated) ++nViolCases;
        vsim::hist("CASE\t%s\t%llu\t%016llx\t%016llx\t%llu\t%s%s%s", spec.id.c_str(), static_cast<unsigned long long>(steps),
                   static_cast<unsigned long long>(sh), static_cast<unsigned long long>(st), static_cast<unsigned long long>(preempt),
                   allDone ? "D" : "d", crashFired ? "K" : "k", violated ? "V" : "v");
    }
    g_curCase = "-";
    vsim::probe("shm.cases", nCases);
    vsim::probe("shm.reps", nReps);
    vsim::probe("shm.violating_cases", nViolCases);
    vsim::probe("shm.distinct_schedules", allSchedules().size());
    vsim::probe("shm.distinct_states", allStates().size());
    return 0;
}

static const bool registered = (vsim::registerHarness("shm:run", &runCases), true);

} // namespace shm
