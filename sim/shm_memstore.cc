// C19 (component level): several real MemStore instances ("workers") attached to ONE set of shared segments (the map, the slice
// stack, the extras and the page pool that squid itself created for `memory_cache_shared on`) under the seeded scheduler.
// Needs a squid.conf with `memory_cache_shared on` and a small cache_mem (a handful of 32 KB pages).
//
// Every task is one worker with its own MemStore object and its own private StoreEntry objects (never hashed into store_table --
// real workers do not share that table either). The harness plays Store::Controller's part only: it hands entries to
// MemStore::write() as they grow, calls MemStore::get()/updateAnchored()/disconnect()/evictIfFound() and compares bytes.
//
// case parameters: keys=<1..3>  sizes=<body sizes, comma separated>  chunk=<bytes appended per "w">
// operations (skipped when their precondition does not hold):
//   N<j>:<s>  start a new response for key j with body size sizes[s] (the task has no response in progress)
//   w         the response in progress grows by one chunk (the last chunk completes it); MemStore::write() is called
//   x         abort the response in progress (MemStore::disconnect() = abortWriting)
//   G<j>      MemStore::get(key j); the returned private entry is checked and kept (at most 2 kept per task)
//   g         MemStore::updateAnchored() on the oldest kept entry that is still attached (reads what was appended meanwhile)
//   d         drop the oldest kept entry (disconnect if attached)
//   E<j>      MemStore::evictIfFound(key j)
//   U         MemStore::updateHeaders() on the oldest kept entry that is completely loaded and whose version is known: the reply gets one
//             more header field (as after a 304), the shared copy gets a fresh header prefix spliced onto the old body
#include "squid.h"
#include "HttpReply.h"
#include "ipc/mem/Page.h"
#include "ipc/mem/Pages.h"
#include "ipc/mem/PageStack.h"
#include "ipc/StoreMap.h"
#include "MemBuf.h"
#include "MemObject.h"
#include "MemStore.h"
#include "sbuf/SBuf.h"
#include "Store.h"
#include "StoreIOBuffer.h"
#include "shm_sched.h"

#include <cstdlib>
#include <deque>

namespace shm {

class MemStoreHarness: public Harness
{
public:
    enum VState { Writing, Complete, Aborted };
    struct Version {
        int key = 0;
        std::string wire; ///< header + body exactly as the writer's local memory holds it
        VState state = Writing;
        bool started = false;      ///< MemStore::write() accepted it (startCaching() returned)
        uint64_t deletedTick = 0;  ///< an eviction that certainly hit it returned at this tick
        bool isUpdate = false;     ///< produced by MemStore::updateHeaders()
        uint64_t updCloseTick = 0; ///< the update entered StoreMap::closeForUpdating() at this tick (0: not yet)
        uint64_t updEndTick = 0;   ///< updateHeaders() returned at this tick (0: not yet)
    };
    struct Kept { StoreEntry *e = nullptr; int key = 0; int ver = 0; size_t seen = 0; uint64_t t0 = 0; };
    struct Worker {
        StoreEntry *writing = nullptr; int wver = 0; size_t fed = 0;
        std::deque<Kept> kept;
        uint64_t evictStartTick = 0;
        bool evicting = false; int evictKey = -1; std::vector<int> evictTargets; bool evictDisturbed = false;
        bool starting = false; int startKey = -1;
        int updatingVer = 0; ///< version being produced by an updateHeaders() call in progress
    };

    void setup(const CaseSpec &spec, Sched &s) override {
        spec_ = &spec;
        s_ = &s;
        nKeys_ = static_cast<int>(std::min(3L, std::max(1L, spec.num("keys", 2))));
        chunk_ = static_cast<size_t>(std::max(1000L, spec.num("chunk", 20000)));
        sizes_.clear();
        std::string ss = spec.get("sizes", "9000,40000");
        for (size_t i = 0; i < ss.size();) {
            size_t j = ss.find(',', i);
            if (j == std::string::npos) j = ss.size();
            sizes_.push_back(static_cast<size_t>(std::max(1, atoi(ss.substr(i, j - i).c_str()))));
            i = j + 1;
        }
        if (sizes_.empty()) sizes_.push_back(9000);
        for (int j = 0; j < nKeys_; ++j) {
            keys_[j][0] = 0x5151515100000000ULL + static_cast<uint64_t>(j + 1) * 977;
            keys_[j][1] = 0x1919000000000000ULL + static_cast<uint64_t>(j) * 3 + 1; // neighbouring anchor positions, collisions on tiny maps
        }
        // cases that update headers go through StoreMap's update path, whose known defects (DESIGN.md 8.3, C55) get their own class prefix
        bool updates = false;
        for (auto &t : spec.tasks)
            for (auto &op : t)
                if (op[0] == 'U') updates = true;
        s.setClassPrefix(updates ? "upd-" : "");
        current_ = this;
        vsim::closeForUpdatingHook = &MemStoreHarness::NoteCloseForUpdating;
        ok_ = true;
        resetShared();
        vers_.clear();
        vers_.push_back(Version());
        tick_ = 1;
        for (auto &w : w_) w = Worker();
    }

    ~MemStoreHarness() override {
        if (!finishedClean_) dirty_ = true; // abandoned tasks leave locks and half-done MemStore calls behind
        if (current_ == this) { current_ = nullptr; vsim::closeForUpdatingHook = nullptr; }
    }

    void runTask(int t) override {
        if (!ok_) return;
        const auto &ops = spec_->tasks[static_cast<size_t>(t)];
        for (size_t i = 0; i < ops.size(); ++i) {
            if (s_->violated()) return;
            const std::string &op = ops[i];
            s_->trace("invoke %s", op.c_str());
            switch (op[0]) {
            case 'N': {
                const int j = static_cast<int>(static_cast<unsigned>(atoi(op.c_str() + 1)) % static_cast<unsigned>(nKeys_));
                const size_t colon = op.find(':');
                const size_t si = colon == std::string::npos ? 0 : static_cast<size_t>(atoi(op.c_str() + colon + 1)) % sizes_.size();
                opNew(t, j, sizes_[si]);
                break;
            }
            case 'w': opFeed(t); break;
            case 'x': opAbort(t); break;
            case 'G': opGet(t, static_cast<int>(static_cast<unsigned>(atoi(op.c_str() + 1)) % static_cast<unsigned>(nKeys_))); break;
            case 'g': opMore(t); break;
            case 'd': opDrop(t); break;
            case 'U': opUpdate(t); break;
            case 'V': opEvictKept(t); break;
            case 'E': opEvict(t, static_cast<int>(static_cast<unsigned>(atoi(op.c_str() + 1)) % static_cast<unsigned>(nKeys_))); break;
            default: break;
            }
            s_->trace("return %s", op.c_str());
        }
    }

    void afterStep(int) override {}

    uint64_t stateHash() override {
        Shared &sh = shared();
        uint64_t h = hashBytes(sh.space.getRaw(), Ipc::Mem::PageStack::StackSize(sh.space->capacity()));
        h = hashBytes(sh.pool.getRaw(), Ipc::Mem::PageStack::StackSize(sh.pool->capacity()), h);
        for (int f = 0; f < sh.limit; ++f) {
            const Ipc::StoreMapAnchor &a = sh.anchors->items[f];
            h = hashBytes(&a.lock, sizeof(a.lock), h);
            h = mix64(h, (static_cast<uint64_t>(a.waitingToBeFreed) << 1) | a.writerHalted);
            h = mix64(h, a.empty() ? 0 : a.key[1] % 64 + 1);
            h = mix64(h, static_cast<uint64_t>(static_cast<int64_t>(a.start)) * 31 + a.basics.swap_file_sz);
        }
        return h;
    }

    void finish(bool quiescent) override {
        if (!quiescent) return;
        finishedClean_ = true;
        vsim::probe("c19.quiescent_checks");
        const int nt = static_cast<int>(spec_->tasks.size());
        for (int t = 0; t < nt; ++t) {
            Worker &w = w_[t];
            if (w.writing) { if (w.writing->hasMemStore()) store(t).disconnect(*w.writing); destroy(w.writing); w.writing = nullptr; vers_[static_cast<size_t>(w.wver)].state = Aborted; }
            while (!w.kept.empty()) { dropKept(t, w.kept.front()); w.kept.pop_front(); }
        }
        if (s_->violated()) return;
        // whatever can still be fetched must be one complete version, byte for byte
        for (int j = 0; j < nKeys_; ++j) {
            const uint64_t t0 = now();
            StoreEntry *e = store(0).get(keyOf(j));
            if (!e) continue;
            Kept k; k.e = e; k.key = j;
            judge(0, k, t0, "final get");
            if (!s_->violated() && e->store_status != STORE_OK)
                s_->viol("incomplete-at-quiescence", "final get(key %d) returned an entry that is still marked incomplete although no writer is left", j);
            dropKept(0, k);
            if (s_->violated()) return;
        }
        // conservation: evict everything; every slice and every page must be free again
        for (int j = 0; j < nKeys_; ++j) store(0).evictIfFound(keyOf(j));
        Shared &sh = shared();
        // A header update leaves its stale anchor marked for deletion and unlocked; the map reclaims it (up to the splicing point) when the
        // position is needed again. Such anchors are garbage by design, not leaks: their slices and pages are counted as reclaimable.
        unsigned lazySlices = 0;
        for (int f = 0; f < sh.limit; ++f) {
            const Ipc::StoreMapAnchor &a = sh.anchors->items[f];
            if (a.lock.readers || a.lock.writing || (!a.empty() && !a.waitingToBeFreed))
                { s_->viol("leftover-entry", "anchor %d is still in use (readers=%u writing=%d) after every worker finished and every key was evicted", f,
                           static_cast<unsigned>(a.lock.readers), static_cast<int>(a.lock.writing)); return; }
            if (a.empty()) continue;
            int guard = sh.limit + 1;
            for (Ipc::StoreMapSliceId sid = a.start; sid >= 0 && guard-- > 0; sid = sh.slices->items[sid].next) {
                ++lazySlices;
                if (sid == a.splicingPoint) break;
            }
        }
        if (sh.space->size() + lazySlices != static_cast<unsigned>(sh.limit) || Ipc::Mem::PageLevel(Ipc::Mem::PageId::cachePage) != lazySlices)
            s_->viol("page-leak", "after evicting everything %u of %d slices are free (+%u lazily reclaimable) and %zu cache pages are still in use", sh.space->size(), sh.limit,
                     lazySlices, Ipc::Mem::PageLevel(Ipc::Mem::PageId::cachePage));
    }

    unsigned yieldsPerOp() const override { return 40; }

    static void NoteCloseForUpdating() {
        MemStoreHarness *h = current_;
        if (!h || !h->s_) return;
        const int t = h->s_->currentTask();
        if (t < 0) return;
        Worker &w = h->w_[t];
        if (w.updatingVer > 0) h->vers_[static_cast<size_t>(w.updatingVer)].updCloseTick = h->now();
    }
    static MemStoreHarness *current_;

private:
    /* ---- shared segments: attached once, re-created in place for every case ---- */
    struct Shared {
        bool attached = false;
        int limit = 0;
        Ipc::Mem::Pointer<Ipc::Mem::PageStack> pool, space;
        Ipc::Mem::Pointer<Ipc::StoreMapFileNos> fileNos;
        Ipc::Mem::Pointer<Ipc::StoreMapAnchors> anchors;
        Ipc::Mem::Pointer<Ipc::StoreMapSlices> slices;
        Ipc::Mem::Pointer<MemStoreMapExtras> extras;
        MemStore *stores[Sched::MaxTasks] = {nullptr, nullptr, nullptr, nullptr};
    };
    static Shared &shared() { static Shared sh; return sh; }

    void resetShared() {
        Shared &sh = shared();
        if (!MemStore::Enabled()) {
            vsim::hist("ERROR\tshm memstore: squid.conf does not enable a shared memory cache");
            ok_ = false;
            return;
        }
        if (!sh.attached) {
            const SBuf map("cache_mem_map");
            sh.pool = shm_old(Ipc::Mem::PageStack)("squid-page-pool");
            sh.space = shm_old(Ipc::Mem::PageStack)("cache_mem_space");
            sh.fileNos = shm_old(Ipc::StoreMapFileNos)(Ipc::Mem::Segment::Name(map, "filenos").c_str());
            sh.anchors = shm_old(Ipc::StoreMapAnchors)(Ipc::Mem::Segment::Name(map, "anchors").c_str());
            sh.slices = shm_old(Ipc::StoreMapSlices)(Ipc::Mem::Segment::Name(map, "slices").c_str());
            sh.extras = shm_old(MemStoreMapExtras)("cache_mem_ex");
            sh.limit = static_cast<int>(sh.space->capacity());
            sh.attached = true;
        }
        using Ipc::Mem::PageStack;
        { // the page pool: PagePool::Init()
            PageStack::Config cfg;
            memset(static_cast<void *>(&cfg), 0, sizeof(cfg));
            cfg.poolId = PageStack::IdForMultipurposePool();
            cfg.pageSize = Ipc::Mem::PageSize();
            cfg.capacity = sh.pool->capacity();
            cfg.createFull = true;
            const size_t meta = PageStack::StackSize(cfg.capacity) + PageStack::LevelsPaddingSize(cfg.capacity) +
                                Ipc::Mem::PageId::maxPurpose * sizeof(PageStack::Levels_t);
            void *p = sh.pool.getRaw();
            memset(p, 0, meta);
            new (p) PageStack(cfg);
        }
        { // free slices: MemStoreRr::create()
            PageStack::Config cfg;
            memset(static_cast<void *>(&cfg), 0, sizeof(cfg));
            cfg.poolId = PageStack::IdForMemStoreSpace();
            cfg.pageSize = 0;
            cfg.capacity = static_cast<unsigned>(sh.limit);
            cfg.createFull = true;
            void *p = sh.space.getRaw();
            memset(p, 0, PageStack::StackSize(cfg.capacity));
            new (p) PageStack(cfg);
        }
        memset(static_cast<void *>(sh.fileNos.getRaw()), 0, Ipc::StoreMapFileNos::SharedMemorySize(sh.limit));
        new (sh.fileNos.getRaw()) Ipc::StoreMapFileNos(sh.limit);
        memset(static_cast<void *>(sh.anchors.getRaw()), 0, Ipc::StoreMapAnchors::SharedMemorySize(sh.limit));
        new (sh.anchors.getRaw()) Ipc::StoreMapAnchors(sh.limit);
        memset(static_cast<void *>(sh.slices.getRaw()), 0, Ipc::StoreMapSlices::SharedMemorySize(sh.limit));
        new (sh.slices.getRaw()) Ipc::StoreMapSlices(sh.limit);
        memset(static_cast<void *>(sh.extras.getRaw()), 0, MemStoreMapExtras::SharedMemorySize(sh.limit));
        new (sh.extras.getRaw()) MemStoreMapExtras(sh.limit);
        // the workers: fresh MemStore objects after a case that abandoned tasks in the middle of MemStore calls
        if (dirty_)
            for (auto &st : sh.stores) { delete st; st = nullptr; }
        for (size_t t = 0; t < spec_->tasks.size(); ++t)
            if (!sh.stores[t]) {
                sh.stores[t] = new MemStore;
                sh.stores[t]->init();
            }
        dirty_ = false;
    }

    MemStore &store(int t) { return *shared().stores[t]; }
    uint64_t now() { return tick_++; }
    const cache_key *keyOf(int j) const { return reinterpret_cast<const cache_key *>(keys_[j]); }

    static void destroy(StoreEntry *e) {
        e->key = nullptr; // never hashed
        destroyStoreEntry(static_cast<hash_link *>(e));
    }

    /* ---- writer ---- */

    void opNew(int t, int j, size_t bodySize) {
        Worker &w = w_[t];
        if (w.writing) return;
        Version v;
        v.key = j;
        vers_.push_back(v);
        const int ver = static_cast<int>(vers_.size()) - 1;

        StoreEntry *e = new StoreEntry;
        e->lock("shm_memstore writer");
        char url[64];
        snprintf(url, sizeof(url), "http://sim.example/k%d", j);
        e->createMemObject(url, url, Http::METHOD_GET);
        e->key = const_cast<cache_key *>(keyOf(j)); // public key set by hand; the entry stays out of store_table
        e->timestamp = 1700000000; e->lastref = 1700000000; e->expires = 1700003600;
        e->store_status = STORE_PENDING;
        HttpReply *rep = new HttpReply;
        rep->setHeaders(Http::scOkay, "OK", "application/octet-stream", static_cast<int64_t>(bodySize), 1690000000, 1700003600);
        char verText[32];
        snprintf(verText, sizeof(verText), "%d", ver);
        rep->header.putExt("X-Sim-Ver", verText);
        e->mem().replaceBaseReply(HttpReplyPointer(rep));
        MemBuf *mb = rep->pack();
        std::string wire(mb->content(), static_cast<size_t>(mb->contentSize()));
        delete mb;
        const size_t hdrLen = wire.size();
        e->mem_obj->write(StoreIOBuffer(hdrLen, 0, const_cast<char *>(wire.data())));
        e->mem_obj->markEndOfReplyHeaders();
        wire.reserve(hdrLen + bodySize);
        for (size_t i = 0; i < bodySize; ++i)
            wire.push_back(static_cast<char>('A' + (static_cast<size_t>(ver) * 7 + i / 64 + i % 23) % 26));
        vers_[static_cast<size_t>(ver)].wire = wire;
        w.writing = e; w.wver = ver; w.fed = hdrLen;
        vsim::probe("c19.responses_started");
        s_->trace("version %d for key %d: %zu header + %zu body bytes", ver, j, hdrLen, bodySize);
    }

    void opFeed(int t) {
        Worker &w = w_[t];
        if (!w.writing) return;
        StoreEntry *e = w.writing;
        const int ver = w.wver;
        const std::string &wire = vers_[static_cast<size_t>(ver)].wire;
        const size_t n = std::min(chunk_, wire.size() - w.fed);
        if (n > 0) {
            e->mem_obj->write(StoreIOBuffer(n, static_cast<int64_t>(w.fed), const_cast<char *>(wire.data() + w.fed)));
            w.fed += n;
        }
        if (w.fed == wire.size()) { // StoreEntry::complete() minus the local callbacks
            e->mem_obj->object_sz = e->mem_obj->endOffset();
            e->store_status = STORE_OK;
        }
        const bool first = e->mem_obj->memCache.io == Store::ioUndecided;
        if (first) {
            w.starting = true; w.startKey = vers_[static_cast<size_t>(ver)].key;
            for (auto &o : w_) if (o.evicting && o.evictKey == w.startKey) o.evictDisturbed = true;
        }
        store(t).write(*e);
        w.starting = false;
        Version &v = vers_[static_cast<size_t>(ver)];
        vsim::probe("c19.write_calls");
        if (e->mem_obj->memCache.io == Store::ioWriting) { // accepted, more to come
            v.started = true;
            return;
        }
        // ioDone: cached completely (completeWriting), refused at the start, or given up (abortWriting)
        if (e->store_status == STORE_OK && e->mem_obj->memCache.offset == static_cast<int64_t>(wire.size())) {
            v.started = true;
            v.state = Complete;
            vsim::probe("c19.responses_cached");
        } else {
            v.state = Aborted;
            if (!v.deletedTick) v.deletedTick = now(); // freed or marked by abortWriting(): no later get() may return it
            vsim::probe("c19.responses_not_cached");
        }
        destroy(e);
        w.writing = nullptr;
    }

    void opAbort(int t) {
        Worker &w = w_[t];
        if (!w.writing) return;
        StoreEntry *e = w.writing;
        vers_[static_cast<size_t>(w.wver)].state = Aborted;
        if (e->hasMemStore()) store(t).disconnect(*e);
        if (!vers_[static_cast<size_t>(w.wver)].deletedTick) vers_[static_cast<size_t>(w.wver)].deletedTick = now();
        destroy(e);
        w.writing = nullptr;
        vsim::probe("c19.responses_aborted");
    }

    /* ---- reader ---- */

    /// compares what the private entry holds with what some worker wrote for that key
    void judge(int t, Kept &k, uint64_t t0, const char *what) {
        StoreEntry *e = k.e;
        const int64_t end = e->mem_obj->endOffset();
        std::string got(static_cast<size_t>(std::max<int64_t>(end, 0)), '\0');
        if (end > 0) {
            const ssize_t n = e->mem_obj->data_hdr.copy(StoreIOBuffer(static_cast<size_t>(end), 0, &got[0]));
            if (n != end) { s_->viol("harness-copy", "copied %zd of %lld local bytes", n, static_cast<long long>(end)); return; }
        }
        const bool complete = e->store_status == STORE_OK;
        // which versions written for this key start with these bytes?
        int match = 0, matches = 0;
        for (size_t v = vers_.size() - 1; v >= 1; --v) {
            const Version &c = vers_[v];
            if (k.ver ? static_cast<int>(v) != k.ver : c.key != k.key) continue;
            if (got.size() > c.wire.size() || memcmp(got.data(), c.wire.data(), got.size())) continue;
            if (complete && got.size() != c.wire.size()) continue;
            ++matches;
            if (!match) match = static_cast<int>(v);
        }
        if (!matches) {
            size_t bestLen = 0; int best = 0;
            for (size_t v = 1; v < vers_.size(); ++v) {
                const std::string &w = vers_[v].wire;
                size_t i = 0;
                while (i < got.size() && i < w.size() && got[i] == w[i]) ++i;
                if (i >= bestLen) { bestLen = i; best = static_cast<int>(v); }
            }
            const Version &bv = vers_[static_cast<size_t>(best)];
            if (complete && bestLen == got.size() && bv.key == k.key && (!k.ver || k.ver == best))
                s_->viol("truncated-served-as-complete", "%s(key %d) by worker %d: entry marked complete holds %zu of the %zu bytes of version %d", what, k.key,
                         t, got.size(), bv.wire.size(), best);
            else
                s_->viol("mixed-or-foreign-bytes", "%s(key %d) by worker %d holds %zu bytes (%s) that are not a prefix of %s; longest common prefix: %zu bytes "
                         "with version %d (key %d, %zu bytes)", what, k.key, t, got.size(), complete ? "marked complete" : "incomplete",
                         k.ver ? "the version it showed before" : "any version written for that key", bestLen, best, bv.key, bv.wire.size());
            return;
        }
        if (got.size() < k.seen) {
            s_->viol("entry-shrank", "%s(key %d): local copy went from %zu to %zu bytes", what, k.key, k.seen, got.size());
            return;
        }
        k.seen = got.size();
        if (!k.t0) k.t0 = t0;
        if (matches == 1 && !k.ver) {
            k.ver = match;
            const Version &v = vers_[static_cast<size_t>(match)];
            if (v.deletedTick && v.deletedTick < k.t0) {
                s_->viol("evicted-version-served", "%s(key %d) by worker %d returned version %d although an eviction (or abort) of exactly that version had "
                         "returned before get() was invoked", what, k.key, t, match);
                return;
            }
        }
        vsim::probe(complete ? "c19.complete_hits_verified" : "c19.partial_hits_verified");
        vsim::probe("c19.bytes_compared", got.size());
    }

    void opGet(int t, int j) {
        Worker &w = w_[t];
        if (w.kept.size() >= 2) return;
        const uint64_t t0 = now();
        StoreEntry *e = store(t).get(keyOf(j));
        if (!e) { vsim::probe("c19.get_miss"); return; }
        vsim::probe("c19.get_hit");
        Kept k; k.e = e; k.key = j;
        judge(t, k, t0, "get");
        if (s_->violated()) return;
        s_->trace("get(key %d): version %d, %zu bytes, %s, %s", j, k.ver, k.seen, e->store_status == STORE_OK ? "complete" : "incomplete",
                  e->hasMemStore() ? "attached" : "detached");
        w.kept.push_back(k);
    }

    void opMore(int t) {
        Worker &w = w_[t];
        for (auto &k : w.kept) {
            if (!k.e->hasMemStore()) continue;
            const uint64_t t0 = now();
            bool ok = false;
            try {
                ok = store(t).updateAnchored(*k.e);
            } catch (const std::exception &ex) {
                // e.g. "truncated mem-cached headers": copyFromShm() read anchor.start (none yet) and then anchor.complete() (writer finished in between).
                // The entry is refused, not served: outside C19's statement (DESIGN.md 8.4/8.7); counted, and the local copy must still not look complete
                vsim::probe("c19.update_anchored_threw");
                s_->trace("updateAnchored(key %d) threw: %s", k.key, ex.what());
            }
            vsim::probe(ok ? "c19.update_anchored_ok" : "c19.update_anchored_failed");
            if (ok) judge(t, k, t0, "updateAnchored");
            else if (k.e->store_status == STORE_OK) s_->viol("failed-but-complete", "updateAnchored(key %d) failed but the entry is marked complete", k.key);
            return;
        }
    }

    /* ---- header update (what Store::Controller::updateOnNotModified() does for an IN_MEMORY entry after a 304) ---- */

    void opUpdate(int t) {
        Worker &w = w_[t];
        for (auto &k : w.kept) {
            StoreEntry *e = k.e;
            if (e->store_status != STORE_OK || !k.ver || e->mem_obj->updatedReply()) continue;
            const Version old = vers_[static_cast<size_t>(k.ver)];
            const uint64_t hdrSz = e->mem().baseReply().hdr_sz;
            if (!hdrSz || hdrSz > old.wire.size()) continue;
            HttpReplyPointer fresh(e->mem().baseReply().clone());
            char val[48];
            snprintf(val, sizeof(val), "%0*d", 1 + static_cast<int>((tick_ * 7) % 30), static_cast<int>(vers_.size()));
            fresh->header.putExt("X-Sim-Upd", val);
            MemBuf *mb = fresh->pack();
            Version nv;
            nv.key = k.key;
            nv.wire.assign(mb->content(), static_cast<size_t>(mb->contentSize()));
            delete mb;
            nv.wire.append(old.wire, hdrSz, std::string::npos);
            nv.isUpdate = true;
            nv.state = Complete;
            nv.started = true; // may become visible to others at any instant from now on (or never, if the update is refused)
            vers_.push_back(nv);
            s_->trace("update of version %d for key %d: version %zu, %zu header bytes instead of %llu", k.ver, k.key, vers_.size() - 1,
                      nv.wire.size() - (old.wire.size() - hdrSz), static_cast<unsigned long long>(hdrSz));
            e->mem().updateReply(*fresh);
            e->key = const_cast<cache_key *>(keyOf(k.key));
            e->lock("shm_memstore update"); // StoreMapUpdate locks and unlocks the entry; without a holder of our own the unlock would destroy it
            now();
            w.updatingVer = static_cast<int>(vers_.size()) - 1;
            store(t).updateHeaders(e);
            vers_[static_cast<size_t>(w.updatingVer)].updEndTick = now();
            w.updatingVer = 0;
            e->key = nullptr;
            vsim::probe("c19.header_updates");
            return;
        }
    }

    void dropKept(int t, Kept &k) {
        if (k.e->hasMemStore()) store(t).disconnect(*k.e);
        destroy(k.e);
        k.e = nullptr;
    }

    void opDrop(int t) {
        Worker &w = w_[t];
        if (w.kept.empty()) return;
        dropKept(t, w.kept.front());
        w.kept.pop_front();
    }

    /* ---- eviction ---- */

    template <class Call> void evictWith(int t, int j, Call call, int onlyVer = -1) {
        Worker &w = w_[t];
        w.evicting = true; w.evictKey = j; w.evictDisturbed = false; w.evictStartTick = tick_;
        w.evictTargets.clear();
        for (auto &o : w_) if (o.starting && o.startKey == j) w.evictDisturbed = true; // setKey() may reset the mark
        for (size_t v = 1; v < vers_.size(); ++v)
            if (vers_[v].key == j && vers_[v].started && !vers_[v].deletedTick && (onlyVer < 0 || onlyVer == static_cast<int>(v))) w.evictTargets.push_back(static_cast<int>(v));
        now();
        call();
        w.evicting = false;
        vsim::probe("c19.evictions");
        if (w.evictDisturbed) return;
        const uint64_t at = now();
        for (int v : w.evictTargets) {
            Version &ver = vers_[static_cast<size_t>(v)];
            // An updated edition is certainly covered by this eviction when the update had finished before the eviction began, or when the whole
            // eviction happened before the update entered closeForUpdating() (which then must carry the deletion over to the fresh edition).
            // An eviction that overlaps closeForUpdating() itself may legitimately miss the fresh edition (the race documented in that method).
            if (ver.isUpdate) {
                const bool finishedBefore = ver.updEndTick && ver.updEndTick < w.evictStartTick;
                const bool evictedBeforeClosing = !ver.updCloseTick || ver.updCloseTick > at;
                if (!finishedBefore && !evictedBeforeClosing) { vsim::probe("c19.evictions_overlapping_update_close"); continue; }
            }
            if (!ver.deletedTick) { ver.deletedTick = at; vsim::probe("c19.certain_evictions"); }
        }
    }

    void opEvict(int t, int j) { evictWith(t, j, [&] { store(t).evictIfFound(keyOf(j)); }); }

    // what StoreEntry::release() does to the shared memory cache for an entry this worker holds (Store::Controller::evictCached() ->
    // MemStore::evictCached()): the entry was loaded by get() and is either still attached (reading) or already detached after a complete copy
    void opEvictKept(int t) {
        Worker &w = w_[t];
        if (w.kept.empty()) return;
        Kept k = w.kept.front();
        w.kept.pop_front();
        StoreEntry *e = k.e;
        e->key = const_cast<cache_key *>(keyOf(k.key)); // public key set by hand, as for writers
        e->lock("shm_memstore release");                // the releasing transaction still holds its entry
        vsim::probe(e->hasMemStore() ? "c19.release_attached" : "c19.release_detached");
        // An attached entry is matched by its attachment (Store::Controlled::evictCached()): only the edition it reads is certainly evicted; an
        // edition that a header update has meanwhile published under the same key stays (DESIGN.md 8.7). A detached entry is matched by key.
        evictWith(t, k.key, [&] { store(t).evictCached(*e); }, e->hasMemStore() ? k.ver : -1);
        if (e->hasMemStore()) store(t).disconnect(*e);
        destroy(e);
    }

    const CaseSpec *spec_ = nullptr;
    Sched *s_ = nullptr;
    int nKeys_ = 1;
    size_t chunk_ = 20000;
    std::vector<size_t> sizes_;
    uint64_t keys_[3][2];
    std::deque<Version> vers_;
    uint64_t tick_ = 1;
    Worker w_[Sched::MaxTasks];
    bool ok_ = true;
    bool finishedClean_ = false;
    static bool dirty_;
};
bool MemStoreHarness::dirty_ = false;

static Harness *makeMemStore() { return new MemStoreHarness; }
static const bool registeredMs = (registerStructure("memstore", &makeMemStore), true);

MemStoreHarness *MemStoreHarness::current_ = nullptr;

} // namespace shm
