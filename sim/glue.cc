// Squid-facing glue (compiled with squid's own flags and the atomic shim).
#include "squid.h"
#include "store/Controller.h"

extern "C" int verif_store_rebuilding() { return Store::Controller::store_dirs_rebuilding; }

// libtool's "-dlopen force" preloaded-symbols table, replaced by an empty one (DESIGN.md §3.8)
extern "C" {
struct lt_dlsymlist_ { const char *name; void *address; };
extern const struct lt_dlsymlist_ lt__PROGRAM__LTX_preloaded_symbols[];
const struct lt_dlsymlist_ lt__PROGRAM__LTX_preloaded_symbols[] = { {"@PROGRAM@", nullptr}, {nullptr, nullptr} };
}
