// Squid-facing glue (compiled with squid's own flags and the atomic shim).
#include "squid.h"
#include "store/Controller.h"

extern "C" int verif_store_rebuilding() { return Store::Controller::store_dirs_rebuilding; }

// libtool's "-dlopen force" preloaded-symbols table, replaced by an empty one (DESIGN.md §3.8)
extern "C" {
struct lt_dlsymlist_ { const char *name; void *address; };
extern const struct lt_dlsymlist_ lt__PROGRAM__LTX_preloaded_symbols[];
const struct lt_dlsymlist_ lt__PROGRAM__LTX_preloaded_symbols[] = { {"@PROGRAM@", nullptr}, {nullptr, nullptr} };
}

// ---------------------------------------------------------------------------------------------------------------------
// C57: walk every readable entry of every rock cache_dir index through the public Ipc::StoreMap API (DESIGN.md §4 C57)
#include "sim.h"
#include "SquidConfig.h"
#include "fs/rock/RockSwapDir.h"
#include "ipc/StoreMap.h"
#include "store/Disks.h"
#include "store/Disk.h"
#include <set>

extern "C" void verif_rock_walk(const char *label)
{
    for (size_t i = 0; i < Config.cacheSwap.n_configured; ++i) {
        const auto *dir = dynamic_cast<const Rock::SwapDir *>(Config.cacheSwap.swapDirs[i].getRaw());
        if (!dir)
            continue;
        Ipc::StoreMap map(dir->inodeMapPath());
        const int limit = map.entryLimit();
        const int sliceLimit = map.sliceLimit();
        std::set<int> used;       // slices reachable from some readable entry
        int readable = 0, bad = 0;
        for (int fileno = 0; fileno < limit; ++fileno) {
            const auto &peek = map.peekAtEntry(fileno);
            if (peek.empty() || peek.writing())
                continue;
            uint64_t key[2] = {peek.key[0], peek.key[1]};
            const auto *anchor = map.openForReadingAt(fileno, reinterpret_cast<const cache_key *>(key));
            if (!anchor)
                continue;
            ++readable;
            std::set<int> mine;
            uint64_t total = 0;
            const char *verdict = "ok";
            int slice = anchor->start;
            int steps = 0;
            while (slice >= 0) {
                if (slice >= sliceLimit) { verdict = "slice-out-of-range"; break; }
                if (mine.count(slice)) { verdict = "cycle"; break; }
                if (used.count(slice)) { verdict = "slice-shared-with-other-entry"; break; }
                mine.insert(slice);
                const auto &s = map.readableSlice(fileno, slice);
                total += s.size;
                slice = s.next;
                if (++steps > sliceLimit) { verdict = "cycle"; break; }
            }
            const uint64_t want = anchor->basics.swap_file_sz;
            if (!strcmp(verdict, "ok") && total != want)
                verdict = "size-mismatch";
            used.insert(mine.begin(), mine.end());
            if (strcmp(verdict, "ok"))
                ++bad;
            vsim::hist("ROCKWALK\t%s\tentry\t%d\t%d\t%zu\t%llu\t%llu\t%s", label, (int)i, fileno, mine.size(), (unsigned long long)total, (unsigned long long)want, verdict);
            map.closeForReading(fileno);
        }
        vsim::hist("ROCKWALK\t%s\tdir\t%d\t%d\t%d\t%d", label, (int)i, limit, readable, bad);
    }
}

// ---- link-time observer on Ipc::StoreMap::closeForUpdating() (calls from other translation units only; squid's behaviour is unchanged)
namespace Ipc { class StoreMap; class StoreMapUpdate; }
namespace vsim { void (*closeForUpdatingHook)() = nullptr; }
extern "C" void __real__ZN3Ipc8StoreMap16closeForUpdatingERNS_14StoreMapUpdateE(Ipc::StoreMap *, Ipc::StoreMapUpdate &);
extern "C" void __wrap__ZN3Ipc8StoreMap16closeForUpdatingERNS_14StoreMapUpdateE(Ipc::StoreMap *self, Ipc::StoreMapUpdate &u)
{
    if (vsim::closeForUpdatingHook) vsim::closeForUpdatingHook();
    __real__ZN3Ipc8StoreMap16closeForUpdatingERNS_14StoreMapUpdateE(self, u);
}
