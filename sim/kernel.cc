// Simulation kernel: link-time wrappers (GNU ld --wrap) for everything squid asks of the outside world.
// DESIGN.md §3.1/§3.2. No Squid headers here.
#include "sim.h"
#include "net.h"

#include <arpa/inet.h>
#include <cerrno>
#include <chrono>
#include <csignal>
#include <cstdarg>
#include <cstdio>
#include <cstdlib>
#include <dirent.h>
#include <fcntl.h>
#include <netinet/in.h>
#include <netinet/tcp.h>
#include <sys/epoll.h>
#include <sys/personality.h>
#include <sys/socket.h>
#include <sys/stat.h>
#include <sys/resource.h>
#include <sys/time.h>
#include <sys/types.h>
#include <sys/un.h>
#include <unistd.h>
#include <sys/wait.h>
#include <algorithm>
#include <random>

extern "C" {
int __real_main(int, char **);
int __real_open(const char *, int, ...);
int __real_close(int);
ssize_t __real_read(int, void *, size_t);
ssize_t __real_write(int, const void *, size_t);
ssize_t __real_pread(int, void *, size_t, off_t);
ssize_t __real_pwrite(int, const void *, size_t, off_t);
off_t __real_lseek(int, off_t, int);
int __real_unlink(const char *);
int __real_rename(const char *, const char *);
int __real_ftruncate(int, off_t);
int __real_fsync(int);
int __real_socket(int, int, int);
int __real_socketpair(int, int, int, int[2]);
int __real_pipe(int[2]);
int __real_bind(int, const struct sockaddr *, socklen_t);
int __real_listen(int, int);
int __real_accept(int, struct sockaddr *, socklen_t *);
int __real_connect(int, const struct sockaddr *, socklen_t);
int __real_getsockname(int, struct sockaddr *, socklen_t *);
int __real_getsockopt(int, int, int, void *, socklen_t *);
int __real_setsockopt(int, int, int, const void *, socklen_t);
ssize_t __real_send(int, const void *, size_t, int);
ssize_t __real_sendto(int, const void *, size_t, int, const struct sockaddr *, socklen_t);
ssize_t __real_recvfrom(int, void *, size_t, int, struct sockaddr *, socklen_t *);
int __real_epoll_create(int);
int __real_epoll_ctl(int, int, int, struct epoll_event *);
int __real_epoll_wait(int, struct epoll_event *, int, int);
int __real_shm_open(const char *, int, mode_t);
int __real_getrusage(int, struct rusage *);
int __real_shm_unlink(const char *);
pid_t __real_fork(void);
int __real_kill(pid_t, int);
pid_t __real_waitpid(pid_t, int *, int);
void __real_abort(void) __attribute__((noreturn));
DIR *__real_opendir(const char *);
struct dirent *__real_readdir(DIR *);
int __real_closedir(DIR *);
}

namespace vsim {

Scenario g_scn;
bool g_active = false;
void (*g_yieldHook)(const void *addr, int kind) = nullptr;

// ------------------------------------------------------------------------------------------ clock
static bool g_readySeen = false; // probabilistic disk faults start once squid serves traffic: an I/O error while loading the index is a (legitimate) start-up FATAL, not a workload
static uint64_t g_now = 0;        // simulated microseconds since epoch
static int64_t g_wallOffset = 0;  // system_clock = g_now + offset (clock jumps touch only this)
static Rng g_tickRng, g_schedRng, g_ioRng;
static uint64_t g_tickLo = 1, g_tickHi = 20;
uint64_t nowUs() { return g_now; }
void advanceClock(uint64_t us) { g_now += us; }
static inline void tick() { g_now += g_tickRng.range(g_tickLo, g_tickHi); }
static uint64_t wallStartReal = 0;
static uint64_t realWallS() { struct timespec ts; clock_gettime(CLOCK_MONOTONIC, &ts); return (uint64_t)ts.tv_sec; }

// ------------------------------------------------------------------------------------------ history
static int g_histFd = -1, g_binFd = -1;
static std::string g_histBuf, g_binBuf;
static uint64_t g_binOff = 0, g_seq = 0;
static std::map<std::string, uint64_t> g_probes;

void histOpen(const std::string &path)
{
    g_histFd = __real_open(path.c_str(), O_WRONLY | O_CREAT | O_TRUNC, 0644);
    g_binFd = __real_open((path + ".bin").c_str(), O_WRONLY | O_CREAT | O_TRUNC, 0644);
}
static void wrAll(int fd, const std::string &b) { size_t o = 0; while (o < b.size()) { ssize_t n = __real_write(fd, b.data() + o, b.size() - o); if (n <= 0) break; o += n; } }
void histFlush()
{
    if (g_histFd < 0) return;
    if (!g_binBuf.empty()) { wrAll(g_binFd, g_binBuf); g_binBuf.clear(); }
    if (!g_histBuf.empty()) { wrAll(g_histFd, g_histBuf); g_histBuf.clear(); }
}
void hist(const char *fmt, ...)
{
    if (g_histFd < 0) return;
    char b[1024];
    int n = snprintf(b, sizeof(b), "%llu\t%llu\t", (unsigned long long)g_seq++, (unsigned long long)g_now);
    va_list ap; va_start(ap, fmt); int m = vsnprintf(b + n, sizeof(b) - n - 2, fmt, ap); va_end(ap);
    if (m < 0) m = 0; if (m > (int)sizeof(b) - n - 2) m = sizeof(b) - n - 2;
    b[n + m] = '\n';
    g_histBuf.append(b, n + m + 1);
    if (g_histBuf.size() > (1 << 20)) histFlush();
}
std::string histBlob(const void *p, size_t n)
{
    char b[64]; snprintf(b, sizeof(b), "%llu %zu", (unsigned long long)g_binOff, n);
    if (g_histFd >= 0) { g_binBuf.append((const char *)p, n); g_binOff += n; if (g_binBuf.size() > (4 << 20)) histFlush(); }
    return b;
}
void probe(const char *name, uint64_t add) { g_probes[name] += add; }

static std::vector<std::string> g_shmNames;
void fdSnapshot(const std::string &label)
{
    // simulated descriptors
    std::string simfds;
    for (auto &kv : g_net.socks) {
        SockEnt *s = kv.second;
        char b[160];
        const char *kind = s->kind == SockEnt::LISTEN ? "listen" : s->kind == SockEnt::UDP ? "udp" : s->kind == SockEnt::CONN ? "conn" : s->kind == SockEnt::PAIR_CHILD ? "pairchild" : "fresh";
        snprintf(b, sizeof(b), "%d:%s:%c:%s:%d ", s->fd, kind, s->conn ? s->conn->kind : '-', s->conn ? s->conn->peerName.c_str() : (s->kind == SockEnt::LISTEN || s->kind == SockEnt::UDP ? std::to_string(s->local.port).c_str() : "-"), s->conn ? s->conn->id : 0);
        simfds += b;
    }
    hist("FDSNAP\t%s\tsim\t%s", label.c_str(), simfds.substr(0, 900).c_str());
    // every descriptor of the process: placeholders of simulated descriptors must be exactly the table above
    std::string real; int nreal = 0, nplace = 0, orphans = 0;
    DIR *d = __real_opendir("/proc/self/fd");
    std::vector<int> fds;
    if (d) { while (struct dirent *e = __real_readdir(d)) { if (e->d_name[0] != '.') fds.push_back(atoi(e->d_name)); } int dfd = dirfd(d); fds.erase(std::remove(fds.begin(), fds.end(), dfd), fds.end()); __real_closedir(d); }
    std::sort(fds.begin(), fds.end());
    for (int fd : fds) {
        if (fd == g_histFd || fd == g_binFd) continue;
        char link[64], path[512]; snprintf(link, sizeof(link), "/proc/self/fd/%d", fd);
        ssize_t n = readlink(link, path, sizeof(path) - 1); if (n < 0) continue; path[n] = 0;
        std::string p = path;
        const bool isSim = g_net.sock(fd) || g_net.isEpoll(fd);
        if (p == "/dev/null" && isSim) { ++nplace; continue; }
        if (p == "/dev/null" && fd > 2) { ++orphans; real += std::to_string(fd) + "=orphan-placeholder "; continue; }
        if (p.compare(0, g_scn.rundir.size(), g_scn.rundir) == 0) p = p.substr(g_scn.rundir.size());
        { std::string tag = g_scn.rundir; for (auto &c : tag) if (c == '/') c = '_'; size_t i = p.find("-" + tag); if (i != std::string::npos) p.erase(i); }
        { std::string tag = g_scn.rundir; while (!tag.empty() && tag[0] == '/') tag.erase(0, 1); for (auto &c : tag) if (c == '/') c = '.';   // rock names its rebuild segment after the cache_dir path
          size_t i = p.find("-" + tag); if (i != std::string::npos) p.replace(i + 1, tag.size(), "@RUN@"); }
        ++nreal; real += std::to_string(fd) + "=" + p + " ";
    }
    hist("FDSNAP\t%s\treal\t%d\t%d\t%d\t%s", label.c_str(), nreal, nplace, orphans, real.substr(0, 900).c_str());
}
void endRun(const char *reason, int code)
{
    if (g_active && !g_scn.snaps.empty()) fdSnapshot("end");
    if (g_active && g_scn.knobU("rock.walk", 0, 0) && flagSet("ready") && !strcmp(reason, "done")) verif_rock_walk("end");
    for (auto &p : g_probes) hist("PROBE\t%s\t%llu", p.first.c_str(), (unsigned long long)p.second);
    hist("END\t%s", reason);
    histFlush();
    for (auto &n : g_shmNames) __real_shm_unlink(n.c_str());
    _exit(code);
}

// ------------------------------------------------------------------------------------------ flags
static std::set<std::string> g_flags;
bool flagSet(const std::string &f) { return g_flags.count(f) != 0; }
static std::map<std::string, std::string> g_vars;
void setVar(const std::string &k, const std::string &v) { g_vars[k] = v; hist("VAR\t%s\t%s", k.c_str(), v.c_str()); }
std::string getVar(const std::string &k) { auto i = g_vars.find(k); return i == g_vars.end() ? std::string() : i->second; }

// ------------------------------------------------------------------------------------------ harness registry
static std::map<std::string, HarnessFn> &harnesses() { static std::map<std::string, HarnessFn> m; return m; }
void registerHarness(const char *name, HarnessFn fn) { harnesses()[name] = fn; }
static std::map<std::string, IdleHookFn> &idleHooks() { static std::map<std::string, IdleHookFn> m; return m; }
void registerIdleHook(const char *name, IdleHookFn fn) { idleHooks()[name] = fn; }

} // namespace vsim

using namespace vsim;

// =========================================================================================== net.cc hooks
namespace vsim {
Net g_net;
}

// =========================================================================================== file layer
namespace vsim {
struct FileEnt { std::string path; bool tracked = false; };
static std::map<int, FileEnt> g_files;
static long g_fileOps = 0;
static std::string g_trackPrefix;
static Rng g_diskRng;
static std::map<std::string, long> g_opClassCount;

static bool isTracked(const char *path) { return g_active && !g_trackPrefix.empty() && path && strncmp(path, g_trackPrefix.c_str(), g_trackPrefix.size()) == 0; }
static std::string relPath(const std::string &p) { return p.compare(0, g_scn.rundir.size(), g_scn.rundir) == 0 ? p.substr(g_scn.rundir.size()) : p; }

// returns: 0 proceed; >0 = partial byte count then crash (for writes); -1 = fail with errno set
struct FaultDecision { int action = 0; long partial = -1; int err = 0; };
static FaultDecision fileOpFault(const char *opclass, const std::string &path, size_t len)
{
    FaultDecision d;
    long k = ++g_fileOps;
    long nthOfClass = ++g_opClassCount[opclass];
    for (auto &f : g_scn.diskFaults) {
        if (f.kind == "crash" && f.at == k) {
            if (f.partial >= 0 && len > 0 && (!strcmp(opclass, "write") || !strcmp(opclass, "pwrite"))) { d.action = 2; d.partial = std::min<long>(f.partial, (long)len); }
            else d.action = 1;
            return d;
        }
        if ((f.kind == "eio" || f.kind == "enospc" || f.kind == "short") && (f.opclass.empty() || f.opclass == opclass)) {
            bool fire = (f.nth >= 0 && f.nth == nthOfClass) || (f.nth < 0 && f.p > 0 && g_readySeen && g_diskRng.chance(f.p));
            if (!fire) continue;
            if (f.kind == "short") { if (len > 1) { d.action = 3; d.partial = (long)g_diskRng.range(1, len - 1); hist("FAULT\tshort\t%s\t%s\t%ld", opclass, relPath(path).c_str(), d.partial); probe("fault.disk.short"); return d; } continue; }
            d.action = -1; d.err = f.kind == "eio" ? EIO : ENOSPC;
            hist("FAULT\t%s\t%s\t%s", f.kind.c_str(), opclass, relPath(path).c_str()); probe(f.kind == "eio" ? "fault.disk.eio" : "fault.disk.enospc");
            return d;
        }
    }
    return d;
}
static void crashNow(const char *what) { hist("FAULT\tcrash\t%s\tfileop=%ld", what, g_fileOps); probe("fault.crash"); endRun("crash", 0); }
} // namespace vsim

extern "C" {

int __wrap_open(const char *path, int flags, ...)
{
    mode_t mode = 0;
    if (flags & O_CREAT) { va_list ap; va_start(ap, flags); mode = va_arg(ap, int); va_end(ap); }
    if (!isTracked(path)) return __real_open(path, flags, mode);
    tick();
    if (flags & (O_CREAT | O_TRUNC)) {
        FaultDecision d = fileOpFault("open", path, 0);
        if (d.action == 1 || d.action == 2) crashNow("open");
        if (d.action == -1) { hist("FILE\topen\t%s\t-\t-\t-%d", relPath(path).c_str(), d.err); errno = d.err; return -1; }
    }
    int fd = __real_open(path, flags, mode);
    int e = errno;
    if (fd >= 0) { FileEnt fe; fe.path = path; fe.tracked = true; g_files[fd] = fe; }
    if (flags & (O_CREAT | O_TRUNC)) hist("FILE\topen\t%s\t%d\t%ld\t%d", relPath(path).c_str(), flags, g_fileOps, fd);
    errno = e;
    return fd;
}

static ssize_t trackedWrite(int fd, const void *buf, size_t n, off_t off, bool positional)
{
    FileEnt &fe = g_files[fd];
    tick();
    FaultDecision d = fileOpFault(positional ? "pwrite" : "write", fe.path, n);
    if (d.action == 1) crashNow("before-write");
    if (d.action == 2) { if (positional) __real_pwrite(fd, buf, d.partial, off); else __real_write(fd, buf, d.partial); crashNow("partial-write"); }
    if (d.action == -1) { hist("FILE\twrite\t%s\t%lld\t%zu\t-%d", relPath(fe.path).c_str(), (long long)off, n, d.err); errno = d.err; return -1; }
    if (d.action == 3) n = d.partial;
    off_t at = positional ? off : __real_lseek(fd, 0, SEEK_CUR);
    ssize_t r = positional ? __real_pwrite(fd, buf, n, off) : __real_write(fd, buf, n);
    int e = errno;
    hist("FILE\twrite\t%s\t%lld\t%zu\t%zd\t%ld", relPath(fe.path).c_str(), (long long)at, n, r, g_fileOps);
    errno = e;
    return r;
}

ssize_t __wrap_pwrite(int fd, const void *buf, size_t n, off_t off)
{
    auto it = g_files.find(fd);
    if (!g_active || it == g_files.end()) return __real_pwrite(fd, buf, n, off);
    return trackedWrite(fd, buf, n, off, true);
}

ssize_t __wrap_pread(int fd, void *buf, size_t n, off_t off)
{
    auto it = g_files.find(fd);
    if (!g_active || it == g_files.end()) return __real_pread(fd, buf, n, off);
    tick();
    for (auto &f : g_scn.diskFaults) if (f.kind == "eio" && f.opclass == "read" && f.p > 0 && g_readySeen && g_diskRng.chance(f.p)) { hist("FAULT\teio\tread\t%s", relPath(it->second.path).c_str()); probe("fault.disk.eio_read"); errno = EIO; return -1; }
    return __real_pread(fd, buf, n, off);
}

off_t __wrap_lseek(int fd, off_t off, int whence) { return __real_lseek(fd, off, whence); }

int __wrap_unlink(const char *path)
{
    if (!isTracked(path)) return __real_unlink(path);
    tick();
    FaultDecision d = fileOpFault("unlink", path, 0);
    if (d.action == 1 || d.action == 2) crashNow("unlink");
    if (d.action == -1) { errno = d.err; return -1; }
    int r = __real_unlink(path); int e = errno;
    hist("FILE\tunlink\t%s\t-\t-\t%d\t%ld", relPath(path).c_str(), r, g_fileOps);
    errno = e; return r;
}

int __wrap_rename(const char *a, const char *b)
{
    if (!isTracked(a) && !isTracked(b)) return __real_rename(a, b);
    tick();
    FaultDecision d = fileOpFault("rename", a, 0);
    if (d.action == 1 || d.action == 2) crashNow("rename");
    if (d.action == -1) { errno = d.err; return -1; }
    int r = __real_rename(a, b); int e = errno;
    hist("FILE\trename\t%s\t%s\t-\t%d\t%ld", relPath(a).c_str(), relPath(b).c_str(), r, g_fileOps);
    errno = e; return r;
}

int __wrap_ftruncate(int fd, off_t len)
{
    auto it = g_files.find(fd);
    if (!g_active || it == g_files.end()) return __real_ftruncate(fd, len);
    tick();
    FaultDecision d = fileOpFault("ftruncate", it->second.path, 0);
    if (d.action == 1 || d.action == 2) crashNow("ftruncate");
    if (d.action == -1) { errno = d.err; return -1; }
    int r = __real_ftruncate(fd, len); int e = errno;
    hist("FILE\tftruncate\t%s\t%lld\t-\t%d\t%ld", relPath(it->second.path).c_str(), (long long)len, r, g_fileOps);
    errno = e; return r;
}

// sorted directory listing for tracked directories (readdir order is a nondeterminism source)
struct SimDir { std::vector<struct dirent> ents; size_t pos = 0; };
static std::map<DIR *, SimDir *> g_dirs;
DIR *__wrap_opendir(const char *path)
{
    DIR *d = __real_opendir(path);
    if (!d || !isTracked(path)) return d;
    SimDir *sd = new SimDir;
    while (struct dirent *e = __real_readdir(d)) sd->ents.push_back(*e);
    std::sort(sd->ents.begin(), sd->ents.end(), [](const dirent &a, const dirent &b) { return strcmp(a.d_name, b.d_name) < 0; });
    g_dirs[d] = sd;
    return d;
}
struct dirent *__wrap_readdir(DIR *d)
{
    auto it = g_dirs.find(d);
    if (it == g_dirs.end()) return __real_readdir(d);
    SimDir *sd = it->second;
    if (sd->pos >= sd->ents.size()) return nullptr;
    return &sd->ents[sd->pos++];
}
int __wrap_closedir(DIR *d)
{
    auto it = g_dirs.find(d);
    if (it != g_dirs.end()) { delete it->second; g_dirs.erase(it); }
    return __real_closedir(d);
}

// ------------------------------------------------------------------------------------------ clock & randomness & identity
// std::chrono::system_clock::now() / steady_clock::now(), wrapped by mangled name
long __wrap__ZNSt6chrono3_V212system_clock3nowEv()
{
    if (!g_active) { struct timespec ts; clock_gettime(CLOCK_REALTIME, &ts); return ts.tv_sec * 1000000000L + ts.tv_nsec; }
    tick();
    return (long)((int64_t)g_now + g_wallOffset) * 1000L;
}
long __wrap__ZNSt6chrono3_V212steady_clock3nowEv()
{
    if (!g_active) { struct timespec ts; clock_gettime(CLOCK_MONOTONIC, &ts); return ts.tv_sec * 1000000000L + ts.tv_nsec; }
    tick();
    return (long)g_now * 1000L;
}
time_t __wrap_time(time_t *t)
{
    time_t v = g_active ? (time_t)(((int64_t)g_now + g_wallOffset) / 1000000) : (time_t)(std::chrono::duration_cast<std::chrono::seconds>(std::chrono::nanoseconds(__wrap__ZNSt6chrono3_V212system_clock3nowEv())).count());
    if (t) *t = v;
    return v;
}
int __wrap_nanosleep(const struct timespec *req, struct timespec *)
{
    if (g_active && req) g_now += (uint64_t)req->tv_sec * 1000000ULL + req->tv_nsec / 1000;
    return 0;
}
unsigned __wrap_alarm(unsigned) { return 0; }

// std::random_device::_M_getval()
static Rng g_rdRng;
unsigned int __wrap__ZNSt13random_device9_M_getvalEv(void *) { return (unsigned)g_rdRng.next(); }
void __wrap_srand(unsigned) {}

uid_t __wrap_geteuid(void) { return 1000; }
uid_t __wrap_getuid(void) { return 1000; }
pid_t __wrap_getpid(void) { return 4242; }
int __wrap_gethostname(char *name, size_t len) { snprintf(name, len, "simhost"); return 0; }
int __wrap_sched_getaffinity(pid_t, size_t n, cpu_set_t *set) { if (set) { memset(set, 0, n); CPU_SET(0, set); } return 0; }
int __wrap_sched_setaffinity(pid_t, size_t, const cpu_set_t *) { return 0; }

void __wrap_abort(void)
{
    if (g_active) { hist("LIFE\tabort"); histFlush(); }
    __real_abort();
}

// ------------------------------------------------------------------------------------------ shared memory names
static std::string shmName(const char *name)
{
    std::string n = name;
    if (g_active) { if (n.size() > 1 && n[0] == '/') n = "/vsim-" + n.substr(1); /* not squid-*: other squids' cleanup scripts on this host must not hit our segments */ std::string tag = g_scn.rundir; for (auto &c : tag) if (c == '/') c = '_'; n += "-" + tag; if (n.size() > 240) n = n.substr(0, 1) + std::to_string(hashStr(7, n)); }
    return n;
}
// resource usage feeds cache manager reports (CPU time, page faults, maximum RSS): real values differ from run to run
int __wrap_getrusage(int who, struct rusage *r)
{
    if (!g_active) return __real_getrusage(who, r);
    memset(r, 0, sizeof(*r));
    r->ru_utime.tv_sec = (time_t)((g_now - g_scn.clockStartUs) / 1000000 / 10); // a tenth of the simulated uptime
    r->ru_maxrss = 65536;
    return 0;
}
int __wrap_shm_open(const char *name, int flags, mode_t mode)
{
    std::string n = shmName(name);
    int fd = __real_shm_open(n.c_str(), flags, mode);
    if (fd >= 0 && (flags & O_CREAT)) g_shmNames.push_back(n);
    return fd;
}
int __wrap_shm_unlink(const char *name) { return __real_shm_unlink(shmName(name).c_str()); }

// ------------------------------------------------------------------------------------------ processes
static std::string g_ipcName, g_ipcToken;
pid_t __wrap_fork(void)
{
    if (!g_active) return __real_fork();
    tick();
    int pid = g_net.attachHelper(g_ipcName, g_ipcToken);
    if (pid < 0) { hist("PROC\tfork-refused\t%s", g_ipcName.c_str()); errno = ENOSYS; return -1; }
    return pid;
}
int __wrap_kill(pid_t pid, int sig)
{
    if (g_active && pid >= 5000 && pid < 100000) { hist("PROC\tkill\t%d\t%d", (int)pid, sig); return 0; }
    if (g_active && pid == 4242) return 0;
    return __real_kill(pid, sig);
}
pid_t __wrap_waitpid(pid_t pid, int *st, int opt)
{
    if (g_active) { errno = ECHILD; return -1; }
    return __real_waitpid(pid, st, opt);
}
int __wrap_execvp(const char *, char *const[]) { errno = ENOSYS; return -1; }
pid_t __wrap_setsid(void) { return 4242; }

} // extern "C"

// ipcCreate(int, const char*, const char* const*, const char*, Ip::Address&, int*, int*, void**): record who is being spawned, run the real thing
namespace Ip { class Address; }
extern pid_t __real__Z9ipcCreateiPKcPKS0_S0_RN2Ip7AddressEPiS6_PPv(int, const char *, const char *const *, const char *, Ip::Address &, int *, int *, void **) asm("__real__Z9ipcCreateiPKcPKS0_S0_RN2Ip7AddressEPiS6_PPv");
extern "C" pid_t __wrap__Z9ipcCreateiPKcPKS0_S0_RN2Ip7AddressEPiS6_PPv(int type, const char *prog, const char *const *args, const char *name, Ip::Address &a, int *rfd, int *wfd, void **h)
{
    g_ipcName = name ? name : "?";
    g_ipcToken.clear();
    for (int i = 0; args && args[i]; ++i) if (!strncmp(args[i], "sim=", 4)) g_ipcToken = args[i] + 4;
    if (g_ipcToken.empty() && prog) { const char *b = strrchr(prog, '/'); g_ipcToken = b ? b + 1 : prog; }
    if (g_ipcName == "unlinkd") g_ipcToken = "unlinkd";
    g_net.inIpcCreate = true; g_net.ipcListenFd = -1;
    pid_t p = __real__Z9ipcCreateiPKcPKS0_S0_RN2Ip7AddressEPiS6_PPv(type, prog, args, name, a, rfd, wfd, h);
    g_net.inIpcCreate = false;
    hist("PROC\tipcCreate\t%s\t%s\t%d", g_ipcName.c_str(), g_ipcToken.c_str(), (int)p);
    g_ipcName.clear();
    return p;
}

// =========================================================================================== sockets / epoll
namespace vsim {

static void sockaddrFrom(const Addr &a, struct sockaddr *sa, socklen_t *len)
{
    if (!sa || !len) return;
    if (a.family == AF_INET6) {
        struct sockaddr_in6 s; memset(&s, 0, sizeof(s)); s.sin6_family = AF_INET6; s.sin6_port = htons(a.port); memcpy(&s.sin6_addr, a.ip, 16);
        memcpy(sa, &s, std::min<size_t>(*len, sizeof(s))); *len = sizeof(s);
    } else {
        struct sockaddr_in s; memset(&s, 0, sizeof(s)); s.sin_family = AF_INET; s.sin_port = htons(a.port); memcpy(&s.sin_addr, a.ip, 4);
        memcpy(sa, &s, std::min<size_t>(*len, sizeof(s))); *len = sizeof(s);
    }
}
static Addr addrFrom(const struct sockaddr *sa, socklen_t)
{
    Addr a;
    if (!sa) return a;
    if (sa->sa_family == AF_INET) { auto *s = (const struct sockaddr_in *)sa; a.family = AF_INET; a.port = ntohs(s->sin_port); memcpy(a.ip, &s->sin_addr, 4); }
    else if (sa->sa_family == AF_INET6) {
        auto *s = (const struct sockaddr_in6 *)sa; a.family = AF_INET6; a.port = ntohs(s->sin6_port); memcpy(a.ip, &s->sin6_addr, 16);
        static const uint8_t mapped[12] = {0, 0, 0, 0, 0, 0, 0, 0, 0, 0, 0xff, 0xff};
        if (!memcmp(a.ip, mapped, 12)) { uint8_t v4[4]; memcpy(v4, a.ip + 12, 4); memset(a.ip, 0, 16); memcpy(a.ip, v4, 4); a.family = AF_INET; }
    }
    return a;
}

static int placeholderFd()
{
    int fd = __real_open("/dev/null", O_RDWR);
    return fd;
}

} // namespace vsim

static int g_epollWaits = 0;
static bool g_firstIdleLogged = false;
static uint64_t g_events = 0;

extern "C" {

int __wrap_socket(int domain, int type, int proto)
{
    if (!g_active) return __real_socket(domain, type, proto);
    int base = type & ~(SOCK_NONBLOCK | SOCK_CLOEXEC);
    if (domain == AF_INET6 && g_scn.knobS("v6", "off") != "on") { errno = EAFNOSUPPORT; return -1; }
    if ((domain != AF_INET && domain != AF_INET6) || (base != SOCK_STREAM && base != SOCK_DGRAM)) return __real_socket(domain, type, proto);
    tick();
    if (g_net.faultChance("socket.emfile")) { hist("FAULT\tsocket-emfile"); errno = EMFILE; return -1; }
    int fd = placeholderFd();
    if (fd < 0) return fd;
    g_net.newSocket(fd, domain, base);
    return fd;
}

int __wrap_socketpair(int domain, int type, int proto, int sv[2])
{
    if (!g_active) return __real_socketpair(domain, type, proto, sv);
    tick();
    sv[0] = placeholderFd(); sv[1] = placeholderFd();
    g_net.newPair(sv[0], sv[1]);
    return 0;
}

int __wrap_pipe(int fds[2])
{
    if (!g_active) return __real_pipe(fds);
    tick();
    fds[0] = placeholderFd(); fds[1] = placeholderFd();
    g_net.newPipe(fds[0], fds[1]);
    return 0;
}

int __wrap_bind(int fd, const struct sockaddr *sa, socklen_t len)
{
    SockEnt *s = g_net.sock(fd);
    if (!s) return __real_bind(fd, sa, len);
    tick();
    return g_net.bind(s, addrFrom(sa, len));
}

int __wrap_listen(int fd, int backlog)
{
    SockEnt *s = g_net.sock(fd);
    if (!s) return __real_listen(fd, backlog);
    tick();
    return g_net.listen(s);
}

int __wrap_accept(int fd, struct sockaddr *sa, socklen_t *len)
{
    SockEnt *s = g_net.sock(fd);
    if (!s) return __real_accept(fd, sa, len);
    tick();
    g_net.pump();
    if (s->backlog.empty()) { errno = EAGAIN; return -1; }
    if (g_net.faultChance("accept.econnaborted")) { hist("FAULT\taccept-econnaborted"); errno = ECONNABORTED; return -1; }
    int nfd = placeholderFd();
    if (nfd < 0) return -1;
    Conn *c = s->backlog.front(); s->backlog.pop_front();
    g_net.adoptAccepted(nfd, c, s);
    sockaddrFrom(c->peerAddr, sa, len);
    return nfd;
}

int __wrap_connect(int fd, const struct sockaddr *sa, socklen_t len)
{
    SockEnt *s = g_net.sock(fd);
    if (!s) return __real_connect(fd, sa, len);
    tick();
    g_net.pump();
    return g_net.connect(s, addrFrom(sa, len));
}

int __wrap_getsockname(int fd, struct sockaddr *sa, socklen_t *len)
{
    SockEnt *s = g_net.sock(fd);
    if (!s) return __real_getsockname(fd, sa, len);
    Addr a = s->local;
    if (a.family == 0) { a.family = s->domain; }
    sockaddrFrom(a, sa, len);
    return 0;
}

int __wrap_getsockopt(int fd, int level, int name, void *val, socklen_t *len)
{
    SockEnt *s = g_net.sock(fd);
    if (!s) return __real_getsockopt(fd, level, name, val, len);
    if (level == SOL_SOCKET && name == SO_ERROR) {
        int e = 0;
        if (s->conn && s->conn->state == Conn::FAILED) e = s->conn->connErr;
        if (val && len && *len >= sizeof(int)) { *(int *)val = e; *len = sizeof(int); }
        return 0;
    }
    if (level == SOL_SOCKET && (name == SO_RCVBUF || name == SO_SNDBUF)) { if (val && len && *len >= sizeof(int)) { *(int *)val = 65536; *len = sizeof(int); } return 0; }
    if (val && len && *len >= sizeof(int)) { memset(val, 0, *len); }
    if (level == IPPROTO_IP || level == IPPROTO_IPV6) { errno = ENOPROTOOPT; return -1; }
    return 0;
}

int __wrap_setsockopt(int fd, int level, int name, const void *val, socklen_t len)
{
    SockEnt *s = g_net.sock(fd);
    if (!s) return __real_setsockopt(fd, level, name, val, len);
    if (level == SOL_SOCKET && name == SO_LINGER && val && len >= sizeof(struct linger)) {
        const struct linger *l = (const struct linger *)val;
        s->lingerReset = l->l_onoff && l->l_linger == 0;
    }
    return 0;
}

ssize_t __wrap_read(int fd, void *buf, size_t n)
{
    if (!g_active) return __real_read(fd, buf, n);
    SockEnt *s = g_net.sock(fd);
    if (s) { tick(); g_net.pump(); return g_net.sqRead(s, buf, n); }
    auto it = g_files.find(fd);
    if (it != g_files.end()) {
        tick();
        for (auto &f : g_scn.diskFaults) if (f.kind == "eio" && f.opclass == "read" && f.p > 0 && g_readySeen && g_diskRng.chance(f.p)) { hist("FAULT\teio\tread\t%s", relPath(it->second.path).c_str()); probe("fault.disk.eio_read"); errno = EIO; return -1; }
    }
    return __real_read(fd, buf, n);
}

ssize_t __wrap_write(int fd, const void *buf, size_t n)
{
    if (!g_active) return __real_write(fd, buf, n);
    SockEnt *s = g_net.sock(fd);
    if (s) { tick(); g_net.pump(); return g_net.sqWrite(s, buf, n); }
    auto it = g_files.find(fd);
    if (it != g_files.end()) return trackedWrite(fd, buf, n, 0, false);
    return __real_write(fd, buf, n);
}

ssize_t __wrap_send(int fd, const void *buf, size_t n, int flags)
{
    SockEnt *s = g_active ? g_net.sock(fd) : nullptr;
    if (!s) return __real_send(fd, buf, n, flags);
    tick(); g_net.pump();
    if (s->type == SOCK_DGRAM) return g_net.udpSend(s, buf, n, s->remote);
    return g_net.sqWrite(s, buf, n);
}

ssize_t __wrap_sendto(int fd, const void *buf, size_t n, int flags, const struct sockaddr *sa, socklen_t len)
{
    SockEnt *s = g_active ? g_net.sock(fd) : nullptr;
    if (!s) return __real_sendto(fd, buf, n, flags, sa, len);
    tick(); g_net.pump();
    if (s->type == SOCK_DGRAM) return g_net.udpSend(s, buf, n, sa ? addrFrom(sa, len) : s->remote);
    return g_net.sqWrite(s, buf, n);
}

ssize_t __wrap_recvfrom(int fd, void *buf, size_t n, int flags, struct sockaddr *sa, socklen_t *len)
{
    SockEnt *s = g_active ? g_net.sock(fd) : nullptr;
    if (!s) return __real_recvfrom(fd, buf, n, flags, sa, len);
    tick(); g_net.pump();
    if (s->type == SOCK_DGRAM) {
        if (s->dgrams.empty()) { errno = EAGAIN; return -1; }
        Dgram d = s->dgrams.front(); s->dgrams.pop_front();
        size_t k = std::min(n, d.data.size());
        memcpy(buf, d.data.data(), k);
        sockaddrFrom(d.from, sa, len);
        hist("UDPR\t%d\t%s\t%zu", fd, d.from.str().c_str(), k);
        return (ssize_t)k;
    }
    if (flags & MSG_PEEK) return g_net.sqPeek(s, buf, n);
    return g_net.sqRead(s, buf, n);
}

int __wrap_close(int fd)
{
    if (!g_active) return __real_close(fd);
    SockEnt *s = g_net.sock(fd);
    if (s) { tick(); g_net.sqClose(s); return __real_close(fd); }
    auto it = g_files.find(fd);
    if (it != g_files.end()) g_files.erase(it);
    g_net.epollForget(fd);
    return __real_close(fd);
}

int __wrap_epoll_create(int n)
{
    if (!g_active) return __real_epoll_create(n);
    int fd = placeholderFd();
    g_net.newEpoll(fd);
    return fd;
}

int __wrap_epoll_ctl(int epfd, int op, int fd, struct epoll_event *ev)
{
    if (!g_active || !g_net.isEpoll(epfd)) return __real_epoll_ctl(epfd, op, fd, ev);
    if (!g_net.sock(fd)) { errno = EPERM; return -1; } // regular files and /dev/null cannot be polled
    return g_net.epollCtl(epfd, op, fd, ev ? ev->events : 0, ev ? ev->data.u64 : 0);
}

static void checkLimits()
{
    if (g_now - g_scn.clockStartUs > g_scn.limitSimUs) endRun("limit-simtime", 0);
    if (g_events > g_scn.limitEvents) endRun("limit-events", 0);
    if ((g_events & 1023) == 0 && realWallS() - wallStartReal > g_scn.limitWallS) endRun("limit-wall", 0);
}

int __wrap_epoll_wait(int epfd, struct epoll_event *evs, int maxev, int timeoutMs)
{
    if (!g_active || !g_net.isEpoll(epfd)) return __real_epoll_wait(epfd, evs, maxev, timeoutMs);
    ++g_epollWaits; ++g_events;
    tick();
    if ((g_epollWaits & 63) == 0) histFlush();
    if (!g_firstIdleLogged) {
        g_firstIdleLogged = true;
        hist("LIFE\tfirst_idle");
        if (g_scn.mode != "P" && !idleHooks().count(g_scn.mode)) {
            auto it = harnesses().find(g_scn.mode);
            if (it == harnesses().end()) { hist("ERROR\tno harness %s", g_scn.mode.c_str()); endRun("no-harness", 3); }
            int rc = it->second(g_scn.modeArgs);
            endRun("harness-done", rc);
        }
    }
    if (!flagSet("ready") && verif_store_rebuilding() == 0) {
        hist("LIFE\tready"); setFlag("ready"); g_readySeen = true;
        if (g_scn.knobU("rock.walk", 0, 0)) verif_rock_walk("ready");
    }
    if (g_scn.mode != "P") {
        auto ih = idleHooks().find(g_scn.mode);
        if (ih != idleHooks().end()) {
            checkLimits();
            uint64_t adv = 0;
            int rc = ih->second(g_scn.modeArgs, &adv);
            if (rc >= 0) endRun("harness-done", rc);
            g_now += adv;
            return 0;
        }
    }
    const uint64_t deadline = timeoutMs < 0 ? UINT64_MAX : g_now + (uint64_t)timeoutMs * 1000ULL;
    for (;;) {
        checkLimits();
        g_net.pump();
        if (g_net.finished()) endRun("done", 0);
        int n = g_net.collectReady(epfd, evs, maxev, g_schedRng);
        if (n > 0) {
            if (g_net.faultChance("epoll.eintr")) { probe("fault.epoll.eintr"); errno = EINTR; return -1; }
            return n;
        }
        if (g_now >= deadline) return 0;
        uint64_t next = g_net.nextEventTime();
        uint64_t target = std::min(deadline, next);
        if (target == UINT64_MAX) endRun("deadlock", 0);
        if (target > g_now) g_now = target;
        ++g_events;
    }
}

static int runScenario(const char *self, const char *scnPath, const char *rundir, const char *histPath)
{
    std::string err;
    if (!parseScenario(scnPath, g_scn, err)) { fprintf(stderr, "SIM: %s\n", err.c_str()); return 3; }
    g_scn.rundir = rundir;
    wallStartReal = realWallS();
    g_now = g_scn.clockStartUs;
    g_tickRng.seed(hashStr(g_scn.seed, "tick")); g_schedRng.seed(hashStr(g_scn.seed, "sched")); g_ioRng.seed(hashStr(g_scn.seed, "io"));
    g_rdRng.seed(hashStr(g_scn.seed, "random_device")); g_diskRng.seed(hashStr(g_scn.seed, "disk"));
    g_tickLo = g_scn.knobU("clock.tick_us", 0, 1); g_tickHi = g_scn.knobU("clock.tick_us", 1, 20);
    g_trackPrefix = g_scn.rundir + "/cache";
    for (auto &f : g_scn.files) {
        std::string p = g_scn.rundir + "/" + f.first, body = f.second;
        for (size_t i; (i = body.find("@RUN@")) != std::string::npos;) body.replace(i, 5, g_scn.rundir);
        int fd = __real_open(p.c_str(), O_WRONLY | O_CREAT | O_TRUNC, 0644);
        if (fd < 0) { fprintf(stderr, "SIM: cannot write %s\n", p.c_str()); return 3; }
        wrAll(fd, body); __real_close(fd);
    }
    histOpen(histPath ? histPath : (g_scn.rundir + "/run.hist").c_str());
    std::vector<std::string> av; av.push_back(self);
    for (auto a : g_scn.argv) { for (size_t i; (i = a.find("@RUN@")) != std::string::npos;) a.replace(i, 5, g_scn.rundir); av.push_back(a); }
    static std::vector<char *> cav; for (auto &a : av) cav.push_back(strdup(a.c_str())); cav.push_back(nullptr);
    g_active = true;
    hist("SEED\t%llu", (unsigned long long)g_scn.seed);
    hist("LIFE\tstart");
    g_net.init();
    atexit([] { hist("LIFE\texit"); for (auto &p : g_probes) hist("PROBE\t%s\t%llu", p.first.c_str(), (unsigned long long)p.second); hist("END\texit"); histFlush(); for (auto &n : g_shmNames) __real_shm_unlink(n.c_str()); });
    return __real_main((int)av.size() - 0, cav.data());
}

int __wrap_main(int argc, char **argv)
{
    // usage: simsquid <scenario.scn> <rundir> [hist]  |  simsquid --server   (anything else: behave like squid)
    const bool server = argc >= 2 && !strcmp(argv[1], "--server");
    if (!server && (argc < 3 || strstr(argv[1], ".scn") == nullptr)) return __real_main(argc, argv);
    if (!getenv("VERIF_NO_ASLR_REEXEC")) {
        int pers = personality(0xffffffff);
        if (pers != -1 && !(pers & ADDR_NO_RANDOMIZE)) {
            personality(pers | ADDR_NO_RANDOMIZE);
            setenv("VERIF_NO_ASLR_REEXEC", "1", 1);
            setenv("TZ", "UTC", 1); setenv("LC_ALL", "C", 1);
            execv("/proc/self/exe", argv);
        }
    }
    if (!server) return runScenario(argv[0], argv[1], argv[2], argc > 3 ? argv[3] : nullptr);
    // fork server: one job per line "scn rundir hist"; process creation by exec is pathologically slow under load in this sandbox
    char line[4096];
    while (fgets(line, sizeof(line), stdin)) {
        char a[1400], b[1400], c[1400];
        if (sscanf(line, "%1399s %1399s %1399s", a, b, c) != 3) continue;
        fflush(stdout);
        pid_t pid = __real_fork();
        if (pid == 0) {
            std::string logp = std::string(b) + "/stdio.log";
            int lf = __real_open(logp.c_str(), O_WRONLY | O_CREAT | O_APPEND, 0644);
            if (lf >= 0) { dup2(lf, 1); dup2(lf, 2); __real_close(lf); }
            int dn = __real_open("/dev/null", O_RDONLY); if (dn >= 0) { dup2(dn, 0); __real_close(dn); }
            if (chdir(b) != 0) _exit(3);
            exit(runScenario(argv[0], a, b, c));
        }
        int st = 0;
        if (pid < 0 || __real_waitpid(pid, &st, 0) < 0) { printf("rc 998\n"); fflush(stdout); continue; }
        int rc = WIFEXITED(st) ? WEXITSTATUS(st) : 128 + WTERMSIG(st);
        printf("rc %d\n", rc); fflush(stdout);
    }
    return 0;
}

} // extern "C"

namespace vsim {
void setFlag(const std::string &f)
{
    if (g_flags.insert(f).second) { hist("FLAG\t%s", f.c_str()); g_net.flagChanged(); }
}
uint64_t ioRand(uint64_t lo, uint64_t hi) { return g_ioRng.range(lo, hi); }
bool ioChance(double p) { return g_ioRng.chance(p); }
void applyClockJump(int64_t by) { g_wallOffset += by; hist("CLK\tjump\t%lld", (long long)by); probe("fault.clock.jump"); }
void countEvent() { ++g_events; }
uint64_t wallUs() { return (uint64_t)((int64_t)g_now + g_wallOffset); }
}

// sanitizer deaths must not lose the history
extern "C" void __asan_on_error() { if (g_active) { hist("LIFE\tasan_error"); histFlush(); } }
extern "C" __attribute__((used)) const char *__asan_default_options() { return "exitcode=77:detect_leaks=0:abort_on_error=0:detect_stack_use_after_return=0:allocator_may_return_null=1"; }
