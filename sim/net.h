// Simulated TCP/UDP/stream-pair network, epoll readiness and scripted peers.
#pragma once
#include "sim.h"
struct epoll_event;

namespace vsim {

struct Proc;
struct SockEnt;

struct Seg { uint64_t at; Bytes data; bool fin = false, rst = false; };
struct Dgram { Addr from; Bytes data; };

struct Conn {
    enum State { CONNECTING, ESTABLISHED, FAILED };
    int id = 0; char kind = 'c'; // 'c' client->squid, 's' squid->server, 'h' helper stream pair
    std::string label, peerName;
    Rng rng;
    SockEnt *sq = nullptr;   // squid-side socket (null before accept / after close)
    bool sqClosed = false;
    Addr sqAddr, peerAddr;
    uint64_t latLo = 50, latHi = 500, window = 65536;
    State state = ESTABLISHED; int connErr = 0;
    // squid -> peer
    std::deque<Seg> s2p; uint64_t s2pBytes = 0, s2pLastAt = 0;
    Bytes pbacklog;              // arrived at the peer host, not yet read by the peer (read pacing)
    bool pbacklogFin = false, pbacklogRst = false;
    Bytes prx; size_t prxOff = 0; // read by the peer; framer consumes from prxOff
    bool peerEof = false, peerRst = false;
    uint64_t readChunk = 0, readPaceUs = 0; bool readStopped = false; bool readTimerArmed = false;
    uint64_t totS2P = 0, totP2S = 0;
    // peer -> squid
    Bytes pout; size_t poutOff = 0; SegMode seg = SEG_RAND; uint64_t segMax = 0; std::vector<uint64_t> segAt; uint64_t segBase = 0; uint64_t nextSeg = 0; uint64_t paceLo = 0, paceHi = 0;
    std::deque<Seg> p2s; uint64_t p2sBytes = 0, p2sLastAt = 0;
    Bytes srx; size_t srxOff = 0;
    bool sqEof = false, sqRst = false;
    bool peerShutWr = false, peerClosed = false;
    Proc *proc = nullptr;
    size_t srxAvail() const { return srx.size() - srxOff; }
};

struct SockEnt {
    int fd = -1; int domain = 0, type = 0;
    enum Kind { FRESH, LISTEN, CONN, UDP, PAIR_CHILD } kind = FRESH;
    Addr local, remote;
    Conn *conn = nullptr;
    std::deque<Conn *> backlog;
    std::deque<Dgram> dgrams;
    bool lingerReset = false;
    int pairOther = -1;
    bool canRead = true, canWrite = true; // pipe ends are one-way
};

struct Proc {
    int id = 0; std::string name;
    Conn *conn = nullptr;
    ClientSpec *client = nullptr; ServerSpec *server = nullptr; HelperSpec *helper = nullptr;
    const Steps *steps = nullptr; size_t pc = 0;
    enum Phase { CLIENT, ONACCEPT, WAITREQ, INRULE, HELPER, DONE, PARKED } phase = CLIENT;
    Rule *rule = nullptr;
    Bytes lastHead;
    // blocking state
    bool sendPending = false;     // a send step put bytes in pout; completes when drained
    uint64_t blockDeadline = 0;   // simulated time at which the current blocking step times out (0 = none)
    bool timerArmed = false; uint64_t waitUntil = 0;
    // expect sub-state
    int exStage = 0; size_t exScan = 0; uint64_t exNeed = 0; bool exChunked = false, exUntilEof = false; int exStatus = 0;
    bool started = false;
    int requestsSeen = 0;
    // helper
    Bytes hbuf; int helperPid = 0;
};

struct EpollReg { uint32_t events; uint64_t data; };

struct Net {
    std::map<int, SockEnt *> socks;
    std::map<int, std::map<int, EpollReg>> epolls;
    std::vector<Conn *> conns; std::vector<Proc *> procs;
    std::multimap<std::pair<uint64_t, uint64_t>, std::function<void()>> events; uint64_t evSeq = 0;
    int pendingPair[2] = {-1, -1};
    std::vector<std::pair<int, int>> pendingPipes;
    bool inIpcCreate = false; int ipcListenFd = -1; // IPC_TCP_SOCKET helpers (external_acl_type)
    struct TcpHelper { std::string name, token; int pid = 0; int port = 0; bool armed = false; } tcpHelper;
    Proc *makeHelperProc(Conn *c, const std::string &name, const std::string &token, int pid);
    int nextEphemeral = 40000; int nextPid = 5000;
    uint64_t clientsDoneAt = 0; bool clientsDone = false;
    Addr squidIp;
    std::map<std::string, int> labelCount;

    void init();
    SockEnt *sock(int fd) { auto i = socks.find(fd); return i == socks.end() ? nullptr : i->second; }
    void newSocket(int fd, int domain, int type);
    void newPair(int a, int b);
    void newPipe(int r, int w);
    void newEpoll(int fd) { epolls[fd]; }
    bool isEpoll(int fd) const { return epolls.count(fd) != 0; }
    int bind(SockEnt *s, const Addr &a);
    int listen(SockEnt *s);
    int connect(SockEnt *s, const Addr &a);
    void adoptAccepted(int nfd, Conn *c, SockEnt *listener);
    ssize_t sqRead(SockEnt *s, void *buf, size_t n);
    ssize_t sqPeek(SockEnt *s, void *buf, size_t n);
    ssize_t sqWrite(SockEnt *s, const void *buf, size_t n);
    ssize_t udpSend(SockEnt *s, const void *buf, size_t n, const Addr &to);
    void sqClose(SockEnt *s);
    int epollCtl(int epfd, int op, int fd, uint32_t events, uint64_t data);
    void epollForget(int fd);
    int collectReady(int epfd, struct epoll_event *evs, int maxev, Rng &rng);
    void pump();                     // run all simulator events that are due
    uint64_t nextEventTime() const { return events.empty() ? UINT64_MAX : events.begin()->first.first; }
    bool finished();
    void at(uint64_t t, std::function<void()> f) { events.emplace(std::make_pair(t, evSeq++), std::move(f)); }
    bool faultChance(const char *knob);
    int attachHelper(const std::string &name, const std::string &token);
    void flagChanged();

    // peers
    Conn *newConn(char kind, const std::string &labelBase, const std::string &peerName);
    void startClient(ClientSpec &c);
    void runProc(Proc *p);
    void peerSend(Conn *c, const Step &st);
    void pumpPeerSend(Conn *c);
    void peerFin(Conn *c, bool full);
    void peerRst(Conn *c);
    void deliverToPeer(Conn *c);
    void pumpPeerRead(Conn *c);
    void dnsQuery(SockEnt *s, const Bytes &q, const Addr &to, DnsSpec &d);
    void helperInput(Proc *p);
    void procDone(Proc *p, const char *why);
    bool stepExpect(Proc *p, const Step &st, bool &failed);
    void checkClientsDone();
};

extern Net g_net;
uint64_t ioRand(uint64_t lo, uint64_t hi);
bool ioChance(double p);
void applyClockJump(int64_t by);
void countEvent();
uint64_t wallUs(); // simulated wall clock (includes clock jumps)

} // namespace vsim
