// Engine H harness actors that never need squid's event loop again (DESIGN.md §3.4, docs/HARNESS_GUIDE.md):
//   h:c21  Http::One::RequestParser   one-shot vs seeded delivery schedules (driven like Http::One::Server)
//   h:c23  Http::One::ResponseParser  one-shot vs seeded delivery schedules (driven like HttpStateData::processReplyHeader)
//   h:c24  Http::One::TeChunkedParser one-shot/unbounded output vs seeded input segmentation x seeded MemBuf capacities
//   h:c51  ClpMap<SBuf, ...>          operation sequences with simulated clock advances; every result is logged for the Python model
// Cases come from <rundir>/cases.txt, one per line (formats below). Results: RES / VIOL history records.
#include "squid.h"
#include "anyp/ProtocolType.h"
#include "base/ClpMap.h"
#include "base/TextException.h"
#include "http/one/RequestParser.h"
#include "http/one/ResponseParser.h"
#include "http/one/TeChunkedParser.h"
#include "MemBuf.h"
#include "sbuf/Algorithms.h"
#include "sbuf/SBuf.h"
#include "SquidConfig.h"
#include "time/gadgets.h"

#include "h_common.h"

#include <algorithm>
#include <cinttypes>

namespace {

using hx::fieldOf;
using hx::fmt;

enum Kind { kMore = 0, kOk = 1, kErr = 2, kExc = 3 };
const char *kindStr(int k) { static const char *n[] = {"more", "ok", "err", "exc"}; return n[k & 3]; }

std::string verStr(const AnyP::ProtocolVersion &v)
{
    return fmt("%s/%u.%u", AnyP::ProtocolType_str[v.protocol], v.major, v.minor);
}

std::vector<std::pair<size_t, size_t>> segmentsOf(size_t n, const hx::Cuts &c)
{
    std::vector<std::pair<size_t, size_t>> segs;
    size_t a = 0;
    for (const auto p : c.at) { segs.emplace_back(a, p - a); a = p; }
    segs.emplace_back(a, n - a);
    return segs;
}

struct Params { size_t kRandom = 4, twoSplitMax = 64, byteMax = 300; };
Params paramsFrom(const std::vector<std::string> &args)
{
    Params p;
    if (args.size() > 0) p.kRandom = strtoul(args[0].c_str(), nullptr, 10);
    if (args.size() > 1) p.twoSplitMax = strtoul(args[1].c_str(), nullptr, 10);
    if (args.size() > 2) p.byteMax = strtoul(args[2].c_str(), nullptr, 10);
    return p;
}

void viol(const std::string &id, const std::string &cls, const std::string &detail)
{
    vsim::hist("VIOL\t%s\t%s\t%s", id.c_str(), cls.substr(0, 80).c_str(), detail.substr(0, 820).c_str());
    vsim::probe("h.violations");
}

/* =============================================================================================== C21 */

struct ReqOutcome {
    int kind = kMore;
    int status = 0;
    std::string method, uri, ver, mime, exc;
    size_t used = 0;
    bool parsedKnown = false, parsedMatches = true;
    std::string str() const
    {
        return fmt("%s\t%d\t%s\t%s\t%s\t%s\t%zu", kindStr(kind), status, fieldOf(method.data(), method.size(), 40).c_str(),
                   fieldOf(uri.data(), uri.size(), 64).c_str(), ver.c_str(), fieldOf(mime.data(), mime.size(), 32).c_str(), used);
    }
};

// Mirrors ConnStateData::parseRequests() -> Http::One::Server::parseOneRequest() -> ConnStateData::parseHttpRequest():
// one parser object per request, inBuf grows by what a read() delivered, parse(inBuf) after every delivery, inBuf = remaining().
ReqOutcome driveRequest(const std::string &in, const hx::Cuts &cuts, const bool preserve)
{
    ReqOutcome o;
    Http1::RequestParserPointer parser_;
    SBuf inBuf;
    size_t delivered = 0;
    bool decisive = false, parsedOk = false;
    try {
        for (const auto &seg : segmentsOf(in.size(), cuts)) {
            inBuf.append(in.data() + seg.first, seg.second);
            delivered += seg.second;
            if (inBuf.isEmpty())
                continue; // parseRequests(): while (!inBuf.isEmpty() ...)
            if (!parser_ || !parser_->needsMoreData())
                parser_ = new Http1::RequestParser(preserve);
            parsedOk = parser_->parse(inBuf);
            inBuf = parser_->remaining(); // sync the buffers after parsing
            if (parser_->needsMoreData())
                continue; // "Incomplete request, waiting for end of request line"
            decisive = true;
            break;
        }
    } catch (const std::exception &e) {
        o.kind = kExc;
        o.exc = e.what();
        return o;
    }
    o.used = delivered - inBuf.length();
    if (!parser_)
        return o; // nothing was delivered
    o.kind = !decisive ? kMore : (parsedOk ? kOk : kErr);
    o.status = parser_->parseStatusCode;
    const auto &m = parser_->method().image();
    o.method.assign(m.rawContent(), m.length());
    o.uri.assign(parser_->requestUri().rawContent(), parser_->requestUri().length());
    o.ver = verStr(parser_->messageProtocol());
    const auto mime = parser_->mimeHeader();
    o.mime.assign(mime.rawContent(), mime.length());
    if (preserve) {
        const auto &p = parser_->parsed();
        o.parsedKnown = true;
        o.parsedMatches = p.length() == o.used && memcmp(p.rawContent(), in.data(), o.used) == 0;
    }
    return o;
}

/// empty string when the incremental outcome equals the one-shot outcome as far as C21 compares them
std::string diffRequest(const ReqOutcome &one, const ReqOutcome &inc)
{
    if (one.kind != inc.kind) return fmt("kind:%s-vs-%s", kindStr(one.kind), kindStr(inc.kind));
    if (one.kind == kErr && one.status != inc.status) return fmt("status:%d-vs-%d", one.status, inc.status);
    if (one.kind == kOk) {
        if (one.status != inc.status) return fmt("status:%d-vs-%d", one.status, inc.status);
        if (one.method != inc.method) return "method";
        if (one.uri != inc.uri) return "uri";
        if (one.ver != inc.ver) return "version";
        if (one.mime != inc.mime) return "mime-block";
        if (one.used != inc.used) return "consumed";
    }
    return "";
}

/// the schedule without the cuts that fall between the CR and the LF of a leading empty line ((LF | CRLF)* prefix of the input)
hx::Cuts withoutLeadingCrLfSplits(const std::string &in, const hx::Cuts &cuts)
{
    std::vector<size_t> triggers;
    size_t p = 0;
    while (p < in.size()) {
        if (in[p] == '\n') { ++p; continue; }
        if (in[p] == '\r' && p + 1 < in.size() && in[p + 1] == '\n') { triggers.push_back(p + 1); p += 2; continue; }
        break;
    }
    hx::Cuts out;
    for (const auto c : cuts.at)
        if (std::find(triggers.begin(), triggers.end(), c) == triggers.end()) out.at.push_back(c);
    return out;
}

// case line: <id> <flags> <segseed> <hex input>      flags bit0: RequestParser(preserveParsed=true)
int runC21(const std::vector<std::string> &args)
{
    const Params prm = paramsFrom(args);
    vsim::hist("META\tc21\trelaxed=%d\tmaxRequestHeaderSize=%zu", Config.onoff.relaxed_header_parser, (size_t)Config.maxRequestHeaderSize);
    uint64_t nCases = 0, nRuns = 0;
    for (const auto &line : hx::readCases()) {
        const auto f = hx::split(line, ' ');
        std::string in;
        if (f.size() < 4 || !hx::unhex(f[3], in)) { vsim::hist("ERROR\tbad case line %s", line.substr(0, 60).c_str()); continue; }
        const std::string &id = f[0];
        const bool preserve = strtoul(f[1].c_str(), nullptr, 10) & 1;
        const uint64_t seed = strtoull(f[2].c_str(), nullptr, 10);
        const ReqOutcome one = driveRequest(in, hx::Cuts(), preserve);
        ++nCases;
        size_t bad = 0, badKnown = 0;
        const size_t nSched = hx::scheduleCount(in.size(), prm.kRandom, prm.twoSplitMax);
        for (size_t r = 0; r < nSched; ++r) {
            auto cuts = hx::schedule(seed, in.size(), r, prm.twoSplitMax, prm.byteMax);
            if (cuts.at.empty())
                continue;
            ReqOutcome inc = driveRequest(in, cuts, preserve);
            ++nRuns;
            std::string d = diffRequest(one, inc);
            if (d.empty() && inc.kind == kOk && inc.parsedKnown && !inc.parsedMatches)
                d = "parsed-bytes";
            if (d.empty())
                continue;
            // Observed on the unchanged tree (known_findings.json): a delivery that ends between the CR and the LF of a leading empty
            // line. Re-run the same schedule without exactly those cuts: only if the difference disappears is it that finding.
            const hx::Cuts avoid = withoutLeadingCrLfSplits(in, cuts);
            if (avoid.at.size() != cuts.at.size()) {
                const ReqOutcome inc2 = driveRequest(in, avoid, preserve);
                ++nRuns;
                const std::string d2 = diffRequest(one, inc2);
                if (d2.empty()) {
                    if (!badKnown++)
                        viol(id, "seg-dependent:lone-CR-of-leading-CRLF-then-LF", fmt("cuts=%s\tone=%s\tinc=%s", cuts.describe().c_str(), one.str().c_str(), inc.str().c_str()));
                    continue;
                }
                cuts = avoid;
                inc = inc2;
                d = d2;
            }
            if (!bad++)
                viol(id, "seg-dependent:" + d, fmt("cuts=%s\tone=%s\tinc=%s", cuts.describe().c_str(), one.str().c_str(), inc.str().c_str()));
        }
        if (one.kind == kExc)
            viol(id, "exception", one.exc);
        if (one.kind == kOk && one.parsedKnown && !one.parsedMatches)
            viol(id, "parsed-bytes-oneshot", one.str());
        vsim::hist("RES\t%s\t%s\t%zu\t%zu", id.c_str(), one.str().c_str(), nSched, bad + badKnown);
    }
    vsim::probe("h.cases", nCases);
    vsim::probe("h.schedules", nRuns);
    return 0;
}

/* =============================================================================================== C23 */

struct RespOutcome {
    int kind = kMore;
    int parseStatus = 0, status = 0;
    std::string ver, reason, mime, exc;
    size_t used = 0;
    std::string str() const
    {
        return fmt("%s\t%d\t%d\t%s\t%s\t%s\t%zu", kindStr(kind), parseStatus, status, ver.c_str(), fieldOf(reason.data(), reason.size(), 200).c_str(),
                   fieldOf(mime.data(), mime.size(), 32).c_str(), used);
    }
};

// Mirrors HttpStateData::processReplyHeader(): hp created on first non-empty inBuf, parse(inBuf), inBuf = remaining(),
// "Incomplete response, waiting for end of response headers" while needsMoreData().
RespOutcome driveResponse(const std::string &in, const hx::Cuts &cuts)
{
    RespOutcome o;
    Http1::ResponseParserPointer hp;
    SBuf inBuf;
    size_t delivered = 0;
    bool decisive = false, parsedOk = false;
    try {
        for (const auto &seg : segmentsOf(in.size(), cuts)) {
            inBuf.append(in.data() + seg.first, seg.second);
            delivered += seg.second;
            if (!inBuf.length())
                continue;
            if (hp == nullptr)
                hp = new Http1::ResponseParser;
            parsedOk = hp->parse(inBuf);
            inBuf = hp->remaining();
            if (hp->needsMoreData())
                continue;
            decisive = true;
            break;
        }
    } catch (const std::exception &e) {
        o.kind = kExc;
        o.exc = e.what();
        return o;
    }
    o.used = delivered - inBuf.length();
    if (hp == nullptr)
        return o;
    o.kind = !decisive ? kMore : (parsedOk ? kOk : kErr);
    o.parseStatus = hp->parseStatusCode;
    o.status = hp->messageStatus();
    o.ver = verStr(hp->messageProtocol());
    const auto r = hp->reasonPhrase();
    o.reason.assign(r.rawContent(), r.length());
    const auto mime = hp->mimeHeader();
    o.mime.assign(mime.rawContent(), mime.length());
    return o;
}

std::string diffResponse(const RespOutcome &one, const RespOutcome &inc)
{
    if (one.kind != inc.kind) return fmt("kind:%s-vs-%s", kindStr(one.kind), kindStr(inc.kind));
    if (one.kind == kErr && one.parseStatus != inc.parseStatus) return fmt("parse-status:%d-vs-%d", one.parseStatus, inc.parseStatus);
    if (one.kind == kOk) {
        if (one.status != inc.status) return fmt("status:%d-vs-%d", one.status, inc.status);
        if (one.ver != inc.ver) return "version";
        if (one.reason != inc.reason) return "reason";
        if (one.mime != inc.mime) return "mime-block";
        if (one.used != inc.used) return "consumed";
    }
    return "";
}

// case line: <id> <flags> <segseed> <hex input>
int runC23(const std::vector<std::string> &args)
{
    const Params prm = paramsFrom(args);
    vsim::hist("META\tc23\trelaxed=%d\tmaxReplyHeaderSize=%zu", Config.onoff.relaxed_header_parser, (size_t)Config.maxReplyHeaderSize);
    uint64_t nCases = 0, nRuns = 0;
    for (const auto &line : hx::readCases()) {
        const auto f = hx::split(line, ' ');
        std::string in;
        if (f.size() < 4 || !hx::unhex(f[3], in)) { vsim::hist("ERROR\tbad case line %s", line.substr(0, 60).c_str()); continue; }
        const std::string &id = f[0];
        const uint64_t seed = strtoull(f[2].c_str(), nullptr, 10);
        const RespOutcome one = driveResponse(in, hx::Cuts());
        ++nCases;
        size_t bad = 0;
        const size_t nSched = hx::scheduleCount(in.size(), prm.kRandom, prm.twoSplitMax);
        for (size_t r = 0; r < nSched; ++r) {
            const auto cuts = hx::schedule(seed, in.size(), r, prm.twoSplitMax, prm.byteMax);
            if (cuts.at.empty())
                continue;
            const RespOutcome inc = driveResponse(in, cuts);
            ++nRuns;
            const std::string d = diffResponse(one, inc);
            if (!d.empty() && !bad++)
                viol(id, "seg-dependent:" + d, fmt("cuts=%s\tone=%s\tinc=%s", cuts.describe().c_str(), one.str().c_str(), inc.str().c_str()));
        }
        if (one.kind == kExc)
            viol(id, "exception", one.exc);
        vsim::hist("RES\t%s\t%s\t%zu\t%zu", id.c_str(), one.str().c_str(), nSched, bad);
    }
    vsim::probe("h.cases", nCases);
    vsim::probe("h.schedules", nRuns);
    return 0;
}

/* =============================================================================================== C24 */

struct ChunkOutcome {
    int kind = kMore;
    std::string out, exc;
    size_t used = 0;
    bool stalled = false;
    std::string str() const
    {
        return fmt("%s\t%zu\t%016llx\t%zu\t%s", kindStr(kind), out.size(), (unsigned long long)hx::fnv(out.data(), out.size()), used, exc.substr(0, 120).c_str());
    }
};

// Mirrors HttpStateData::decodeAndWriteReplyBody(): a MemBuf per parse() call, setPayloadBuffer(), parse(inBuf), inBuf = remaining(),
// decoded bytes handed on. With limited==true every MemBuf gets a seeded (tiny ... large) max capacity and parse() is repeated while
// needsMoreSpace(), as the body-pipe users (ConnStateData::handleChunkedRequestBody, ICAP) do.
ChunkOutcome driveChunked(const std::string &in, const hx::Cuts &cuts, const bool limited, const uint64_t capSeed)
{
    ChunkOutcome o;
    Http1::TeChunkedParser parser;
    vsim::Rng caps;
    caps.seed(capSeed);
    static const size_t capChoices[] = {2, 2, 3, 4, 5, 8, 17, 64, 255, 1000, 4096, 70000};
    const size_t capMode = caps.range(0, 3); // 0: tiny everywhere; 1: mixed; 2: one fixed medium; 3: mixed
    const size_t fixedCap = capChoices[caps.range(0, 11)];
    SBuf inBuf;
    size_t delivered = 0;
    bool done = false;
    try {
        for (const auto &seg : segmentsOf(in.size(), cuts)) {
            inBuf.append(in.data() + seg.first, seg.second);
            delivered += seg.second;
            for (int guard = 0;; ++guard) {
                MemBuf decodedData;
                if (!limited)
                    decodedData.init();
                else {
                    size_t cap = capMode == 0 ? capChoices[caps.range(0, 4)] : capMode == 2 ? fixedCap : capChoices[caps.range(0, 11)];
                    decodedData.init(std::min<size_t>(cap, 1 + caps.range(0, 64)), cap);
                }
                parser.setPayloadBuffer(&decodedData);
                const size_t before = inBuf.length();
                bool needSpace = false;
                try {
                    done = parser.parse(inBuf);
                    needSpace = !done && parser.needsMoreSpace() && !parser.remaining().isEmpty();
                } catch (...) {
                    decodedData.clean();
                    throw;
                }
                inBuf = parser.remaining(); // sync buffers after parse
                const size_t got = decodedData.contentSize();
                o.out.append(decodedData.content(), got);
                decodedData.clean();
                if (done || !needSpace)
                    break;
                if (!got && inBuf.length() == before) { o.stalled = true; break; } // asks for space but a drained buffer does not help
                if (guard > 10000000) { o.stalled = true; break; }
            }
            if (done || o.stalled)
                break;
        }
    } catch (const std::exception &e) {
        o.kind = kErr;
        o.exc = e.what();
        for (auto &c : o.exc) if (c == '\t' || c == '\n') c = ' ';
        o.used = delivered - inBuf.length();
        return o;
    } catch (...) {
        o.kind = kErr;
        o.exc = "non-std exception";
        return o;
    }
    o.used = delivered - inBuf.length();
    o.kind = done ? kOk : kMore;
    return o;
}

std::string diffChunked(const ChunkOutcome &one, const ChunkOutcome &inc)
{
    if (inc.stalled) return "stalled";
    if (one.kind != inc.kind) return fmt("kind:%s-vs-%s", kindStr(one.kind), kindStr(inc.kind));
    if (one.kind == kOk) {
        if (one.out != inc.out) return "output";
        if (one.used != inc.used) return "consumed";
    }
    if (one.kind == kMore) {
        // all delivered input that belongs to chunk data must have been shovelled in both runs
        if (one.out != inc.out) return "partial-output";
    }
    return "";
}

// case line: <id> <flags> <segseed> <hex encoded input>
int runC24(const std::vector<std::string> &args)
{
    const Params prm = paramsFrom(args);
    vsim::hist("META\tc24\trelaxed=%d", Config.onoff.relaxed_header_parser);
    uint64_t nCases = 0, nRuns = 0;
    for (const auto &line : hx::readCases()) {
        const auto f = hx::split(line, ' ');
        std::string in;
        if (f.size() < 4 || !hx::unhex(f[3], in)) { vsim::hist("ERROR\tbad case line %s", line.substr(0, 60).c_str()); continue; }
        const std::string &id = f[0];
        const uint64_t seed = strtoull(f[2].c_str(), nullptr, 10);
        const ChunkOutcome one = driveChunked(in, hx::Cuts(), false, 0);
        ++nCases;
        size_t bad = 0;
        const size_t nSched = hx::scheduleCount(in.size(), prm.kRandom, prm.twoSplitMax);
        for (size_t r = 0; r < nSched + 2; ++r) {
            // the last two runs keep whole-input delivery and vary only the output space
            const auto cuts = r < nSched ? hx::schedule(seed, in.size(), r, prm.twoSplitMax, prm.byteMax) : hx::Cuts();
            const bool limited = r >= nSched || (r % 3) != 2; // every third segmented run uses unbounded output
            if (cuts.at.empty() && !limited)
                continue;
            const ChunkOutcome inc = driveChunked(in, cuts, limited, seed * 31 + r);
            ++nRuns;
            const std::string d = diffChunked(one, inc);
            if (!d.empty() && !bad++)
                viol(id, "seg-dependent:" + d, fmt("cuts=%s\tlimited=%d\tcapseed=%llu\tone=%s\tinc=%s", cuts.describe().c_str(), limited, (unsigned long long)(seed * 31 + r), one.str().c_str(), inc.str().c_str()));
        }
        vsim::hist("RES\t%s\t%s\t%zu\t%zu", id.c_str(), one.str().c_str(), nSched + 2, bad);
    }
    vsim::probe("h.cases", nCases);
    vsim::probe("h.schedules", nRuns);
    return 0;
}

/* =============================================================================================== C51 */

struct SimVal { uint64_t id = 0; uint64_t size = 0; };
uint64_t SimValMem(const SimVal &v) { return v.size; }
typedef ClpMap<SBuf, SimVal, SimValMem> SimMap;

// case line: <id> <capacity> <defaultTtl or -> <op> <op> ...
//   A,<key>,<valId>,<valSize>,<ttl>  add with TTL        B,<key>,<valId>,<valSize>  add with the map's default TTL
//   G,<key> get    D,<key> del    L,<limit> setMemLimit    T,<usec> advance the simulated clock, then getCurrentTime()
// RES records carry, per op, "<result>/<memoryUsed>/<entries>": add 1|0, get <valId>|-, del/limit ., T <squid_curtime>
int runC51(const std::vector<std::string> &)
{
    {
        // per-entry accounting overhead (storage + index wrappers), measured rather than assumed
        SimMap probeMap(1 << 20);
        SimVal v;
        probeMap.add(SBuf("k"), v, 10);
        vsim::hist("META\tc51\toverhead=%" PRIu64 "\tcurtime=%lld", probeMap.memoryUsed() - 1, (long long)squid_curtime);
    }
    uint64_t nCases = 0, nOps = 0;
    for (const auto &line : hx::readCases()) {
        const auto f = hx::split(line, ' ');
        if (f.size() < 3) { vsim::hist("ERROR\tbad case line %s", line.substr(0, 60).c_str()); continue; }
        const std::string &id = f[0];
        const uint64_t cap = strtoull(f[1].c_str(), nullptr, 10);
        SimMap *mp = f[2] == "-" ? new SimMap(cap) : new SimMap(cap, atoi(f[2].c_str()));
        SimMap &m = *mp;
        ++nCases;
        getCurrentTime();
        std::string acc;
        size_t accStart = 0, k = 0;
        bool over = false;
        long long chunkTime = squid_curtime; // squid_curtime in force before the first op of the chunk
        auto flush = [&](size_t next) {
            if (!acc.empty()) vsim::hist("RES\t%s\t%zu\t%lld\t%s", id.c_str(), accStart, chunkTime, acc.c_str());
            acc.clear();
            accStart = next;
            chunkTime = squid_curtime;
        };
        for (size_t i = 3; i < f.size(); ++i, ++k) {
            const auto op = hx::split(f[i], ',');
            std::string r = "?";
            ++nOps;
            try {
                if (op[0] == "A" && op.size() == 5) {
                    SimVal v; v.id = strtoull(op[2].c_str(), nullptr, 10); v.size = strtoull(op[3].c_str(), nullptr, 10);
                    r = m.add(SBuf(op[1].c_str()), v, atoi(op[4].c_str())) ? "1" : "0";
                } else if (op[0] == "B" && op.size() == 4) {
                    SimVal v; v.id = strtoull(op[2].c_str(), nullptr, 10); v.size = strtoull(op[3].c_str(), nullptr, 10);
                    r = m.add(SBuf(op[1].c_str()), v) ? "1" : "0";
                } else if (op[0] == "G" && op.size() == 2) {
                    const auto *v = m.get(SBuf(op[1].c_str()));
                    r = v ? std::to_string(v->id) : "-";
                } else if (op[0] == "D" && op.size() == 2) {
                    m.del(SBuf(op[1].c_str()));
                    r = ".";
                } else if (op[0] == "L" && op.size() == 2) {
                    m.setMemLimit(strtoull(op[1].c_str(), nullptr, 10));
                    r = ".";
                } else if (op[0] == "T" && op.size() == 2) {
                    vsim::advanceClock(strtoull(op[1].c_str(), nullptr, 10));
                    getCurrentTime();
                    r = std::to_string((long long)squid_curtime);
                }
            } catch (const std::exception &e) {
                r = "X";
                viol(id, "exception", fmt("op %zu %s: %s", k, f[i].c_str(), e.what()));
            }
            if (m.memoryUsed() > m.memLimit() && !over) {
                over = true;
                viol(id, "over-capacity", fmt("after op %zu %s: memoryUsed=%" PRIu64 " > memLimit=%" PRIu64, k, f[i].c_str(), m.memoryUsed(), m.memLimit()));
            }
            acc += fmt("%s/%" PRIu64 "/%zu ", r.c_str(), m.memoryUsed(), m.entries());
            if (acc.size() > 800)
                flush(k + 1);
        }
        flush(k);
        // final contents in traversal order (cbegin() first); the Python model compares the set and the accounting, not the order
        std::string keys;
        uint64_t counted = 0;
        for (const auto &e : m) {
            counted += e.memCounted;
            if (keys.size() < 700) { keys.append(e.key.rawContent(), e.key.length()); keys += '='; keys += std::to_string(e.value.id); keys += ' '; }
        }
        vsim::hist("END51\t%s\t%" PRIu64 "\t%" PRIu64 "\t%zu\t%s", id.c_str(), m.memoryUsed(), counted, m.entries(), keys.c_str());
        delete mp;
    }
    vsim::probe("h.cases", nCases);
    vsim::probe("h.ops", nOps);
    return 0;
}

const bool registered = (vsim::registerHarness("h:c21", &runC21), vsim::registerHarness("h:c23", &runC23),
                         vsim::registerHarness("h:c24", &runC24), vsim::registerHarness("h:c51", &runC51), true);

} // namespace
