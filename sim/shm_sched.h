// Engine S (DESIGN.md §3.4): cooperative task scheduler driven by the atomic shim's yield hook, case file parser and the
// interface that the per-structure harnesses (shm_pagestack.cc, shm_rwlock.cc, shm_storemap.cc, shm_queue.cc) implement.
//
// Model: every task ("kid") is a ucontext coroutine. Before EVERY std::atomic load/store/RMW executed by a task the shim calls
// vsim::g_yieldHook; the scheduler then ends the current *step*, lets the harness evaluate its invariants, and picks the task that
// executes the next atomic operation. Plain (non-atomic) code between two atomics therefore executes as part of one step and
// interleavings are sequentially consistent at atomic-operation granularity (weaker memory orders are not modelled).
#pragma once
#include "sim.h"
#include <cstdarg>
#include <string>
#include <vector>

namespace shm {

enum Policy { polRandom = 'R', polPct = 'P', polRtc = 'C' };

/// one line of <rundir>/cases.txt:
///   <id> key=value ... | op op op ... | op op ... [| ...]
/// common keys: pol=R | pol=P<d> | pol=C ; seed=<u64> ; crash=<task>@<k> ; reps=<n> (same case under seeds seed..seed+n-1)
struct CaseSpec {
    std::string id;
    std::vector<std::pair<std::string, std::string>> params;
    std::vector<std::vector<std::string>> tasks; ///< operation tokens per task
    Policy policy = polRandom;
    int pctDepth = 2;
    uint64_t seed = 1;
    int crashTask = -1;     ///< task that stops forever ...
    uint64_t crashAt = 0;   ///< ... at its crashAt-th yield point (1-based)
    int reps = 1;
    int rep = 0;            ///< current repetition (set by the driver)

    const char *get(const char *key, const char *dflt = "") const;
    long num(const char *key, long dflt) const;
    size_t totalOps() const { size_t n = 0; for (auto &t : tasks) n += t.size(); return n; }
};
bool parseCase(const std::string &line, CaseSpec &out, std::string &err);

class Sched;

/// what a structure harness provides; one object per case repetition
class Harness
{
public:
    virtual ~Harness() {}
    /// build fresh structures (main context; atomics do not yield here)
    virtual void setup(const CaseSpec &, Sched &) = 0;
    /// body of task t (runs inside the coroutine)
    virtual void runTask(int t) = 0;
    /// invariants evaluated after every step (task t ran until its next yield point / its end)
    virtual void afterStep(int t) = 0;
    /// hash of the structure's shared words (abstract state)
    virtual uint64_t stateHash() = 0;
    /// end of the case (main context): quiescent = every task ran to completion and no crash fault fired
    virtual void finish(bool quiescent) = 0;
    /// rough number of yield points per operation (PCT change points are drawn from [1, ops*this])
    virtual unsigned yieldsPerOp() const { return 6; }
};
typedef Harness *(*HarnessFactory)();
void registerStructure(const char *name, HarnessFactory);

struct CaseResult {
    uint64_t steps = 0, preemptions = 0, switches = 0, schedHash = 0, statesHash = 0;
    bool crashFired = false, violated = false, allDone = false, stepLimit = false;
};

class Sched
{
public:
    static const int MaxTasks = 4;

    /// run one case repetition with the given harness (already set up)
    CaseResult run(const CaseSpec &, Harness &);

    /* API for harness code running inside a task */
    /// a harness-level yield point (not tied to an atomic); idle=true: the task has nothing to do until somebody else moves
    void yieldNow(bool idle);
    int current() const { return cur_; }
    bool inTask() const { return cur_ >= 0; }
    uint64_t step() const { return steps_; }
    bool taskDone(int t) const { return tasks_[t].done; }
    bool taskCrashed(int t) const { return tasks_[t].crashed; }
    bool taskGone(int t) const { return tasks_[t].done || tasks_[t].crashed; }
    int taskCount() const { return n_; }
    /// all tasks other than t finished or crashed
    bool othersGone(int t) const;

    /// report a violation of class cls for the current case; the case is abandoned at the end of the current step
    void viol(const char *cls, const char *fmt, ...) __attribute__((format(printf, 3, 4)));
    bool violated() const { return violated_; }
    int currentTask() const { return cur_; } ///< index of the running task, -1 outside tasks
    /// prefix put in front of every violation class of the current case (set by the harness in setup())
    void setClassPrefix(const char *p) { classPrefix_ = p; }
    /// operation-level trace record (only when the case has trace=1)
    void trace(const char *fmt, ...) __attribute__((format(printf, 2, 3)));
    bool tracing() const { return tracing_; }

    /// suppresses yielding while harness bookkeeping touches atomics (RAII)
    struct Quiet {
        explicit Quiet(Sched &s): s_(s), was_(s.quiet_) { s_.quiet_ = true; }
        ~Quiet() { s_.quiet_ = was_; }
        Sched &s_; bool was_;
    };

    static Sched &Instance();
    void hookYield(); ///< called by the atomic shim hook
    void taskMain(int t); ///< coroutine entry

private:
    struct Task {
        void *ctx = nullptr;        // ucontext_t *
        char *stack = nullptr;
        bool done = false, crashed = false, idle = false, wake = false, started = false;
        uint64_t yields = 0, crashAt = 0;
        int prio = 0;
    };
    void endStep();
    int pick();
    void switchTo(int next);        // from the current task (or main when cur_ < 0)
    void leaveToMain();             // from a task, never returns to it unless resumed
    bool candidate(int t, bool allowIdle) const;

    Task tasks_[MaxTasks];
    int n_ = 0, cur_ = -1;
    void *mainCtx_ = nullptr;
    vsim::Rng rng_;
    Policy policy_ = polRandom;
    std::vector<uint64_t> changePoints_;
    int nextLowPrio_ = 0;
    Harness *harness_ = nullptr;
    const CaseSpec *spec_ = nullptr;
    uint64_t steps_ = 0, preemptions_ = 0, switches_ = 0, schedHash_ = 0, statesHash_ = 0, stepLimit_ = 0;
    bool violated_ = false, quiet_ = false, crashFired_ = false, hitLimit_ = false;
    int violCount_ = 0;
    bool tracing_ = false;
    std::string classPrefix_;
    friend struct Quiet;
};

inline uint64_t mix64(uint64_t h, uint64_t v)
{
    h ^= v + 0x9E3779B97F4A7C15ULL + (h << 6) + (h >> 2);
    h *= 0xBF58476D1CE4E5B9ULL;
    return h ^ (h >> 29);
}
uint64_t hashBytes(const void *p, size_t n, uint64_t h = 0x1234567);

/// records that abstract state `h` was reached (process-wide distinct-state statistics)
void noteState(uint64_t h);

} // namespace shm
