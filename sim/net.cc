// Simulated network + scripted peers. DESIGN.md §3.2/§3.3.
#include "net.h"

#include <algorithm>
#include <cerrno>
#include <csignal>
#include <cstdio>
#include <cstdlib>
#include <netinet/in.h>
#include <sys/epoll.h>
#include <sys/socket.h>
#include <unistd.h>

extern "C" int __real_unlink(const char *);
#include <ctime>

namespace vsim {

static const uint64_t DEFAULT_EXPECT_TIMEOUT_US = 120ULL * 1000000ULL;

bool Net::faultChance(const char *knob)
{
    double p = g_scn.knobD(knob, 0);
    return p > 0 && ioChance(p);
}

void Net::init()
{
    squidIp = Addr::parse(g_scn.knobS("squid.ip", "10.9.9.9"), 0);
    for (auto &c : g_scn.clients) { ClientSpec *cp = &c; at(g_scn.clockStartUs + c.startUs, [this, cp] { startClient(*cp); }); }
    for (auto &j : g_scn.jumps) { int64_t by = j.byUs; at(g_scn.clockStartUs + j.atUs, [by] { applyClockJump(by); }); }
    for (auto &d : g_scn.dgrams) if (d.after.empty()) {
        DgramSpec *dp = &d;
        at(g_scn.clockStartUs + d.atUs, [this, dp] {
            for (auto &kv : socks) if (kv.second->kind == SockEnt::UDP && kv.second->local.port == dp->to.port) {
                for (int i = 0; i < dp->dup; ++i) kv.second->dgrams.push_back(Dgram{dp->from, dp->data});
                hist("DGRM\t%s\t%s\t%s\t%s", dp->name.c_str(), dp->from.str().c_str(), dp->to.str().c_str(), histBlob(dp->data.data(), dp->data.size()).c_str());
                return;
            }
            hist("DGRM-NOPORT\t%s", dp->name.c_str());
        });
    }
    for (auto &sp : g_scn.snaps) if (sp.after.empty()) { std::string l = sp.label; at(g_scn.clockStartUs + sp.atUs, [l] { fdSnapshot(l); }); }
    if (g_scn.sigtermAtUs) at(g_scn.clockStartUs + g_scn.sigtermAtUs, [] { hist("LIFE\tsigterm"); raise(SIGTERM); });
    if (g_scn.clients.empty()) { clientsDone = true; clientsDoneAt = g_scn.clockStartUs; at(clientsDoneAt + g_scn.drainUs, [] {}); }
}

Conn *Net::newConn(char kind, const std::string &labelBase, const std::string &peerName)
{
    Conn *c = new Conn;
    c->id = (int)conns.size() + 1; c->kind = kind; c->peerName = peerName;
    int n = ++labelCount[labelBase];
    c->label = labelBase + "#" + std::to_string(n);
    c->rng.seed(hashStr(g_scn.seed, c->label));
    conns.push_back(c);
    return c;
}

void Net::newSocket(int fd, int domain, int type)
{
    SockEnt *s = new SockEnt; s->fd = fd; s->domain = domain; s->type = type;
    s->kind = type == SOCK_DGRAM ? SockEnt::UDP : SockEnt::FRESH;
    s->local.family = domain;
    socks[fd] = s;
}

void Net::newPair(int a, int b)
{
    SockEnt *A = new SockEnt; A->fd = a; A->domain = AF_UNIX; A->type = SOCK_STREAM; A->kind = SockEnt::CONN; A->pairOther = b;
    SockEnt *B = new SockEnt; B->fd = b; B->domain = AF_UNIX; B->type = SOCK_STREAM; B->kind = SockEnt::PAIR_CHILD; B->pairOther = a;
    socks[a] = A; socks[b] = B;
    Conn *c = newConn('h', "pair", "helper");
    c->sq = A; A->conn = c; c->latLo = 5; c->latHi = 50; c->window = 32768;
    pendingPair[0] = a; pendingPair[1] = b;
}

void Net::newPipe(int r, int w)
{
    SockEnt *R = new SockEnt; R->fd = r; R->domain = AF_UNIX; R->type = SOCK_STREAM; R->kind = SockEnt::PAIR_CHILD; R->canWrite = false;
    SockEnt *W = new SockEnt; W->fd = w; W->domain = AF_UNIX; W->type = SOCK_STREAM; W->kind = SockEnt::PAIR_CHILD; W->canRead = false;
    socks[r] = R; socks[w] = W;
    pendingPipes.emplace_back(r, w);
}

int Net::bind(SockEnt *s, const Addr &a)
{
    s->local = a;
    if (s->local.family == 0) s->local.family = s->domain;
    if (s->local.port == 0 && (s->type == SOCK_DGRAM || inIpcCreate)) s->local.port = (uint16_t)nextEphemeral++;
    return 0;
}

int Net::listen(SockEnt *s)
{
    s->kind = SockEnt::LISTEN;
    if (inIpcCreate) { ipcListenFd = s->fd; return 0; } // the child end of an IPC_TCP_SOCKET helper: not a service port
    hist("LISTEN\t%d\t%s", s->fd, s->local.str().c_str());
    return 0;
}

static uint64_t connLat(Conn *c) { return c->rng.range(c->latLo, c->latHi); }

int Net::connect(SockEnt *s, const Addr &a)
{
    if (s->type == SOCK_DGRAM) { s->remote = a; return 0; }
    if (tcpHelper.armed && a.port == tcpHelper.port) { // parent end of an IPC_TCP_SOCKET helper connecting to its "child"
        tcpHelper.armed = false;
        Conn *c = newConn('h', "tcphelper", "helper");
        c->latLo = 5; c->latHi = 50; c->window = 32768; c->state = Conn::ESTABLISHED;
        s->kind = SockEnt::CONN; s->conn = c; c->sq = s; s->remote = a;
        makeHelperProc(c, tcpHelper.name, tcpHelper.token, tcpHelper.pid);
        return 0;
    }
    if (s->conn) { // second connect() on the same socket
        if (s->conn->state == Conn::ESTABLISHED) { errno = EISCONN; return -1; }
        if (s->conn->state == Conn::FAILED) { errno = s->conn->connErr; return -1; }
        errno = EALREADY; return -1;
    }
    ServerSpec *srv = nullptr;
    for (auto &sv : g_scn.servers) if (sv.addr.port == a.port && sv.addr.sameIp(a)) { srv = &sv; break; }
    Conn *c = newConn('s', srv ? srv->name : "noserver", srv ? srv->name : "-");
    s->kind = SockEnt::CONN; s->conn = c; c->sq = s; s->remote = a;
    if (s->local.port == 0) s->local.port = (uint16_t)nextEphemeral++;
    if (s->local.isAny()) { Addr l = squidIp; l.port = s->local.port; if (a.family == AF_INET6) { l = Addr::parse("fd00::9", l.port); } s->local = l; }
    c->sqAddr = s->local; c->peerAddr = a; c->state = Conn::CONNECTING;
    std::string outcome = srv ? "ok" : "refuse"; uint64_t delay = 0; int nth = 0;
    if (srv) {
        c->latLo = srv->latLo; c->latHi = srv->latHi; c->window = srv->window; c->readChunk = srv->readChunk; c->readPaceUs = srv->readPaceUs;
        nth = ++srv->connectsSeen;
        const ConnectRule *pick = nullptr;
        for (auto &r : srv->connects) if (r.nth == nth) pick = &r;
        if (!pick) for (auto &r : srv->connects) if (r.nth == -1) pick = &r;
        if (pick) { outcome = pick->outcome; delay = pick->delayUs; }
    }
    hist("CONN\t%d\ts\t%s\t%s\t%s\t%d\t%d\t%s", c->id, c->peerName.c_str(), c->sqAddr.str().c_str(), a.str().c_str(), s->fd, nth, outcome.c_str());
    uint64_t t = nowUs() + connLat(c) + delay;
    if (outcome == "ok") {
        at(t, [this, c, srv] {
            if (c->sqClosed) return;
            c->state = Conn::ESTABLISHED;
            Proc *p = new Proc; p->id = (int)procs.size() + 1; p->name = srv->name; p->conn = c; p->server = srv; c->proc = p; procs.push_back(p);
            int k = ++srv->accepted;
            const AcceptRule *ar = nullptr;
            for (auto &r : srv->accepts) if (r.nth == k) ar = &r;
            if (!ar) for (auto &r : srv->accepts) if (r.nth == -1) ar = &r;
            if (ar) { p->phase = Proc::ONACCEPT; p->steps = &ar->steps; } else p->phase = Proc::WAITREQ;
            hist("ESTAB\t%d\t%d", c->id, k);
            runProc(p);
        });
    } else if (outcome == "refuse" || outcome == "unreach") {
        int e = outcome == "refuse" ? ECONNREFUSED : EHOSTUNREACH;
        probe(outcome == "refuse" ? "fault.connect.refuse" : "fault.connect.unreach");
        at(t, [c, e] { if (c->sqClosed) return; c->state = Conn::FAILED; c->connErr = e; hist("CONNFAIL\t%d\t%d", c->id, e); });
    } else { // timeout: SYN lost forever
        probe("fault.connect.timeout");
    }
    errno = EINPROGRESS;
    return -1;
}

void Net::adoptAccepted(int nfd, Conn *c, SockEnt *listener)
{
    SockEnt *s = new SockEnt; s->fd = nfd; s->domain = listener->domain; s->type = SOCK_STREAM; s->kind = SockEnt::CONN;
    s->local = c->sqAddr; s->remote = c->peerAddr; s->conn = c; c->sq = s;
    socks[nfd] = s;
    hist("ACPT\t%d\t%d", c->id, nfd);
}

ssize_t Net::sqPeek(SockEnt *s, void *buf, size_t n)
{
    Conn *c = s->conn;
    if (!c) { errno = ENOTCONN; return -1; }
    size_t k = std::min(n, c->srxAvail());
    if (k) { memcpy(buf, c->srx.data() + c->srxOff, k); return (ssize_t)k; }
    if (c->sqRst) { errno = ECONNRESET; return -1; }
    if (c->sqEof) return 0;
    errno = EAGAIN; return -1;
}

ssize_t Net::sqRead(SockEnt *s, void *buf, size_t n)
{
    Conn *c = s->conn;
    if (!c || s->kind != SockEnt::CONN) { errno = ENOTCONN; return -1; }
    if (c->state == Conn::FAILED) { errno = c->connErr; return -1; }
    size_t avail = c->srxAvail();
    if (avail && n) {
        if (c->kind != 'h' && faultChance("io.eagain_p")) { probe("fault.io.eagain"); errno = EAGAIN; return -1; }
        size_t k = std::min(n, avail);
        if (k > 1 && c->kind != 'h' && faultChance("io.readcap_p")) { k = ioRand(1, k); probe("fault.io.shortread"); }
        memcpy(buf, c->srx.data() + c->srxOff, k);
        c->srxOff += k;
        if (c->srxOff == c->srx.size()) { c->srx.clear(); c->srxOff = 0; }
        else if (c->srxOff > (1 << 20)) { c->srx.erase(0, c->srxOff); c->srxOff = 0; }
        hist("SQRD\t%d\t%zu", c->id, k);
        pumpPeerSend(c);
        return (ssize_t)k;
    }
    if (c->sqRst) { hist("SQRD\t%d\tRST", c->id); errno = ECONNRESET; return -1; }
    if (c->sqEof) { hist("SQRD\t%d\tEOF", c->id); return 0; }
    errno = EAGAIN; return -1;
}

ssize_t Net::sqWrite(SockEnt *s, const void *buf, size_t n)
{
    Conn *c = s->conn;
    if (!c || s->kind != SockEnt::CONN || c->state != Conn::ESTABLISHED) { errno = ENOTCONN; return -1; }
    if (c->sqRst) { hist("SQWERR\t%d\tEPIPE", c->id); errno = EPIPE; return -1; }
    if (n == 0) return 0;
    if (c->peerClosed) { // peer is gone: the local kernel accepts the bytes, an RST comes back
        hist("SQWR\t%d\t%s\tlost", c->id, histBlob(buf, n).c_str());
        at(nowUs() + connLat(c), [c] {
            if (c->sqRst) return;
            c->sqRst = true; hist("RSTBACK\t%d", c->id);
            // the peer's kernel discarded its unsent queue when it answered with the RST, and nothing is accepted after an RST: segments still in flight never arrive
            size_t n = 0; for (auto &sg : c->p2s) n += sg.data.size();
            if (n) { hist("P2SDROP\t%d\t%zu", c->id, n); c->p2s.clear(); c->p2sBytes = 0; }
        });
        return (ssize_t)n;
    }
    if (c->s2pBytes >= c->window) { errno = EAGAIN; return -1; }
    size_t k = std::min<uint64_t>(n, c->window - c->s2pBytes);
    if (k > 1 && c->kind != 'h' && faultChance("io.shortwrite_p")) { k = ioRand(1, k); probe("fault.io.shortwrite"); }
    if (k < n) probe("net.write_short");
    uint64_t t = std::max(nowUs() + connLat(c), c->s2pLastAt);
    c->s2pLastAt = t;
    Seg sg; sg.at = t; sg.data.assign((const char *)buf, k);
    c->s2p.push_back(std::move(sg)); c->s2pBytes += k;
    hist("SQWR\t%d\t%s", c->id, histBlob(buf, k).c_str());
    at(t, [this, c] { deliverToPeer(c); });
    return (ssize_t)k;
}

void Net::deliverToPeer(Conn *c)
{
    if (c->s2p.empty()) return;
    Seg sg = std::move(c->s2p.front()); c->s2p.pop_front();
    if (sg.rst) c->pbacklogRst = true;
    else if (sg.fin) c->pbacklogFin = true;
    else c->pbacklog += sg.data;
    pumpPeerRead(c);
}

void Net::pumpPeerRead(Conn *c)
{
    bool progress = false;
    if (!c->readStopped && !c->pbacklog.empty() && !c->readTimerArmed) {
        size_t k = c->pbacklog.size();
        if (c->readChunk && k > c->readChunk) k = c->readChunk;
        if (!c->peerClosed) { c->prx.append(c->pbacklog, 0, k); hist("PRCV\t%d\t%zu", c->id, k); }
        c->totS2P += k; c->s2pBytes -= k;
        c->pbacklog.erase(0, k);
        progress = true;
        if (c->readPaceUs && (c->readChunk || !c->pbacklog.empty())) {
            c->readTimerArmed = true;
            at(nowUs() + c->readPaceUs, [this, c] { c->readTimerArmed = false; pumpPeerRead(c); });
        }
    }
    if (c->pbacklog.empty()) {
        if (c->pbacklogRst && !c->peerRst) { c->peerRst = true; hist("PRST\t%d", c->id); progress = true; }
        else if (c->pbacklogFin && !c->peerEof) { c->peerEof = true; hist("PEOF\t%d", c->id); progress = true; }
    }
    if (progress && c->proc) runProc(c->proc);
}

// replaces @NOW@, @NOW+123@, @NOW-45@ by the IMF-fixdate of the simulated wall clock (+- seconds) and @VAR:name@ by a scenario variable
static Bytes substitute(const Bytes &in)
{
    Bytes out; size_t pos = 0;
    for (;;) {
        size_t a = in.find('@', pos);
        if (a == std::string::npos) { out.append(in, pos, std::string::npos); break; }
        size_t b = in.find('@', a + 1);
        if (b == std::string::npos || b - a > 64) { out.append(in, pos, a + 1 - pos); pos = a + 1; continue; }
        std::string tok = in.substr(a + 1, b - a - 1);
        if (tok.compare(0, 3, "NOW") == 0) {
            long off = tok.size() > 3 ? atol(tok.c_str() + 3) : 0;
            time_t t = (time_t)(wallUs() / 1000000) + off; struct tm tmv; gmtime_r(&t, &tmv);
            char buf[64]; strftime(buf, sizeof(buf), "%a, %d %b %Y %H:%M:%S GMT", &tmv);
            out.append(in, pos, a - pos); out += buf; pos = b + 1;
        } else if (tok.compare(0, 4, "VAR:") == 0) {
            out.append(in, pos, a - pos); out += getVar(tok.substr(4)); pos = b + 1;
        } else { out.append(in, pos, a + 1 - pos); pos = a + 1; }
    }
    return out;
}

void Net::peerSend(Conn *c, const Step &st)
{
    if (c->poutOff == c->pout.size()) { c->pout.clear(); c->poutOff = 0; }
    c->segBase = c->pout.size();
    if (st.subst) c->pout += substitute(st.data); else
    c->pout += st.data;
    c->seg = st.seg; c->segMax = st.segMax; c->segAt = st.segAt; c->paceLo = st.paceLo; c->paceHi = st.paceHi;
    pumpPeerSend(c);
}

void Net::pumpPeerSend(Conn *c)
{
    bool sent = false;
    while (c->poutOff < c->pout.size()) {
        if (c->sqClosed || c->sqRst) { // nobody will ever read this
            hist("PSNDLOST\t%d\t%zu", c->id, c->pout.size() - c->poutOff);
            c->poutOff = c->pout.size(); sent = true; break;
        }
        uint64_t used = c->p2sBytes + c->srxAvail();
        if (used >= c->window) break;
        uint64_t room = c->window - used, remaining = c->pout.size() - c->poutOff, k = remaining;
        const uint64_t cap = c->segMax ? c->segMax : g_scn.knobU("net.seg.max", 0, 16384);
        SegMode m = c->seg;
        const std::string force = g_scn.knobS("net.seg.mode", "");
        if (force == "whole") m = SEG_WHOLE; else if (force == "byte") m = SEG_BYTE;
        if (m == SEG_BYTE) k = 1;
        else if (m == SEG_RAND) {
            uint64_t r = c->rng.range(0, 99);
            uint64_t hi = r < 25 ? 16 : (r < 60 ? 1460 : cap);
            k = c->rng.range(1, std::max<uint64_t>(1, std::min(hi, cap)));
        } else if (m == SEG_AT) {
            uint64_t rel = c->poutOff - c->segBase;
            for (uint64_t b : c->segAt) if (b > rel) { k = b - rel; break; }
        }
        k = std::min(k, remaining);
        if (c->nextSeg) k = std::min<uint64_t>(c->nextSeg, remaining); // a size chosen earlier that did not fit yet
        if (k > room && k <= c->window) { c->nextSeg = k; break; }      // silly-window avoidance: wait until the whole segment fits
        if (k > c->window && room < std::min<uint64_t>(remaining, std::max<uint64_t>(1, c->window / 2))) break; // ... or, for a segment larger than the window, until half the window is free
        c->nextSeg = 0;
        k = std::min(k, room);
        uint64_t pace = c->paceHi ? c->rng.range(c->paceLo, c->paceHi) : 0;
        uint64_t t = std::max(nowUs() + connLat(c), c->p2sLastAt + pace);
        c->p2sLastAt = t;
        Seg sg; sg.at = t; sg.data.assign(c->pout, c->poutOff, k);
        hist("PSND\t%d\t%s", c->id, histBlob(sg.data.data(), k).c_str());
        c->poutOff += k; c->p2sBytes += k; c->totP2S += k;
        c->p2s.push_back(std::move(sg));
        at(t, [c] {
            if (c->p2s.empty()) return;
            Seg s2 = std::move(c->p2s.front()); c->p2s.pop_front();
            c->p2sBytes -= s2.data.size();
            if (!c->sqClosed) c->srx += s2.data;
        });
        sent = true;
    }
    if (sent && c->poutOff == c->pout.size() && c->proc && c->proc->sendPending) { Proc *p = c->proc; at(nowUs(), [this, p] { runProc(p); }); }
}

void Net::peerFin(Conn *c, bool full)
{
    if (!c->peerShutWr) {
        c->peerShutWr = true;
        uint64_t t = std::max(nowUs() + connLat(c), c->p2sLastAt); c->p2sLastAt = t;
        hist(full ? "PCLOSE\t%d" : "PFIN\t%d", c->id);
        at(t, [c] { c->sqEof = true; });
    } else if (full && !c->peerClosed) hist("PCLOSE\t%d", c->id);
    if (full) { c->peerClosed = true; c->prx.clear(); c->prxOff = 0; }
}

void Net::peerRst(Conn *c)
{
    uint64_t t = std::max(nowUs() + connLat(c), c->p2sLastAt); c->p2sLastAt = t;
    c->peerClosed = true; c->peerShutWr = true;
    hist("PRSTSND\t%d", c->id); probe("fault.net.peer_reset");
    at(t, [c] { c->sqRst = true; });
}

void Net::sqClose(SockEnt *s)
{
    epollForget(s->fd);
    if (s->kind == SockEnt::LISTEN) {
        for (Conn *c : s->backlog) { c->sqClosed = true; c->pbacklogRst = true; pumpPeerRead(c); }
        hist("UNLISTEN\t%d", s->fd);
    } else if (s->kind == SockEnt::CONN && s->conn) {
        Conn *c = s->conn;
        if (!s->canWrite) { c->sqClosed = true; if (c->sq == s) c->sq = nullptr; hist("CLOSE\t%d\t%d\tread-end", c->id, s->fd); }
        else if (!s->canRead) {
            hist("CLOSE\t%d\t%d\twrite-end", c->id, s->fd);
            uint64_t t = std::max(nowUs() + connLat(c), c->s2pLastAt); c->s2pLastAt = t;
            Seg sg; sg.at = t; sg.fin = true; c->s2p.push_back(std::move(sg));
            at(t, [this, c] { deliverToPeer(c); });
        } else {
        c->sqClosed = true; c->sq = nullptr;
        if (c->state == Conn::ESTABLISHED) {
            bool rst = c->srxAvail() > 0 || s->lingerReset;
            hist("CLOSE\t%d\t%d\t%s", c->id, s->fd, rst ? "rst" : "fin");
            uint64_t t = std::max(nowUs() + connLat(c), c->s2pLastAt); c->s2pLastAt = t;
            Seg sg; sg.at = t; sg.fin = !rst; sg.rst = rst;
            c->s2p.push_back(std::move(sg));
            at(t, [this, c] { deliverToPeer(c); });
            if (c->poutOff < c->pout.size()) pumpPeerSend(c);
        } else hist("CLOSE\t%d\t%d\tunconnected", c->id, s->fd);
        }
    } else if (s->kind == SockEnt::UDP) hist("UDPCLOSE\t%d", s->fd);
    if (pendingPair[0] == s->fd || pendingPair[1] == s->fd) { /* keep: fork may still come */ }
    socks.erase(s->fd);
    delete s;
}

int Net::epollCtl(int epfd, int op, int fd, uint32_t events, uint64_t data)
{
    auto &regs = epolls[epfd];
    if (op == EPOLL_CTL_DEL) { if (!regs.erase(fd)) { errno = ENOENT; return -1; } return 0; }
    if (op == EPOLL_CTL_ADD && regs.count(fd)) { errno = EEXIST; return -1; }
    if (op == EPOLL_CTL_MOD && !regs.count(fd)) { errno = ENOENT; return -1; }
    regs[fd] = EpollReg{events, data};
    return 0;
}

void Net::epollForget(int fd) { for (auto &e : epolls) e.second.erase(fd); }

int Net::collectReady(int epfd, struct epoll_event *evs, int maxev, Rng &rng)
{
    auto &regs = epolls[epfd];
    std::vector<std::pair<uint32_t, uint64_t>> ready;
    for (auto &kv : regs) {
        SockEnt *s = sock(kv.first);
        if (!s) continue;
        uint32_t m = 0;
        if (s->kind == SockEnt::LISTEN) { if (!s->backlog.empty()) m |= EPOLLIN; }
        else if (s->kind == SockEnt::UDP) { if (!s->dgrams.empty()) m |= EPOLLIN; m |= EPOLLOUT; }
        else if (s->kind == SockEnt::CONN && s->conn) {
            Conn *c = s->conn;
            if (c->state == Conn::FAILED) m |= EPOLLIN | EPOLLOUT | EPOLLERR | EPOLLHUP;
            else if (c->state == Conn::ESTABLISHED) {
                if (s->canRead && (c->srxAvail() || c->sqEof)) m |= EPOLLIN;
                if (c->sqRst) m |= EPOLLIN | EPOLLOUT | EPOLLERR | EPOLLHUP;
                if (s->canWrite && (c->s2pBytes < c->window || c->peerClosed)) m |= EPOLLOUT;
            }
        }
        uint32_t want = kv.second.events | EPOLLERR | EPOLLHUP;
        m &= want;
        if (m) ready.emplace_back(m, kv.second.data);
    }
    if (ready.empty()) return 0;
    const double subsetP = g_scn.knobD("epoll.subset_p", 0), shuffleP = g_scn.knobD("epoll.shuffle_p", 0);
    if (ready.size() > 1 && shuffleP > 0 && rng.chance(shuffleP)) { for (size_t i = ready.size() - 1; i > 0; --i) std::swap(ready[i], ready[rng.range(0, i)]); probe("sched.epoll_shuffle"); }
    if (ready.size() > 1 && subsetP > 0 && rng.chance(subsetP)) { ready.resize(rng.range(1, ready.size() - 1)); probe("sched.epoll_subset"); }
    int n = 0;
    for (auto &r : ready) { if (n >= maxev) break; evs[n].events = r.first; evs[n].data.u64 = r.second; ++n; }
    return n;
}

void Net::pump()
{
    while (!events.empty() && events.begin()->first.first <= nowUs()) {
        auto f = std::move(events.begin()->second);
        events.erase(events.begin());
        countEvent();
        f();
    }
}

bool Net::finished() { return clientsDone && nowUs() >= clientsDoneAt + g_scn.drainUs; }

void Net::checkClientsDone()
{
    if (clientsDone) return;
    size_t started = 0;
    for (Proc *p : procs) if (p->client) { ++started; if (p->phase != Proc::DONE && p->phase != Proc::PARKED) return; }
    if (started < g_scn.clients.size()) return;
    clientsDone = true; clientsDoneAt = nowUs();
    hist("ALLDONE");
    at(clientsDoneAt + g_scn.drainUs, [] {});
}

void Net::flagChanged()
{
    at(nowUs(), [this] {
        for (size_t i = 0; i < procs.size(); ++i) runProc(procs[i]);
        if (!g_scn.sigtermAfter.empty() && flagSet(g_scn.sigtermAfter)) { g_scn.sigtermAfter.clear(); hist("LIFE\tsigterm"); raise(SIGTERM); }
        for (auto &sp : g_scn.snaps) if (!sp.after.empty() && !sp.done && flagSet(sp.after)) { sp.done = true; std::string l = sp.label; at(nowUs() + sp.atUs, [l] { fdSnapshot(l); }); }
        for (auto &d : g_scn.dgrams) if (!d.after.empty() && flagSet(d.after)) {
            DgramSpec *dp = &d; std::string keep = d.after; d.after = "!done";
            at(nowUs() + d.atUs, [this, dp] {
                for (auto &kv : socks) if (kv.second->kind == SockEnt::UDP && kv.second->local.port == dp->to.port) {
                    for (int i = 0; i < dp->dup; ++i) kv.second->dgrams.push_back(Dgram{dp->from, dp->data});
                    hist("DGRM\t%s\t%s\t%s\t%s", dp->name.c_str(), dp->from.str().c_str(), dp->to.str().c_str(), histBlob(dp->data.data(), dp->data.size()).c_str());
                    return;
                }
                hist("DGRM-NOPORT\t%s", dp->name.c_str());
            });
        }
    });
}

void Net::startClient(ClientSpec &c)
{
    Proc *p = new Proc; p->id = (int)procs.size() + 1; p->name = c.name; p->client = &c; p->steps = &c.steps; p->phase = Proc::CLIENT;
    procs.push_back(p);
    runProc(p);
}

void Net::procDone(Proc *p, const char *why)
{
    if (p->phase == Proc::DONE) return;
    p->phase = Proc::DONE;
    hist("PDONE\t%s\t%d\t%s", p->name.c_str(), p->conn ? p->conn->id : 0, why);
    if (p->client) { setFlag("done:" + p->name); checkClientsDone(); }
}

// ---------------------------------------------------------------------------------- framers
static size_t findHeadEnd(const Bytes &b, size_t from)
{
    size_t a = b.find("\r\n\r\n", from), c = b.find("\n\n", from);
    size_t ea = a == std::string::npos ? a : a + 4, ec = c == std::string::npos ? c : c + 2;
    return std::min(ea, ec);
}
static bool ieq(char a, char b) { return tolower((unsigned char)a) == tolower((unsigned char)b); }
static std::string headerValue(const Bytes &head, const char *name)
{
    size_t nl = strlen(name), pos = 0;
    while ((pos = head.find('\n', pos)) != std::string::npos) {
        ++pos;
        if (pos + nl < head.size() && head[pos + nl] == ':') {
            bool eq = true;
            for (size_t i = 0; i < nl; ++i) if (!ieq(head[pos + i], name[i])) { eq = false; break; }
            if (eq) {
                size_t s = pos + nl + 1, e = head.find('\n', s);
                std::string v = head.substr(s, e == std::string::npos ? std::string::npos : e - s);
                while (!v.empty() && (v.back() == '\r' || v.back() == ' ' || v.back() == '\t')) v.pop_back();
                size_t i = 0; while (i < v.size() && (v[i] == ' ' || v[i] == '\t')) ++i;
                return v.substr(i);
            }
        }
    }
    return "";
}
static bool hasChunked(const Bytes &head)
{
    std::string te = headerValue(head, "Transfer-Encoding");
    for (auto &ch : te) ch = (char)tolower((unsigned char)ch);
    return te.find("chunked") != std::string::npos;
}
// scan chunked framing from p->exScan; returns 1 complete (exScan = end), 0 need more, -1 malformed
static int scanChunked(Proc *p, const Bytes &b)
{
    for (;;) {
        size_t lineEnd = b.find('\n', p->exScan);
        if (lineEnd == std::string::npos) return 0;
        if (p->exStage == 10) { // trailers: until empty line
            size_t len = lineEnd - p->exScan;
            bool empty = len == 0 || (len == 1 && b[p->exScan] == '\r');
            p->exScan = lineEnd + 1;
            if (empty) return 1;
            continue;
        }
        char *end = nullptr;
        std::string szs = b.substr(p->exScan, lineEnd - p->exScan);
        unsigned long long sz = strtoull(szs.c_str(), &end, 16);
        if (end == szs.c_str()) return -1;
        if (sz == 0) { p->exStage = 10; p->exScan = lineEnd + 1; continue; }
        size_t dataEnd = lineEnd + 1 + sz;
        if (b.size() < dataEnd + 1) return 0;
        // CRLF (or LF) after data
        if (b[dataEnd] == '\r') { if (b.size() < dataEnd + 2) return 0; dataEnd += 2; } else if (b[dataEnd] == '\n') dataEnd += 1; else return -1;
        p->exScan = dataEnd;
    }
}

// returns true when the expectation is satisfied (prxOff advanced); sets failed on EOF/RST before that
bool Net::stepExpect(Proc *p, const Step &st, bool &failed)
{
    Conn *c = p->conn;
    failed = false;
    if (!c) { failed = true; return false; }
    const Bytes &b = c->prx;
    const bool ended = c->peerEof || c->peerRst;
    ExpectKind ex = st.ex;
    for (;;) {
        switch (ex) {
        case EX_ANY:
            if (c->prxOff < b.size()) { c->prxOff = b.size(); return true; }
            if (ended) return true;
            return false;
        case EX_BYTES:
            if (b.size() - c->prxOff >= st.n) { c->prxOff += st.n; return true; }
            break;
        case EX_EOF:
            c->prxOff = b.size();
            if (ended) return true;
            return false;
        case EX_LINE: {
            size_t e = b.find('\n', c->prxOff);
            if (e != std::string::npos) { c->prxOff = e + 1; return true; }
            break;
        }
        case EX_HEAD: {
            size_t e = findHeadEnd(b, c->prxOff);
            if (e != std::string::npos) { p->lastHead.assign(b, c->prxOff, e - c->prxOff); c->prxOff = e; return true; }
            break;
        }
        case EX_CHUNKED: {
            if (p->exStage == 0) { p->exStage = 1; p->exScan = c->prxOff; }
            int r = scanChunked(p, b);
            if (r == 1) { c->prxOff = p->exScan; p->exStage = 0; return true; }
            if (r < 0) { failed = true; p->exStage = 0; return false; }
            break;
        }
        case EX_BODY: { // request body described by lastHead
            if (p->exStage == 0) {
                if (hasChunked(p->lastHead)) { p->exStage = 1; p->exScan = c->prxOff; p->exChunked = true; }
                else { p->exChunked = false; p->exNeed = strtoull(headerValue(p->lastHead, "Content-Length").c_str(), nullptr, 10); p->exStage = 2; }
            }
            if (p->exChunked) {
                int r = scanChunked(p, b);
                if (r == 1) { c->prxOff = p->exScan; p->exStage = 0; return true; }
                if (r < 0) { failed = true; p->exStage = 0; return false; }
            } else if (b.size() - c->prxOff >= p->exNeed) { c->prxOff += p->exNeed; p->exStage = 0; return true; }
            break;
        }
        case EX_RESPONSE:
        case EX_RESPONSE_NOBODY: {
            if (p->exStage == 0) { // head
                size_t e = findHeadEnd(b, c->prxOff);
                if (e == std::string::npos) break;
                p->lastHead.assign(b, c->prxOff, e - c->prxOff); c->prxOff = e;
                int status = 0;
                if (p->lastHead.size() >= 12 && p->lastHead.compare(0, 5, "HTTP/") == 0) status = atoi(p->lastHead.c_str() + 9);
                p->exStatus = status;
                if (status >= 100 && status < 200 && status != 101) continue; // interim response: read the next head
                if (ex == EX_RESPONSE_NOBODY || status == 204 || status == 304) return true;
                if (hasChunked(p->lastHead)) { p->exChunked = true; p->exUntilEof = false; p->exStage = 1; p->exScan = c->prxOff; }
                else {
                    std::string cl = headerValue(p->lastHead, "Content-Length");
                    p->exChunked = false;
                    if (cl.empty()) { p->exUntilEof = true; } else { p->exUntilEof = false; p->exNeed = strtoull(cl.c_str(), nullptr, 10); }
                    p->exStage = 2;
                }
            }
            if (p->exChunked) {
                int r = scanChunked(p, b);
                if (r == 1) { c->prxOff = p->exScan; p->exStage = 0; return true; }
                if (r < 0) { failed = true; p->exStage = 0; return false; }
            } else if (p->exUntilEof) {
                c->prxOff = b.size();
                if (ended) { p->exStage = 0; return true; }
                return false;
            } else if (b.size() - c->prxOff >= p->exNeed) { c->prxOff += p->exNeed; p->exStage = 0; return true; }
            break;
        }
        case EX_ICAP: { // after an ICAP request head: encapsulated HTTP heads, then chunked body unless null-body
            if (p->exStage == 0) {
                std::string enc = headerValue(p->lastHead, "Encapsulated");
                size_t lastEq = enc.rfind('='), lastComma = enc.rfind(',');
                std::string lastName = enc.substr(lastComma == std::string::npos ? 0 : lastComma + 1, lastEq - (lastComma == std::string::npos ? 0 : lastComma + 1));
                while (!lastName.empty() && lastName[0] == ' ') lastName.erase(0, 1);
                p->exNeed = lastEq == std::string::npos ? 0 : strtoull(enc.c_str() + lastEq + 1, nullptr, 10);
                p->exChunked = lastName != "null-body";
                p->exStage = 20;
            }
            if (p->exStage == 20) {
                if (b.size() - c->prxOff < p->exNeed) break;
                c->prxOff += p->exNeed;
                if (!p->exChunked) { p->exStage = 0; return true; }
                p->exStage = 1; p->exScan = c->prxOff;
            }
            int r = scanChunked(p, b);
            if (r == 1) { c->prxOff = p->exScan; p->exStage = 0; return true; }
            if (r < 0) { failed = true; p->exStage = 0; return false; }
            break;
        }
        }
        break;
    }
    if (ended) { failed = true; p->exStage = 0; }
    return false;
}

static bool ruleMatches(const Rule &r, const Bytes &head)
{
    if (r.maxUses >= 0 && r.uses >= r.maxUses) return false;
    for (auto &w : r.when) if (getVar(w.first) != w.second) return false;
    for (auto &h : r.has) if (head.find(h) == std::string::npos) return false;
    for (auto &h : r.nothas) if (head.find(h) != std::string::npos) return false;
    return true;
}

static const char NORULE_RESPONSE[] = "HTTP/1.1 500 Sim No Rule\r\nX-Sim-NoRule: 1\r\nContent-Length: 0\r\nConnection: close\r\n\r\n";

void Net::runProc(Proc *p)
{
    static int depth = 0;
    if (p->phase == Proc::DONE || p->phase == Proc::PARKED) return;
    if (depth > 64) { at(nowUs(), [this, p] { runProc(p); }); return; }
    ++depth;
    struct Guard { int &d; ~Guard() { --d; } } guard{depth};

    if (p->phase == Proc::HELPER) { helperInput(p); return; }

    for (;;) {
        if (p->phase == Proc::DONE || p->phase == Proc::PARKED) return;
        if (p->phase == Proc::CLIENT && !p->started) {
            if (!p->client->noready && !flagSet("ready")) return;
            p->started = true;
            hist("PSTART\t%s", p->name.c_str());
        }
        if (p->phase == Proc::WAITREQ) {
            Conn *c = p->conn;
            size_t e = findHeadEnd(c->prx, c->prxOff);
            if (e == std::string::npos) {
                if (c->peerEof || c->peerRst) { if (!c->peerClosed) peerFin(c, true); procDone(p, "peer-eof"); }
                return;
            }
            p->lastHead.assign(c->prx, c->prxOff, e - c->prxOff); c->prxOff = e;
            Rule *pick = nullptr;
            for (auto &r : p->server->rules) if (ruleMatches(r, p->lastHead)) { pick = &r; break; }
            if (!pick) {
                hist("NORULE\t%d", c->id); probe("sim.norule");
                Step st; st.kind = ST_SEND; st.data = NORULE_RESPONSE; st.seg = SEG_WHOLE;
                peerSend(c, st); peerFin(c, true); procDone(p, "norule");
                return;
            }
            ++pick->uses; p->rule = pick; p->phase = Proc::INRULE; p->steps = &pick->steps; p->pc = 0;
            hist("RULE\t%d\t%s\t%d", c->id, pick->id.c_str(), pick->uses);
            continue;
        }
        if (p->pc >= p->steps->size()) {
            if (p->phase == Proc::CLIENT) { if (p->conn && !p->conn->peerClosed) peerFin(p->conn, true); procDone(p, "end"); return; }
            if (p->phase == Proc::ONACCEPT || p->phase == Proc::INRULE) {
                if (p->conn->peerClosed) { procDone(p, "closed"); return; }
                p->phase = Proc::WAITREQ; ++p->requestsSeen; continue;
            }
            return;
        }
        const Step &st = (*p->steps)[p->pc];
        bool blocked = false, fail = false; const char *why = "";
        switch (st.kind) {
        case ST_CONNECT: {
            SockEnt *l = nullptr;
            for (auto &kv : socks) if (kv.second->kind == SockEnt::LISTEN && kv.second->local.port == st.addr.port) { l = kv.second; break; }
            Conn *c = newConn('c', p->name, p->name);
            c->latLo = p->client->latLo; c->latHi = p->client->latHi; c->window = p->client->window;
            c->peerAddr = p->client->from; c->peerAddr.port = (uint16_t)nextEphemeral++;
            c->sqAddr = st.addr; c->proc = p; p->conn = c;
            hist("CONN\t%d\tc\t%s\t%s\t%s", c->id, p->name.c_str(), c->sqAddr.str().c_str(), c->peerAddr.str().c_str());
            if (!l) { hist("CONNFAIL\t%d\t%d", c->id, ECONNREFUSED); c->sqClosed = true; c->peerRst = true; fail = true; why = "connect-refused"; break; }
            int lfd = l->fd;
            at(nowUs() + connLat(c), [this, c, lfd] {
                SockEnt *ls = sock(lfd);
                if (!ls || ls->kind != SockEnt::LISTEN) { c->sqClosed = true; c->pbacklogRst = true; pumpPeerRead(c); return; }
                ls->backlog.push_back(c);
            });
            break;
        }
        case ST_SEND:
            if (!p->conn) { fail = true; why = "no-conn"; break; }
            if (!p->sendPending) { p->sendPending = true; peerSend(p->conn, st); }
            if (p->conn->poutOff < p->conn->pout.size()) blocked = true; else p->sendPending = false;
            break;
        case ST_EXPECT: {
            bool f = false;
            if (stepExpect(p, st, f)) break;
            if (f && st.soft) { hist("PSOFT\t%s\t%d\t%d", p->name.c_str(), p->conn ? p->conn->id : 0, st.line); break; }
            if (f) { fail = true; why = "expect-eof"; break; }
            blocked = true;
            break;
        }
        case ST_AWAIT: if (!flagSet(st.flag)) blocked = true; break;
        case ST_LABEL: setFlag(st.flag); break;
        case ST_WAIT:
            if (!p->timerArmed) { p->timerArmed = true; p->waitUntil = nowUs() + st.us; at(p->waitUntil, [this, p] { runProc(p); }); }
            if (nowUs() < p->waitUntil) { ++depth; --depth; return; }
            p->timerArmed = false;
            break;
        case ST_SHUTDOWN: if (p->conn) peerFin(p->conn, false); break;
        case ST_CLOSE: if (p->conn) peerFin(p->conn, true); break;
        case ST_RESET: if (p->conn) peerRst(p->conn); break;
        case ST_STALL: p->phase = Proc::PARKED; hist("PPARK\t%s\t%d", p->name.c_str(), p->conn ? p->conn->id : 0); if (p->client) { setFlag("done:" + p->name); checkClientsDone(); } return;
        case ST_READPACE: if (p->conn) { p->conn->readChunk = st.chunk; p->conn->readPaceUs = st.us; } break;
        case ST_READSTOP: if (p->conn) p->conn->readStopped = true; break;
        case ST_READRESUME: if (p->conn) { p->conn->readStopped = false; ++p->pc; pumpPeerRead(p->conn); continue; } break;
        case ST_NEXT: if (p->phase == Proc::INRULE || p->phase == Proc::ONACCEPT) { p->phase = Proc::WAITREQ; continue; } break;
        case ST_SIGNAL: hist("LIFE\tsignal\t%d", st.sig); raise(st.sig); break;
        case ST_SET: { size_t eq = st.flag.find('='); setVar(st.flag.substr(0, eq), st.flag.substr(eq + 1)); break; }
        }
        if (fail) {
            hist("PFAIL\t%s\t%d\t%d\t%s", p->name.c_str(), p->conn ? p->conn->id : 0, st.line, why);
            if (p->conn && !p->conn->peerClosed) peerFin(p->conn, true);
            procDone(p, "fail");
            return;
        }
        if (blocked) {
            uint64_t to = st.timeoutUs ? st.timeoutUs : g_scn.knobU("peer.expect_timeout_us", 0, DEFAULT_EXPECT_TIMEOUT_US);
            if (st.kind == ST_SEND) return; // sends block only on flow control
            if (!p->blockDeadline) { p->blockDeadline = nowUs() + to; at(p->blockDeadline, [this, p] { runProc(p); }); }
            else if (nowUs() >= p->blockDeadline && st.soft) {
                hist("PSOFT\t%s\t%d\t%d", p->name.c_str(), p->conn ? p->conn->id : 0, st.line);
                p->blockDeadline = 0; p->exStage = 0; ++p->pc;
                at(nowUs(), [this, p] { runProc(p); });
            }
            else if (nowUs() >= p->blockDeadline) {
                hist("PFAIL\t%s\t%d\t%d\ttimeout", p->name.c_str(), p->conn ? p->conn->id : 0, st.line);
                probe("peer.timeout");
                if (p->conn && !p->conn->peerClosed) peerFin(p->conn, true);
                procDone(p, "timeout");
            }
            return;
        }
        p->blockDeadline = 0;
        if (st.kind == ST_EXPECT) hist("PEXP\t%s\t%d\t%d", p->name.c_str(), p->conn ? p->conn->id : 0, st.line);
        ++p->pc;
    }
}

// ---------------------------------------------------------------------------------- helpers
int Net::attachHelper(const std::string &name, const std::string &token)
{
    SockEnt *A = nullptr;
    if (pendingPair[0] >= 0) { A = sock(pendingPair[0]); pendingPair[0] = pendingPair[1] = -1; pendingPipes.clear(); }
    else if (pendingPipes.size() >= 2) { // IPC_FIFO: parent reads pipe1[0], writes pipe2[1]
        auto p1 = pendingPipes[pendingPipes.size() - 2], p2 = pendingPipes.back();
        pendingPipes.clear();
        A = sock(p1.first); SockEnt *W = sock(p2.second);
        if (!A || !W) return -1;
        Conn *pc = newConn('h', "pipe", "helper");
        pc->latLo = 5; pc->latHi = 50; pc->window = 1ULL << 30;
        A->kind = SockEnt::CONN; A->conn = pc; pc->sq = A;
        W->kind = SockEnt::CONN; W->conn = pc;
    }
    HelperSpec *spec = nullptr;
    for (auto &h : g_scn.helpers) if (h.token == token) spec = &h;
    if (!spec && token != "unlinkd") { hist("HELPER-UNKNOWN\t%s\t%s", name.c_str(), token.c_str()); return -1; }
    if ((!A || !A->conn) && ipcListenFd >= 0) { // IPC_TCP_SOCKET: the parent will connect() to the listener's address next
        SockEnt *L = sock(ipcListenFd); ipcListenFd = -1;
        if (!L) return -1;
        tcpHelper.name = name; tcpHelper.token = token; tcpHelper.pid = nextPid++; tcpHelper.port = L->local.port; tcpHelper.armed = true;
        return tcpHelper.pid;
    }
    if (!A || !A->conn) return -1;
    Conn *c = A->conn;
    Proc *p = makeHelperProc(c, name, token, nextPid++);
    return p->helperPid;
}

Proc *Net::makeHelperProc(Conn *c, const std::string &name, const std::string &token, int pid)
{
    HelperSpec *spec = nullptr;
    for (auto &h : g_scn.helpers) if (h.token == token) spec = &h;
    int n = spec ? ++spec->spawned : 1;
    c->label = "helper:" + token + "#" + std::to_string(n); c->rng.seed(hashStr(g_scn.seed, c->label)); c->peerName = token;
    Proc *p = new Proc; p->id = (int)procs.size() + 1; p->name = token; p->conn = c; p->helper = spec; p->phase = Proc::HELPER; p->helperPid = pid;
    c->proc = p; procs.push_back(p);
    c->srx += "hi there\n";
    hist("CONN\t%d\th\t%s\t%s\t%d\t%d", c->id, token.c_str(), name.c_str(), c->sq ? c->sq->fd : -1, p->helperPid);
    return p;
}

void Net::helperInput(Proc *p)
{
    Conn *c = p->conn;
    for (;;) {
        size_t e = c->prx.find('\n', c->prxOff);
        if (e == std::string::npos) break;
        std::string line = c->prx.substr(c->prxOff, e - c->prxOff);
        c->prxOff = e + 1;
        ++p->requestsSeen;
        if (p->name == "unlinkd") {
            int r = __real_unlink(line.c_str());
            hist("FILE\tunlinkd\t%s\t-\t-\t%d", line.compare(0, g_scn.rundir.size(), g_scn.rundir) == 0 ? line.c_str() + g_scn.rundir.size() : line.c_str(), r);
            Step st; st.kind = ST_SEND; st.data = "OK\n"; st.seg = SEG_WHOLE; peerSend(c, st);
            continue;
        }
        HelperSpec *h = p->helper;
        std::string chan, payload = line;
        if (h->concurrency > 0) { size_t sp = line.find(' '); chan = line.substr(0, sp); payload = sp == std::string::npos ? "" : line.substr(sp + 1); }
        Rule *pick = nullptr;
        const std::string subject = payload + "\n"; // the terminator is part of what a rule sees, so a rule can anchor at the end of the line
        for (auto &r : h->rules) if (ruleMatches(r, subject)) { pick = &r; break; }
        if (pick) ++pick->uses;
        hist("HREQ\t%d\t%s\t%s\t%s", c->id, chan.empty() ? "-" : chan.c_str(), pick ? pick->id.c_str() : "-", histBlob(line.data(), line.size()).c_str());
        std::string reply = pick ? pick->reply : std::string("BH message=\"sim-norule\"");
        std::string mode = pick ? pick->chan : "same";
        if (mode == "none") { probe("helper.noreply"); continue; }
        std::string outChan = chan;
        if (mode == "unknown") { outChan = std::to_string(atoi(chan.c_str()) + 1000); probe("fault.helper.unknown_channel"); }
        std::string wire = (h->concurrency > 0 ? outChan + " " : std::string()) + reply + "\n";
        if (mode == "unknown") wire += (h->concurrency > 0 ? chan + " " : std::string()) + reply + "\n"; // then the real answer
        if (mode == "dup") { wire += wire; probe("fault.helper.dup_reply"); }
        uint64_t delay = pick ? pick->delayUs : 0, frag = pick ? pick->frag : 0;
        at(nowUs() + delay, [this, c, wire, frag] {
            if (c->peerClosed) return;
            Step st; st.kind = ST_SEND; st.data = wire; st.seg = frag ? SEG_RAND : SEG_WHOLE; st.segMax = frag;
            hist("HRPL\t%d\t%s", c->id, histBlob(wire.data(), wire.size()).c_str());
            peerSend(c, st);
        });
        if (h->dieAfter && p->requestsSeen >= h->dieAfterN) { probe("fault.helper.die"); at(nowUs() + delay + 1, [this, c, p] { peerFin(c, true); procDone(p, "helper-died"); }); return; }
    }
    if ((c->peerEof || c->peerRst) && p->phase != Proc::DONE) { if (!c->peerClosed) peerFin(c, true); procDone(p, "helper-eof"); }
}

// ---------------------------------------------------------------------------------- UDP / DNS
ssize_t Net::udpSend(SockEnt *s, const void *buf, size_t n, const Addr &to)
{
    hist("UDPS\t%d\t%s\t%s", s->fd, to.str().c_str(), histBlob(buf, n).c_str());
    for (auto &d : g_scn.dns) if (d.addr.sameIp(to) && to.port == 53) { dnsQuery(s, Bytes((const char *)buf, n), to, d); break; }
    return (ssize_t)n;
}

void Net::dnsQuery(SockEnt *s, const Bytes &q, const Addr &to, DnsSpec &d)
{
    if (q.size() < 17) return;
    std::string name; size_t i = 12;
    while (i < q.size() && q[i]) { unsigned l = (unsigned char)q[i]; if (l > 63 || i + 1 + l > q.size()) return; if (!name.empty()) name += '.'; name.append(q, i + 1, l); i += 1 + l; }
    if (i + 5 > q.size()) return;
    size_t qend = i + 5;
    int qtype = ((unsigned char)q[i + 1] << 8) | (unsigned char)q[i + 2];
    for (auto &ch : name) ch = (char)tolower((unsigned char)ch);
    Rule *pick = nullptr;
    for (auto &r : d.rules) if (r.qname == name && (r.qtype == 0 || r.qtype == qtype) && (r.maxUses < 0 || r.uses < r.maxUses)) { pick = &r; break; }
    if (pick) ++pick->uses;
    hist("DNSQ\t%s\t%d\t%s", name.c_str(), qtype, pick ? pick->id.c_str() : "-");
    if (pick && pick->drop) { probe("fault.dns.drop"); return; }
    Bytes resp;
    if (pick && !pick->builtin) { resp = pick->reply; if (resp.size() >= 2) { resp[0] = q[0]; resp[1] = q[1]; } }
    else {
        int rcode = pick ? pick->rcode : 3;
        std::vector<Addr> ans;
        if (pick) for (auto &a : pick->addrs) if ((qtype == 1 && a.family == AF_INET) || (qtype == 28 && a.family == AF_INET6)) ans.push_back(a);
        bool tc = pick && pick->tc;
        resp.assign(q, 0, 2);
        resp += (char)(0x81 | (tc ? 0x02 : 0)); resp += (char)(0x80 | rcode);
        resp += (char)0; resp += (char)1; resp += (char)0; resp += (char)(tc ? 0 : ans.size());
        resp.append(4, (char)0);
        resp.append(q, 12, qend - 12);
        uint32_t ttl = (uint32_t)g_scn.knobU("dns.ttl", 0, 3600);
        if (!tc) for (auto &a : ans) {
            resp += (char)0xc0; resp += (char)0x0c; resp += (char)0; resp += (char)qtype; resp += (char)0; resp += (char)1;
            resp += (char)(ttl >> 24); resp += (char)(ttl >> 16); resp += (char)(ttl >> 8); resp += (char)ttl;
            unsigned l = a.family == AF_INET ? 4 : 16; resp += (char)0; resp += (char)l; resp.append((const char *)a.ip, l);
        }
    }
    if (pick && pick->badid && resp.size() >= 2) { resp[0] ^= 0x55; probe("fault.dns.badid"); }
    int fd = s->fd; int dup = pick ? pick->dup : 1; uint64_t delay = pick ? pick->delayUs : 0;
    Rng r; r.seed(hashStr(g_scn.seed, "dns:" + name + std::to_string(qtype) + std::to_string(pick ? pick->uses : 0)));
    for (int k = 0; k < dup; ++k) {
        uint64_t t = nowUs() + delay + r.range(d.latLo, d.latHi);
        Addr from = to;
        at(t, [this, fd, from, resp] {
            SockEnt *u = sock(fd);
            if (!u || u->kind != SockEnt::UDP) return;
            u->dgrams.push_back(Dgram{from, resp});
            hist("DNSA\t%d\t%s", fd, histBlob(resp.data(), resp.size()).c_str());
        });
        if (k) probe("fault.dns.dup");
    }
}

} // namespace vsim
