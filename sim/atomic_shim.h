// Force-included (-include) into every C++ unit of simsquid: substitutes a scheduler-aware std::atomic.
// See DESIGN.md §3.1 (atomics seam). With no hook installed the cost is one predictable branch.
#ifndef VERIF_ATOMIC_SHIM_H
#define VERIF_ATOMIC_SHIM_H
#ifdef __cplusplus
// every libstdc++ header that mentions the identifier 'atomic' must be included before the macro below
#include <atomic>
#include <memory>
#include <string>
#include <functional>
#include <mutex>
#include <condition_variable>
#include <future>
#include <thread>
#include <ext/atomicity.h>
#include <ext/concurrence.h>

namespace vsim {
extern void (*g_yieldHook)(const void *addr, int kind); // kind: 0 before a load, 1 before a store, 2 before a read-modify-write, 3 after a store/rmw (the new value is visible, the plain code that follows has not run yet)
inline void yieldPoint(const void *a, int k) { if (__builtin_expect(g_yieldHook != nullptr, 0)) g_yieldHook(a, k); }
}

namespace std {

template <class T>
struct sim_atomic {
    atomic<T> v;
    sim_atomic() noexcept = default;
    constexpr sim_atomic(T d) noexcept : v(d) {}
    sim_atomic(const sim_atomic &) = delete;
    sim_atomic &operator=(const sim_atomic &) = delete;

    static constexpr bool is_always_lock_free = atomic<T>::is_always_lock_free;
    bool is_lock_free() const noexcept { return v.is_lock_free(); }

    operator T() const noexcept { vsim::yieldPoint(this, 0); return v.load(); }
    T operator=(T d) noexcept { vsim::yieldPoint(this, 1); v.store(d); vsim::yieldPoint(this, 3); return d; }
    T load(memory_order m = memory_order_seq_cst) const noexcept { vsim::yieldPoint(this, 0); return v.load(m); }
    void store(T d, memory_order m = memory_order_seq_cst) noexcept { vsim::yieldPoint(this, 1); v.store(d, m); vsim::yieldPoint(this, 3); }
    T exchange(T d, memory_order m = memory_order_seq_cst) noexcept { vsim::yieldPoint(this, 2); auto r_ = (v.exchange(d, m)); vsim::yieldPoint(this, 3); return r_; }
    bool compare_exchange_weak(T &e, T d, memory_order s = memory_order_seq_cst) noexcept { vsim::yieldPoint(this, 2); auto r_ = (v.compare_exchange_strong(e, d, s)); vsim::yieldPoint(this, 3); return r_; }
    bool compare_exchange_weak(T &e, T d, memory_order s, memory_order f) noexcept { vsim::yieldPoint(this, 2); auto r_ = (v.compare_exchange_strong(e, d, s, f)); vsim::yieldPoint(this, 3); return r_; }
    bool compare_exchange_strong(T &e, T d, memory_order s = memory_order_seq_cst) noexcept { vsim::yieldPoint(this, 2); auto r_ = (v.compare_exchange_strong(e, d, s)); vsim::yieldPoint(this, 3); return r_; }
    bool compare_exchange_strong(T &e, T d, memory_order s, memory_order f) noexcept { vsim::yieldPoint(this, 2); auto r_ = (v.compare_exchange_strong(e, d, s, f)); vsim::yieldPoint(this, 3); return r_; }

    // arithmetic members exist only where the underlying atomic<U> has them (SFINAE on a dependent U)
    template <class U = T> auto fetch_add(U d, memory_order m = memory_order_seq_cst) noexcept -> decltype(std::declval<atomic<U>&>().fetch_add(d, m)) { vsim::yieldPoint(this, 2); auto r_ = (v.fetch_add(d, m)); vsim::yieldPoint(this, 3); return r_; }
    template <class U = T> auto fetch_sub(U d, memory_order m = memory_order_seq_cst) noexcept -> decltype(std::declval<atomic<U>&>().fetch_sub(d, m)) { vsim::yieldPoint(this, 2); auto r_ = (v.fetch_sub(d, m)); vsim::yieldPoint(this, 3); return r_; }
    template <class U = T> auto fetch_and(U d, memory_order m = memory_order_seq_cst) noexcept -> decltype(std::declval<atomic<U>&>().fetch_and(d, m)) { vsim::yieldPoint(this, 2); auto r_ = (v.fetch_and(d, m)); vsim::yieldPoint(this, 3); return r_; }
    template <class U = T> auto fetch_or(U d, memory_order m = memory_order_seq_cst) noexcept -> decltype(std::declval<atomic<U>&>().fetch_or(d, m)) { vsim::yieldPoint(this, 2); auto r_ = (v.fetch_or(d, m)); vsim::yieldPoint(this, 3); return r_; }
    template <class U = T> auto fetch_xor(U d, memory_order m = memory_order_seq_cst) noexcept -> decltype(std::declval<atomic<U>&>().fetch_xor(d, m)) { vsim::yieldPoint(this, 2); auto r_ = (v.fetch_xor(d, m)); vsim::yieldPoint(this, 3); return r_; }
    template <class U = T> auto operator++() noexcept -> decltype(++std::declval<atomic<U>&>()) { vsim::yieldPoint(this, 2); auto r_ = (++v); vsim::yieldPoint(this, 3); return r_; }
    template <class U = T> auto operator++(int) noexcept -> decltype(std::declval<atomic<U>&>()++) { vsim::yieldPoint(this, 2); auto r_ = (v++); vsim::yieldPoint(this, 3); return r_; }
    template <class U = T> auto operator--() noexcept -> decltype(--std::declval<atomic<U>&>()) { vsim::yieldPoint(this, 2); auto r_ = (--v); vsim::yieldPoint(this, 3); return r_; }
    template <class U = T> auto operator--(int) noexcept -> decltype(std::declval<atomic<U>&>()--) { vsim::yieldPoint(this, 2); auto r_ = (v--); vsim::yieldPoint(this, 3); return r_; }
    template <class U = T> auto operator+=(U d) noexcept -> decltype(std::declval<atomic<U>&>() += d) { vsim::yieldPoint(this, 2); auto r_ = (v += d); vsim::yieldPoint(this, 3); return r_; }
    template <class U = T> auto operator-=(U d) noexcept -> decltype(std::declval<atomic<U>&>() -= d) { vsim::yieldPoint(this, 2); auto r_ = (v -= d); vsim::yieldPoint(this, 3); return r_; }
    template <class U = T> auto operator&=(U d) noexcept -> decltype(std::declval<atomic<U>&>() &= d) { vsim::yieldPoint(this, 2); auto r_ = (v &= d); vsim::yieldPoint(this, 3); return r_; }
    template <class U = T> auto operator|=(U d) noexcept -> decltype(std::declval<atomic<U>&>() |= d) { vsim::yieldPoint(this, 2); auto r_ = (v |= d); vsim::yieldPoint(this, 3); return r_; }
    template <class U = T> auto operator^=(U d) noexcept -> decltype(std::declval<atomic<U>&>() ^= d) { vsim::yieldPoint(this, 2); auto r_ = (v ^= d); vsim::yieldPoint(this, 3); return r_; }
};

struct sim_atomic_flag {
    atomic_flag f;
    sim_atomic_flag() noexcept = default;
    constexpr sim_atomic_flag(bool) noexcept : f() {}
    sim_atomic_flag(const sim_atomic_flag &) = delete;
    sim_atomic_flag &operator=(const sim_atomic_flag &) = delete;
    bool test_and_set(memory_order m = memory_order_seq_cst) noexcept { vsim::yieldPoint(this, 2); auto r_ = (f.test_and_set(m)); vsim::yieldPoint(this, 3); return r_; }
    void clear(memory_order m = memory_order_seq_cst) noexcept { vsim::yieldPoint(this, 1); f.clear(m); vsim::yieldPoint(this, 3); }
};

} // namespace std

#define atomic sim_atomic
#define atomic_flag sim_atomic_flag
#endif /* __cplusplus */
#endif
