// C56: the real Ipc::OneToOneUniQueue + Ipc::QueueReader under the seeded scheduler (DESIGN.md §4, engine S).
//
// Task 0 is the consumer (its operation list is the single token "consume"); tasks 1..n are producers, producer i owns queue i-1;
// all queues share one QueueReader exactly as the queues of one BaseMultiQueue reader do.
// case parameters: qcap=<queue capacity 1..4>
// producer operations:  p  push the next unique item, notify the consumer iff push() says so (Full: come back later, bounded)
//                       y  pause (a harness-level yield point)
// Consumer protocol (Queue.h / property statement): pop until every queue is empty, then idle until a notification arrives,
// clearSignal(), repeat. The notification channel is a counter (a notification is "in flight" until the consumer handles it).
#include "squid.h"
#include "ipc/Queue.h"
#include "shm_sched.h"

#include <cstdlib>

namespace shm {

class QueueHarness: public Harness
{
public:
    struct Item { uint32_t v; };

    ~QueueHarness() override {
        if (reader_) reader_->~QueueReader();
        free(readerMem_);
        for (auto m : qmem_) free(m);
    }

    void setup(const CaseSpec &spec, Sched &s) override {
        spec_ = &spec;
        s_ = &s;
        qcap_ = static_cast<int>(std::min(8L, std::max(1L, spec.num("qcap", 2))));
        nq_ = static_cast<int>(spec.tasks.size()) - 1;
        readerMem_ = calloc(1, sizeof(Ipc::QueueReader) + 64);
        reader_ = new (readerMem_) Ipc::QueueReader;
        qbytes_ = static_cast<size_t>(Ipc::OneToOneUniQueue::Items2Bytes(sizeof(Item), qcap_));
        for (int q = 0; q < nq_; ++q) {
            void *m = calloc(1, qbytes_ + 64);
            qmem_.push_back(m);
            queues_.push_back(new (m) Ipc::OneToOneUniQueue(sizeof(Item), qcap_));
        }
        pushInvoked_.assign(static_cast<size_t>(std::max(nq_, 0)), 0);
        pushReturned_.assign(pushInvoked_.size(), 0);
        consumed_.assign(pushInvoked_.size(), 0);
        notes_ = 0;
        consumerIdleFinal_ = false;
    }

    void runTask(int t) override {
        if (t == 0) consumer();
        else producer(t);
    }

    void afterStep(int) override {}

    uint64_t stateHash() override {
        uint64_t h = reader_->blocked() ? 3 : 5;
        h = mix64(h, reader_->signaled() ? 7 : 11);
        h = mix64(h, static_cast<uint64_t>(notes_));
        for (int q = 0; q < nq_; ++q) h = hashBytes(qmem_[static_cast<size_t>(q)], qbytes_, h);
        return h;
    }

    void finish(bool quiescent) override {
        if (!quiescent || nq_ <= 0) return;
        vsim::probe("c56.quiescent_checks");
        // every producer finished, every notification it was asked to send has been handled, the consumer went idle for good
        for (int q = 0; q < nq_; ++q) {
            const size_t i = static_cast<size_t>(q);
            if (consumed_[i] == pushReturned_[i]) continue;
            if (queues_[i]->size() > 0)
                s_->viol("lost-wakeup", "queue %d: the consumer sleeps with %d item(s) queued (%u pushed, %u consumed), no notification is pending or "
                         "in flight and no push will ever request one", q, queues_[i]->size(), pushReturned_[i], consumed_[i]);
            else
                s_->viol("lost-item", "queue %d: %u items were pushed but only %u consumed and the queue is empty", q, pushReturned_[i], consumed_[i]);
            return;
        }
    }

    unsigned yieldsPerOp() const override { return 6; }

private:
    void producer(int t) {
        const size_t q = static_cast<size_t>(t - 1);
        const auto &ops = spec_->tasks[static_cast<size_t>(t)];
        for (size_t i = 0; i < ops.size(); ++i) {
            if (s_->violated()) return;
            if (ops[i][0] == 'y') { s_->yieldNow(false); continue; }
            if (ops[i][0] != 'p') continue;
            Item item;
            item.v = (static_cast<uint32_t>(t) << 16) | pushInvoked_[q];
            int patience = 40;
            for (;;) {
                bool notify = false;
                bool full = false;
                const uint32_t invokedBefore = pushInvoked_[q];
                pushInvoked_[q] = invokedBefore + 1; // the item may become visible to the consumer any time from now on
                try {
                    notify = queues_[q]->push(item, reader_);
                } catch (const Ipc::OneToOneUniQueue::Full &) {
                    full = true;
                }
                if (!full) {
                    ++pushReturned_[q];
                    vsim::probe("c56.push_ok");
                    if (notify) { ++notes_; vsim::probe("c56.notifications"); }
                    break;
                }
                pushInvoked_[q] = invokedBefore;
                vsim::probe("c56.push_full");
                if (--patience <= 0 || s_->taskGone(0)) { vsim::probe("c56.push_abandoned"); return; }
                s_->yieldNow(true);
            }
        }
    }

    /// pop round-robin until every queue reported "empty" in a row (BaseMultiQueue::pop() called until it returns false)
    void drain() {
        int misses = 0, q = 0;
        if (nq_ <= 0) return;
        while (misses < nq_) {
            if (s_->violated()) return;
            Item item;
            item.v = 0;
            const size_t i = static_cast<size_t>(q);
            if (queues_[i]->pop(item, reader_)) {
                misses = 0;
                vsim::probe("c56.pop_ok");
                const uint32_t expect = (static_cast<uint32_t>(q + 1) << 16) | consumed_[i];
                if (item.v != expect || consumed_[i] >= pushInvoked_[i]) {
                    s_->viol("fifo-violation", "queue %d: popped item %#x, expected %#x (items pushed so far: %u, consumed before: %u)", q, item.v, expect,
                             pushInvoked_[i], consumed_[i]);
                    return;
                }
                ++consumed_[i];
            } else {
                ++misses;
                vsim::probe("c56.pop_empty");
            }
            q = (q + 1) % nq_;
        }
    }

    void consumer() {
        drain();
        for (;;) {
            if (s_->violated()) return;
            if (notes_ > 0) {
                --notes_;
                vsim::probe("c56.wakeups");
                reader_->clearSignal();
                drain();
                continue;
            }
            if (s_->othersGone(0)) break; // nobody is left to push or notify: the consumer would sleep for ever
            vsim::probe("c56.consumer_idle");
            s_->yieldNow(true);
        }
        consumerIdleFinal_ = true;
    }

    const CaseSpec *spec_ = nullptr;
    Sched *s_ = nullptr;
    int qcap_ = 2, nq_ = 1;
    size_t qbytes_ = 0;
    void *readerMem_ = nullptr;
    Ipc::QueueReader *reader_ = nullptr;
    std::vector<void *> qmem_;
    std::vector<Ipc::OneToOneUniQueue *> queues_;
    std::vector<uint32_t> pushInvoked_, pushReturned_, consumed_;
    int notes_ = 0; ///< notifications sent and not yet handled by the consumer
    bool consumerIdleFinal_ = false;
};

static Harness *makeQueue() { return new QueueHarness; }
static const bool registeredQ = (registerStructure("queue", &makeQueue), true);

} // namespace shm
