// C54: the real Ipc::ReadWriteLock under the seeded scheduler (DESIGN.md §4, engine S).
//
// case parameters: locks=<1..3>
// operations (letter + lock index); an operation whose precondition does not hold for the calling task is skipped:
//   S lockShared          s unlockShared            (needs a plain shared lock held by this task)
//   X lockExclusive       x unlockExclusive         (needs the exclusive lock, any mode)
//   H lockHeaders         h unlockHeaders           (needs the headers lock)
//   D switchExclusiveToShared                        (needs the exclusive lock)
//   U unlockSharedAndSwitchToExclusive               (needs a plain shared lock)
//   A startAppending                                 (needs the exclusive lock, not appending)
//   Z stopAppendingAndRestoreExclusive               (needs the exclusive lock in appending mode)
// Holder bookkeeping: acquisitions are recorded when the successful call returns, releases when the releasing call is invoked
// (both are the conservative side for a mutual exclusion check). Lock attempts may always fail (try-locks).
#include "squid.h"
#include "ipc/ReadWriteLock.h"
#include "shm_sched.h"

#include <cstdlib>

namespace shm {

class RwLockHarness: public Harness
{
public:
    enum Mode { None = 0, Excl = 1, Appending = 2, Limbo = 3 }; // Limbo: stopAppendingAndRestoreExclusive() returned false

    ~RwLockHarness() override {
        for (int i = 0; i < nLocks_; ++i) lock(i).~ReadWriteLock();
        free(mem_);
    }

    void setup(const CaseSpec &spec, Sched &s) override {
        spec_ = &spec;
        s_ = &s;
        nLocks_ = static_cast<int>(std::min(3L, std::max(1L, spec.num("locks", 1))));
        mem_ = static_cast<char *>(calloc(static_cast<size_t>(nLocks_), Stride));
        for (int i = 0; i < nLocks_; ++i) new (mem_ + i * Stride) Ipc::ReadWriteLock;
        memset(st_, 0, sizeof(st_));
    }

    void runTask(int t) override {
        const auto &ops = spec_->tasks[t];
        for (size_t i = 0; i < ops.size(); ++i) {
            if (s_->violated()) return;
            const char op = ops[i][0];
            const int l = static_cast<int>(static_cast<unsigned>(atoi(ops[i].c_str() + 1)) % static_cast<unsigned>(nLocks_));
            Ipc::ReadWriteLock &lk = lock(l);
            Holder &me = st_[t][l];
            const int plainShared = me.shared - (me.headers ? 1 : 0);
            switch (op) {
            case 'S':
                if (lk.lockShared()) { ++me.shared; vsim::probe("c54.shared_ok"); check(l, "lockShared returned true"); }
                else vsim::probe("c54.trylock_failed");
                break;
            case 'X':
                if (lk.lockExclusive()) { me.mode = Excl; vsim::probe("c54.exclusive_ok"); check(l, "lockExclusive returned true"); }
                else vsim::probe("c54.trylock_failed");
                break;
            case 'H':
                if (lk.lockHeaders()) { ++me.shared; me.headers = true; vsim::probe("c54.headers_ok"); check(l, "lockHeaders returned true"); }
                else vsim::probe("c54.trylock_failed");
                break;
            case 's':
                if (plainShared <= 0) break;
                --me.shared;
                lk.unlockShared();
                break;
            case 'x':
                if (me.mode == None) break;
                me.mode = None;
                lk.unlockExclusive();
                break;
            case 'h':
                if (!me.headers) break;
                me.headers = false; --me.shared;
                lk.unlockHeaders();
                break;
            case 'D':
                if (me.mode == None) break;
                me.mode = None;
                lk.switchExclusiveToShared();
                ++me.shared;
                vsim::probe("c54.switched_to_shared");
                check(l, "switchExclusiveToShared returned");
                break;
            case 'U':
                if (plainShared <= 0) break;
                --me.shared;
                if (lk.unlockSharedAndSwitchToExclusive()) { me.mode = Excl; vsim::probe("c54.switched_to_exclusive"); check(l, "unlockSharedAndSwitchToExclusive returned true"); }
                else vsim::probe("c54.trylock_failed");
                break;
            case 'A':
                if (me.mode != Excl && me.mode != Limbo) break;
                me.mode = Appending;
                lk.startAppending();
                vsim::probe("c54.appending");
                break;
            case 'Z':
                if (me.mode != Appending) break;
                if (lk.stopAppendingAndRestoreExclusive()) { me.mode = Excl; vsim::probe("c54.stop_appending_true"); check(l, "stopAppendingAndRestoreExclusive returned true"); }
                else { me.mode = Limbo; vsim::probe("c54.stop_appending_false"); }
                break;
            default:
                break;
            }
        }
    }

    void afterStep(int) override {
        for (int l = 0; l < nLocks_; ++l) check(l, "after step");
    }

    uint64_t stateHash() override { return hashBytes(mem_, static_cast<size_t>(nLocks_) * Stride); }

    void finish(bool quiescent) override {
        if (!quiescent) return;
        vsim::probe("c54.quiescent_checks");
        const int n = static_cast<int>(spec_->tasks.size());
        for (int l = 0; l < nLocks_; ++l) {
            Ipc::ReadWriteLock &lk = lock(l);
            for (int t = 0; t < n; ++t) {
                Holder &h = st_[t][l];
                if (h.headers) { lk.unlockHeaders(); h.headers = false; --h.shared; }
                while (h.shared > 0) { lk.unlockShared(); --h.shared; }
                if (h.mode != None) { lk.unlockExclusive(); h.mode = None; }
            }
            if (lk.readers != 0 || lk.writing || lk.appending) {
                s_->viol("not-idle-at-quiescence", "lock %d after every holder released: readers=%u writing=%d appending=%d", l,
                         static_cast<unsigned>(lk.readers), static_cast<int>(lk.writing), static_cast<int>(lk.appending));
                return;
            }
            if (!lk.lockExclusive()) {
                s_->viol("not-idle-at-quiescence", "lock %d: lockExclusive() fails after every holder released", l);
                return;
            }
            lk.unlockExclusive();
            if (!lk.lockHeaders()) {
                s_->viol("not-idle-at-quiescence", "lock %d: lockHeaders() fails after every holder released", l);
                return;
            }
            lk.unlockHeaders();
            if (!lk.lockExclusive()) {
                s_->viol("not-idle-at-quiescence", "lock %d: lockExclusive() fails after a shared lock/unlock cycle", l);
                return;
            }
            lk.unlockExclusive();
        }
    }

    unsigned yieldsPerOp() const override { return 3; }

private:
    struct Holder { int mode; int shared; bool headers; };
    static const size_t Stride = 64;

    Ipc::ReadWriteLock &lock(int i) { return *reinterpret_cast<Ipc::ReadWriteLock *>(mem_ + i * Stride); }

    void check(int l, const char *when) {
        if (s_->violated()) return;
        const int n = static_cast<int>(spec_->tasks.size());
        int excl = 0, shared = 0, headers = 0, exclTask = -1, mode = None;
        for (int t = 0; t < n; ++t) {
            const Holder &h = st_[t][l];
            if (h.mode != None) { ++excl; exclTask = t; mode = h.mode; }
            shared += h.shared;
            headers += h.headers ? 1 : 0;
        }
        if (excl > 1)
            s_->viol("two-exclusive-holders", "lock %d has %d exclusive holders (%s)", l, excl, when);
        else if (excl == 1 && mode == Excl && shared > 0)
            s_->viol("exclusive-with-shared", "lock %d: task %d holds it exclusively (not appending) together with %d shared holder(s) (%s)", l, exclTask, shared, when);
        else if (headers > 1)
            s_->viol("two-header-updaters", "lock %d has %d header updaters (%s)", l, headers, when);
    }

    static_assert(sizeof(Ipc::ReadWriteLock) <= Stride, "stride");

    const CaseSpec *spec_ = nullptr;
    Sched *s_ = nullptr;
    char *mem_ = nullptr;
    int nLocks_ = 1;
    Holder st_[Sched::MaxTasks][3];
};

static Harness *makeRwLock() { return new RwLockHarness; }
static const bool registeredRw = (registerStructure("rwlock", &makeRwLock), true);

} // namespace shm
