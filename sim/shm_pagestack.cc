// C53: the real Ipc::Mem::PageStack under the seeded scheduler (DESIGN.md §4, engine S).
//
// case parameters: cap=<pages> free=<pages left in the stack at start> own=<pages handed to every task at start>
// operations:      o      pop a page
//                  u<i>   push the (i mod n)-th of the n pages this task currently owns (skipped when it owns none)
#include "squid.h"
#include "ipc/mem/Page.h"
#include "ipc/mem/PageStack.h"
#include "shm_sched.h"

#include <cstdlib>

namespace shm {

class PageStackHarness: public Harness
{
public:
    enum { Free = -1, Kept = -2, Pending = -3 }; // owner codes; >= 0: task index

    ~PageStackHarness() override {
        if (ps_) ps_->~PageStack();
        free(mem_);
    }

    void setup(const CaseSpec &spec, Sched &s) override {
        spec_ = &spec;
        s_ = &s;
        cap_ = static_cast<unsigned>(std::max(1L, spec.num("cap", 4)));
        Ipc::Mem::PageStack::Config cfg;
        memset(static_cast<void *>(&cfg), 0, sizeof(cfg)); // padding bytes are copied into the (hashed) PageStack
        cfg.poolId = PoolId;
        cfg.pageSize = 0;
        cfg.capacity = cap_;
        cfg.createFull = true;
        memSize_ = Ipc::Mem::PageStack::SharedMemorySize(cfg) + 64;
        mem_ = calloc(1, memSize_);
        ps_ = new (mem_) Ipc::Mem::PageStack(cfg);
        hashSize_ = Ipc::Mem::PageStack::StackSize(cap_);
        owner_.assign(cap_ + 1, Free);
        const int nTasks = static_cast<int>(spec.tasks.size());
        owned_.assign(nTasks, std::vector<uint32_t>());
        long freeAtStart = std::min<long>(cap_, std::max(0L, spec.num("free", cap_)));
        const long own = std::max(0L, spec.num("own", 0));
        // take cap-free pages out (no scheduling yet: the hook ignores the main context)
        std::vector<uint32_t> taken;
        for (long i = 0; i < static_cast<long>(cap_) - freeAtStart; ++i) {
            Ipc::Mem::PageId p;
            if (!ps_->pop(p)) break;
            owner_[p.number] = Kept;
            taken.push_back(p.number);
        }
        // distribute `own` of them to every task, chosen by the case seed so that they spread over the leaves
        vsim::Rng r;
        r.seed(mix64(spec.seed + static_cast<uint64_t>(spec.rep), 0xa110c));
        for (int t = 0; t < nTasks; ++t)
            for (long k = 0; k < own && !taken.empty(); ++k) {
                const size_t idx = static_cast<size_t>(r.range(0, taken.size() - 1));
                const uint32_t n = taken[idx];
                taken.erase(taken.begin() + static_cast<long>(idx));
                owner_[n] = t;
                owned_[t].push_back(n);
            }
        tokens_ = 0;
        for (unsigned n = 1; n <= cap_; ++n)
            if (owner_[n] == Free) ++tokens_;
        inflight_ = 0;
        for (auto &p : pops_) p.active = false;
    }

    void runTask(int t) override {
        const auto &ops = spec_->tasks[t];
        for (size_t i = 0; i < ops.size(); ++i) {
            if (s_->violated()) return;
            const std::string &op = ops[i];
            if (op[0] == 'o') {
                Ipc::Mem::PageId page;
                pops_[t].active = true;
                ++inflight_;
                pops_[t].minCert = certainFor(true);
                noteEvent();
                const bool ok = ps_->pop(page);
                // (the code below runs in the same step as pop()'s last atomic operation)
                pops_[t].active = false;
                --inflight_;
                if (ok) {
                    --tokens_;
                    vsim::probe("c53.pop_ok");
                    if (page.pool != PoolId || page.number < 1 || page.number > cap_) {
                        s_->viol("invalid-page", "pop() returned page pool=%u number=%u of a stack with %u pages", page.pool, page.number, cap_);
                        return;
                    }
                    const int o = owner_[page.number];
                    if (o != Free && o != Pending) {
                        s_->viol("double-alloc", "pop() by task %d returned page %u which is owned by %s %d", t, page.number, o == Kept ? "the harness" : "task", o);
                        return;
                    }
                    if (o == Pending) vsim::probe("c53.pop_of_page_being_pushed");
                    owner_[page.number] = t;
                    owned_[t].push_back(page.number);
                } else {
                    vsim::probe("c53.pop_fail");
                    if (pops_[t].minCert >= 1) {
                        s_->viol("spurious-pop-failure", "pop() by task %d failed although at every instant of the call at least %ld released page(s) "
                                 "were not claimed by any other allocation", t, pops_[t].minCert);
                        return;
                    }
                }
                noteEvent();
            } else if (op[0] == 'u') {
                if (owned_[t].empty()) continue;
                const size_t idx = static_cast<size_t>(atol(op.c_str() + 1)) % owned_[t].size();
                const uint32_t n = owned_[t][idx];
                owned_[t].erase(owned_[t].begin() + static_cast<long>(idx));
                owner_[n] = Pending;
                Ipc::Mem::PageId page;
                page.pool = PoolId;
                page.number = n;
                ps_->push(page);
                if (owner_[n] == Pending) owner_[n] = Free; // else: somebody popped it while we were still inside push()
                ++tokens_;
                vsim::probe("c53.push");
                noteEvent();
            }
        }
    }

    void afterStep(int) override { noteEvent(); }

    uint64_t stateHash() override { return hashBytes(mem_, hashSize_); }

    void finish(bool quiescent) override {
        if (!quiescent) return;
        vsim::probe("c53.quiescent_checks");
        unsigned expect = 0;
        for (unsigned n = 1; n <= cap_; ++n) {
            if (owner_[n] == Pending) { s_->viol("harness-bug", "page %u still pending at quiescence", n); return; }
            if (owner_[n] == Free) ++expect;
        }
        unsigned got = 0;
        for (;;) {
            Ipc::Mem::PageId page;
            if (!ps_->pop(page)) break;
            ++got;
            if (page.number < 1 || page.number > cap_ || page.pool != PoolId) {
                s_->viol("invalid-page", "at quiescence pop() returned page pool=%u number=%u", page.pool, page.number);
                return;
            }
            if (owner_[page.number] != Free) {
                s_->viol("double-alloc", "at quiescence pop() returned page %u which is still owned by %d", page.number, owner_[page.number]);
                return;
            }
            owner_[page.number] = Kept;
            if (got > cap_) break;
        }
        if (got != expect)
            s_->viol("lost-page", "at quiescence %u page(s) were released and unallocated but only %u could be allocated again", expect, got);
    }

    unsigned yieldsPerOp() const override { return 5; }

private:
    static const uint32_t PoolId = 7;

    /// released-and-returned pages minus allocations that may already have claimed one, as seen by an allocation in flight
    long certainFor(bool selfInflight) const { return tokens_ - (inflight_ - (selfInflight ? 1 : 0)); }
    void noteEvent() {
        const long c = certainFor(true);
        for (auto &p : pops_)
            if (p.active && c < p.minCert) p.minCert = c;
    }

    struct PopState { bool active = false; long minCert = 0; };

    const CaseSpec *spec_ = nullptr;
    Sched *s_ = nullptr;
    void *mem_ = nullptr;
    size_t memSize_ = 0, hashSize_ = 0;
    Ipc::Mem::PageStack *ps_ = nullptr;
    unsigned cap_ = 0;
    std::vector<int> owner_;
    std::vector<std::vector<uint32_t>> owned_;
    long tokens_ = 0;   ///< pages free at start + push() calls returned - pop() calls that returned a page
    long inflight_ = 0; ///< pop() calls invoked and not returned (a crashed task's call stays in flight for ever)
    PopState pops_[Sched::MaxTasks];
};

static Harness *makePageStack() { return new PageStackHarness; }
static const bool registeredPs = (registerStructure("pagestack", &makePageStack), true);

} // namespace shm
