// Engine H harness actors that hand control back to squid's real EventLoop / AsyncCallQueue between their steps (idle hooks):
//   h:c59  random eventAdd/eventDelete/clock sequences through the real EventScheduler + EventLoop; every fired event is logged
//   h:c44  access rule lists parsed by the real config parser into Acl::Trees, checked by concurrent ACLFilledChecklists whose
//          verif_sim ACLs answer synchronously or through goAsync() + resumeNonBlockingCheck() in seeded order
// Cases come from <rundir>/cases.txt; see the format comments at each harness. DESIGN.md §3.4/§4, docs/HARNESS_GUIDE.md.
#include "squid.h"
#include "acl/Acl.h"
#include "acl/Checklist.h"
#include "acl/FilledChecklist.h"
#include "acl/Gadgets.h"
#include "acl/Node.h"
#include "acl/Tree.h"
#include "cache_cf.h"
#include "cbdata.h"
#include "ConfigParser.h"
#include "event.h"
#include "globals.h"
#include "sbuf/SBuf.h"
#include "sbuf/Stream.h"
#include "SquidConfig.h"
#include "time/gadgets.h"

#include "h_common.h"

#include <cinttypes>
#include <cmath>
#include <map>

namespace vsim { void applyClockJump(int64_t by); } // kernel.cc: steps the wall clock (system_clock) only

namespace {

using hx::fmt;

void viol(const std::string &id, const std::string &cls, const std::string &detail)
{
    vsim::hist("VIOL\t%s\t%s\t%s", id.c_str(), cls.substr(0, 80).c_str(), detail.substr(0, 820).c_str());
    vsim::probe("h.violations");
}

/* =============================================================================================== C59 */
// case line: <id> <op> <op> ...
//   A,<ev>,<delay_us>,<weight>   eventAdd(when = delay_us/1e6 seconds)          X,<ev>  eventDelete (only while the harness knows it pending)
//   T,<us>   advance the simulated clock and call getCurrentTime() (no loop iteration: events become due but cannot fire yet)
//   J,<us>   step the wall clock BACK by <us> and call getCurrentTime()
//   R,<us>   return to squid: epoll_wait returns 0 after <us> more simulated microseconds; the real EventLoop runs an iteration
// After the last op the harness keeps running the loop until the latest due time has passed (at most 6 iterations).
// records: ADD <case> <ev> <now %a> <when %a> <weight> | DEL <case> <ev> | FIRE <case> <ev> <now %a> | TIME/BACK <case> <now %a>
//          RUN <case> <us> | RES <case> added fired cancelled left

// An event is identified, as in squid, by the pair (handler, argument): three handlers share four argument objects, so cancelling one
// event must leave the events of other handlers on the same argument (and of the same handler on other arguments) alone.
struct EvRec {
    int id = 0;
    bool pending = false;
    int fired = 0;
    double key = 0;
    int handler = 0;
    int slot = 0;
};
struct C59Arg { int slot; };
C59Arg c59Args[4] = {{0}, {1}, {2}, {3}};

struct C59State {
    bool loaded = false;
    std::vector<std::string> lines;
    size_t next = 0;
    // current case
    bool active = false;
    std::string id;
    std::vector<std::string> ops;
    size_t pc = 0;
    std::map<int, EvRec *> evs;
    bool waitingBack = false;
    int drains = 0;
    uint64_t nAdd = 0, nFire = 0, nDel = 0, loops = 0, cases = 0;
};
C59State S59;

template <int H>
void c59Fired(void *arg)
{
    const int slot = static_cast<C59Arg *>(arg)->slot;
    EvRec *e = nullptr;
    for (auto &p : S59.evs)
        if (p.second->pending && p.second->handler == H && p.second->slot == slot) { e = p.second; break; }
    if (!e) { // nothing the harness knows of is pending for this (handler, argument): a cancelled or never-added event fired
        vsim::hist("FIRE\t%s\t%d\t%a", S59.id.c_str(), -(H * 10 + slot + 1), current_dtime);
        ++S59.nFire;
        return;
    }
    vsim::hist("FIRE\t%s\t%d\t%a", S59.id.c_str(), e->id, current_dtime);
    e->pending = false;
    ++e->fired;
    ++S59.nFire;
}
EVH *const c59Handlers[3] = {c59Fired<0>, c59Fired<1>, c59Fired<2>};

void c59Finish()
{
    auto &s = S59;
    size_t left = 0;
    for (auto &p : s.evs) {
        EvRec *e = p.second;
        if (e->pending) {
            ++left;
            const bool there = eventFind(c59Handlers[e->handler], &c59Args[e->slot]);
            vsim::hist("LEFT\t%s\t%d\t%d", s.id.c_str(), e->id, there ? 1 : 0);
            if (there)
                eventDelete(c59Handlers[e->handler], &c59Args[e->slot]);
        }
        delete e;
    }
    vsim::hist("RES\t%s\t%" PRIu64 "\t%" PRIu64 "\t%" PRIu64 "\t%zu", s.id.c_str(), s.nAdd, s.nFire, s.nDel, left);
    s.evs.clear();
    s.active = false;
    ++s.cases;
}

int hookC59(const std::vector<std::string> &, uint64_t *advanceUs)
{
    auto &s = S59;
    if (!s.loaded) {
        s.loaded = true;
        s.lines = hx::readCases();
        vsim::hist("META\tc59\tcases=%zu", s.lines.size());
    }
    for (;;) {
        if (!s.active) {
            if (s.next >= s.lines.size()) {
                vsim::probe("h.cases", s.cases);
                vsim::probe("h.loops", s.loops);
                return 0;
            }
            s.ops = hx::split(s.lines[s.next++], ' ');
            s.id = s.ops[0];
            s.pc = 1;
            s.active = true;
            s.waitingBack = false;
            s.drains = 0;
            s.nAdd = s.nFire = s.nDel = 0;
            getCurrentTime();
            vsim::hist("TIME\t%s\t%a", s.id.c_str(), current_dtime);
        }
        if (s.waitingBack) {
            s.waitingBack = false;
            vsim::hist("BACK\t%s\t%a", s.id.c_str(), current_dtime);
        }
        bool yielded = false;
        while (s.pc < s.ops.size()) {
            const auto op = hx::split(s.ops[s.pc++], ',');
            if (op[0] == "A" && op.size() == 4) {
                auto *e = new EvRec;
                e->id = atoi(op[1].c_str());
                const double when = (double)strtoull(op[2].c_str(), nullptr, 10) / 1000000.0;
                const int weight = atoi(op[3].c_str());
                if (s.evs.count(e->id)) { delete e; continue; }
                e->handler = e->id % 3;
                e->slot = (e->id / 3) % 4;
                bool clash = false; // squid cannot tell two pending events with the same handler and argument apart: never create such a pair
                for (auto &p : s.evs)
                    if (p.second->pending && p.second->handler == e->handler && p.second->slot == e->slot) clash = true;
                if (clash) { delete e; continue; }
                e->pending = true;
                e->key = when > 0.0 ? current_dtime + when : 0;
                s.evs[e->id] = e;
                vsim::hist("ADD\t%s\t%d\t%a\t%a\t%d", s.id.c_str(), e->id, current_dtime, when, weight);
                eventAdd("verifC59", c59Handlers[e->handler], &c59Args[e->slot], when, weight, false);
                ++s.nAdd;
            } else if (op[0] == "X" && op.size() == 2) {
                const auto it = s.evs.find(atoi(op[1].c_str()));
                if (it == s.evs.end() || !it->second->pending)
                    continue; // eventDelete() of an event that is not queued is a debug_trap() (fatal under -C): never ask for it
                vsim::hist("DEL\t%s\t%d", s.id.c_str(), it->second->id);
                eventDelete(c59Handlers[it->second->handler], &c59Args[it->second->slot]);
                it->second->pending = false;
                ++s.nDel;
            } else if (op[0] == "T" && op.size() == 2) {
                vsim::advanceClock(strtoull(op[1].c_str(), nullptr, 10));
                getCurrentTime();
                vsim::hist("TIME\t%s\t%a", s.id.c_str(), current_dtime);
            } else if (op[0] == "J" && op.size() == 2) {
                vsim::applyClockJump(-(int64_t)strtoull(op[1].c_str(), nullptr, 10));
                getCurrentTime();
                vsim::hist("TIME\t%s\t%a", s.id.c_str(), current_dtime);
            } else if (op[0] == "R" && op.size() == 2) {
                *advanceUs = strtoull(op[1].c_str(), nullptr, 10);
                vsim::hist("RUN\t%s\t%" PRIu64, s.id.c_str(), *advanceUs);
                s.waitingBack = true;
                ++s.loops;
                yielded = true;
                break;
            }
        }
        if (yielded)
            return -1;
        // drain: let everything that is still pending become due and fire
        double maxKey = -1;
        for (auto &p : s.evs)
            if (p.second->pending && p.second->key > maxKey) maxKey = p.second->key;
        if (maxKey >= 0 && s.drains < 6) {
            ++s.drains;
            getCurrentTime();
            const double wait = maxKey - current_dtime;
            *advanceUs = (wait > 0 ? (uint64_t)std::ceil(wait * 1e6) : 0) + 1000;
            vsim::hist("RUN\t%s\t%" PRIu64, s.id.c_str(), *advanceUs);
            s.waitingBack = true;
            ++s.loops;
            return -1;
        }
        c59Finish();
    }
}

/* =============================================================================================== C44 */
// squid.conf of the scenario defines the leaves through the real configuration file parser:  acl v0 verif_sim 0  ...  acl v7 verif_sim 7
// case line: <id> <groups|-> <rules|-> <checklists> <orderseed>
//   groups      g0=any:v1,!v2|g1=all:v0,g0/!v3      ('|' between groups, '/' between the lines of an all-of ACL; names become c<N>g<k>)
//   rules       a:v1,!g0;d:v2                       (';' between rules, a=allow d=deny; '-' = no access list at all)
//   checklists  <truth>.<async>.<immediate>.<forget>;...   hex bit masks over the 8 leaves, forget = 0|1
// The group and rule lines are fed to Acl::Node::ParseNamedAcl() / aclParseAccessLine(), the entry points of the acl and *_access directives.
// records: RES <case> <k> <answer code> <implicit> <callbacks> <asyncs> | END44 <case> <nChecklists> <lookups>

const int Leaves = 8;

struct Slot {
    int caseK = 0;
    unsigned truth = 0, async = 0, immediate = 0;
    bool forget = false;
    unsigned resolved = 0;
    ACLFilledChecklist *checklist = nullptr;
    int callbacks = 0;
    int answer = -1;
    bool implicit = false;
    int asyncs = 0;
    bool done = false;
};

struct Pending { int slot; int leaf; };

struct C44State {
    bool loaded = false;
    std::vector<std::string> lines;
    size_t next = 0;
    bool active = false;
    std::string id;
    uint64_t caseNo = 0;
    std::vector<Slot> slots;
    std::vector<Pending> pending;
    acl_access *access = nullptr;
    vsim::Rng order;
    int scheduled = 0; // completions handed to the event loop and not run yet
    uint64_t lookups = 0, cases = 0, checklists = 0, loops = 0, totalLookups = 0;
};
C44State S44;

class SimCaller
{
    CBDATA_CLASS(SimCaller);
public:
    explicit SimCaller(int aSlot): slot(aSlot) {}
    int slot;
};
CBDATA_CLASS_INIT(SimCaller);

void c44StartLookup(ACLFilledChecklist &, const Acl::Node &);

/// ACL type "verif_sim <leaf index>": truth and sync/async behaviour come from the checklist's slot (checklist.fd() = slot index)
class SimAcl: public Acl::Node
{
    MEMPROXY_CLASS(SimAcl);
public:
    /* Acl::Node API */
    void parse() override
    {
        while (const char *t = ConfigParser::strtokFile())
            leaf = atoi(t);
    }
    const char *typeString() const override { return "verif_sim"; }
    SBufList dump() const override { SBufList l; l.push_back(ToSBuf(leaf)); return l; }
    bool empty() const override { return false; }
    int leaf = 0;
private:
    int match(ACLChecklist *cl) override
    {
        auto *filled = Filled(cl);
        const int si = filled->fd();
        if (si < 0 || si >= (int)S44.slots.size())
            return 0;
        Slot &s = S44.slots[si];
        const unsigned bit = 1u << leaf;
        if ((s.async & bit) && !(s.resolved & bit)) {
            if (cl->goAsync(c44StartLookup, *this))
                return -1; // paused; resumeNonBlockingCheck() will bring us back here
            if (!(s.resolved & bit))
                return 0; // the lookup could not be started (e.g. a fast-only caller): mismatch, as real slow ACLs do
        }
        if (s.forget)
            s.resolved &= ~bit; // like a lookup without a cache: the next occurrence asks again
        return (s.truth & bit) ? 1 : 0;
    }
};

void c44StartLookup(ACLFilledChecklist &cl, const Acl::Node &acl)
{
    const auto &sim = static_cast<const SimAcl &>(acl);
    const int si = cl.fd();
    Slot &s = S44.slots[si];
    ++s.asyncs;
    ++S44.lookups;
    const unsigned bit = 1u << sim.leaf;
    if (s.immediate & bit) {
        // a lookup that is answered from a cache inside the starter: resumeNonBlockingCheck() before goAsync() returned
        s.resolved |= bit;
        cl.resumeNonBlockingCheck();
        return;
    }
    S44.pending.push_back({si, sim.leaf});
}

void c44Answer(Acl::Answer a, void *data)
{
    auto *caller = static_cast<SimCaller *>(data);
    Slot &s = S44.slots[caller->slot];
    ++s.callbacks;
    s.answer = a.code;
    s.implicit = a.implicit;
    s.done = true;
    s.checklist = nullptr; // the checklist deletes itself after this callback
}

void c44Complete(const Pending p)
{
    Slot &s = S44.slots[p.slot];
    s.resolved |= 1u << p.leaf;
    if (s.checklist)
        s.checklist->resumeNonBlockingCheck();
}

void c44CompleteFromLoop(void *data)
{
    auto *p = static_cast<Pending *>(data);
    --S44.scheduled;
    c44Complete(*p);
    delete p;
}

std::string c44Name(const std::string &ref, uint64_t caseNo)
{
    // "!g2" -> "!c17g2" ; leaves keep their global names
    std::string out;
    size_t i = 0;
    if (!ref.empty() && ref[0] == '!') { out = "!"; i = 1; }
    if (ref.compare(i, 1, "g") == 0)
        out += "c" + std::to_string(caseNo);
    return out + ref.substr(i);
}

std::string c44Names(const std::string &list, uint64_t caseNo)
{
    std::string out;
    for (const auto &r : hx::split(list, ',')) {
        if (r.empty()) continue;
        if (!out.empty()) out += ' ';
        out += c44Name(r, caseNo);
    }
    return out;
}

std::vector<SimCaller *> c44Callers;
std::string c44LineBuf;

void c44Feed(const std::string &directive, const std::string &rest)
{
    // what parse_line() does before it calls the directive's parser: the directive name is consumed, the rest is the token source
    xstrncpy(config_input_line, (directive + " " + rest).c_str(), sizeof(config_input_line));
    c44LineBuf = rest;
    c44LineBuf.push_back('\0');
    ConfigParser::SetCfgLine(&c44LineBuf[0]);
}

bool c44Begin(const std::string &line)
{
    auto &s = S44;
    const auto f = hx::split(line, ' ');
    if (f.size() < 5) { vsim::hist("ERROR\tbad case line %s", line.substr(0, 60).c_str()); return false; }
    s.id = f[0];
    ++s.caseNo;
    s.slots.clear();
    s.pending.clear();
    s.lookups = 0;
    s.order.seed(strtoull(f[4].c_str(), nullptr, 10));
    if (!cfg_filename)
        cfg_filename = "verif-h-c44";
    ConfigParser parser;
    if (f[1] != "-") {
        for (const auto &g : hx::split(f[1], '|')) {
            const auto eq = g.find('=');
            const auto colon = g.find(':');
            if (eq == std::string::npos || colon == std::string::npos) continue;
            const std::string name = c44Name(g.substr(0, eq), s.caseNo);
            const std::string type = g.substr(eq + 1, colon - eq - 1) == "all" ? "all-of" : "any-of";
            for (const auto &ln : hx::split(g.substr(colon + 1), '/')) {
                c44Feed("acl", name + " " + type + " " + c44Names(ln, s.caseNo));
                Acl::Node::ParseNamedAcl(parser, Config.namedAcls);
            }
        }
    }
    s.access = nullptr;
    if (f[2] != "-") {
        for (const auto &r : hx::split(f[2], ';')) {
            if (r.size() < 2) continue;
            c44Feed("verif_access", std::string(r[0] == 'a' ? "allow " : "deny ") + c44Names(r.substr(2), s.caseNo));
            aclParseAccessLine("verif_access", parser, &s.access);
        }
    }
    const auto specs = hx::split(f[3], ';');
    s.slots.resize(specs.size());
    for (size_t k = 0; k < specs.size(); ++k) {
        const auto m = hx::split(specs[k], '.');
        Slot &sl = s.slots[k];
        sl.caseK = (int)k;
        if (m.size() >= 4) {
            sl.truth = strtoul(m[0].c_str(), nullptr, 16);
            sl.async = strtoul(m[1].c_str(), nullptr, 16);
            sl.immediate = strtoul(m[2].c_str(), nullptr, 16);
            sl.forget = m[3] == "1";
        }
    }
    // start all checks back to back: their synchronous prefixes run now, the asynchronous lookups queue up
    for (size_t k = 0; k < s.slots.size(); ++k) {
        auto cl = ACLFilledChecklist::Make(s.access, nullptr);
        cl->fd((int)k);
        s.slots[k].checklist = cl.get();
        auto *caller = new SimCaller((int)k);
        c44Callers.push_back(caller);
        ACLFilledChecklist::NonBlockingCheck(std::move(cl), c44Answer, caller);
        ++s.checklists;
    }
    return true;
}

void c44Finish()
{
    auto &s = S44;
    for (size_t k = 0; k < s.slots.size(); ++k) {
        const Slot &sl = s.slots[k];
        vsim::hist("RES\t%s\t%zu\t%d\t%d\t%d\t%d", s.id.c_str(), k, sl.answer, sl.implicit ? 1 : 0, sl.callbacks, sl.asyncs);
    }
    vsim::hist("END44\t%s\t%zu\t%" PRIu64, s.id.c_str(), s.slots.size(), s.lookups);
    s.totalLookups += s.lookups;
    for (auto *c : c44Callers)
        delete c;
    c44Callers.clear();
    if (s.access)
        aclDestroyAccessList(&s.access);
    s.slots.clear();
    s.active = false;
    ++s.cases;
}

int hookC44(const std::vector<std::string> &, uint64_t *advanceUs)
{
    auto &s = S44;
    if (!s.loaded) {
        s.loaded = true;
        s.lines = hx::readCases();
        int leaves = 0;
        for (int i = 0; i < Leaves; ++i)
            if (dynamic_cast<SimAcl *>(Acl::Node::FindByName(ToSBuf("v", i)))) ++leaves;
        vsim::hist("META\tc44\tcases=%zu\tleaves=%d", s.lines.size(), leaves);
        if (leaves != Leaves) { vsim::hist("ERROR\tverif_sim leaves missing from squid.conf"); return 0; }
    }
    for (;;) {
        if (!s.active) {
            if (s.next >= s.lines.size()) {
                vsim::probe("h.cases", s.cases);
                vsim::probe("h.checklists", s.checklists);
                vsim::probe("h.lookups", s.totalLookups);
                vsim::probe("h.loops", s.loops);
                return 0;
            }
            if (!c44Begin(s.lines[s.next++]))
                continue;
            s.active = true;
        }
        if (s.scheduled > 0) { // completions are still queued in the event loop
            *advanceUs = 1000;
            ++s.loops;
            return -1;
        }
        if (s.pending.empty()) {
            for (size_t k = 0; k < s.slots.size(); ++k) {
                if (!s.slots[k].done)
                    viol(s.id, "no-callback", fmt("checklist %zu: no lookup is outstanding but the callback was never called", k));
                else if (s.slots[k].callbacks != 1)
                    viol(s.id, "callback-count", fmt("checklist %zu: %d callbacks", k, s.slots[k].callbacks));
            }
            c44Finish();
            continue;
        }
        // complete a seeded, non-empty batch of the outstanding lookups in seeded order; half of the batches go through the real event loop
        const size_t n = 1 + s.order.range(0, s.pending.size() - 1);
        const bool viaLoop = s.order.chance(0.5);
        for (size_t i = 0; i < n && !s.pending.empty(); ++i) {
            const size_t pick = s.order.range(0, s.pending.size() - 1);
            const Pending p = s.pending[pick];
            s.pending.erase(s.pending.begin() + pick);
            if (viaLoop) {
                ++s.scheduled;
                eventAdd("verifC44", c44CompleteFromLoop, new Pending(p), 0.0, 0, false);
            } else {
                c44Complete(p);
            }
        }
        if (viaLoop) {
            *advanceUs = s.order.range(0, 2000);
            ++s.loops;
            return -1;
        }
    }
}

const bool registered = (Acl::RegisterMaker("verif_sim", [](Acl::TypeName) -> Acl::Node * { return new SimAcl; }),
                         vsim::registerIdleHook("h:c59", &hookC59), vsim::registerIdleHook("h:c44", &hookC44), true);

} // namespace
