// Engine H (harness actors, DESIGN.md §3.4): helpers shared by sim/h_*.cc. Plain C++, no Squid headers needed.
#pragma once
#include "sim.h"

#include <cstdarg>
#include <cstdio>
#include <string>
#include <vector>

namespace hx {

/// FNV-1a 64 (the Python side computes the same over its expected bytes)
inline uint64_t fnv(const char *p, size_t n)
{
    uint64_t h = 0xcbf29ce484222325ULL;
    for (size_t i = 0; i < n; ++i) { h ^= (unsigned char)p[i]; h *= 0x100000001b3ULL; }
    return h;
}

inline std::string hexOf(const char *p, size_t n, size_t maxBytes)
{
    static const char *d = "0123456789abcdef";
    std::string out;
    if (n > maxBytes) n = maxBytes;
    out.reserve(2 * n);
    for (size_t i = 0; i < n; ++i) { out.push_back(d[(unsigned char)p[i] >> 4]); out.push_back(d[p[i] & 15]); }
    return out;
}

/// "<len>:<fnv hex>:<hex of the first maxBytes bytes>"
inline std::string fieldOf(const char *p, size_t n, size_t maxBytes = 96)
{
    char b[64];
    snprintf(b, sizeof(b), "%zu:%016llx:", n, (unsigned long long)fnv(p, n));
    return std::string(b) + hexOf(p, n, maxBytes);
}

inline bool unhex(const std::string &h, std::string &out)
{
    out.clear();
    if (h == "-") return true;
    if (h.size() % 2) return false;
    out.reserve(h.size() / 2);
    auto v = [](char c) -> int { if (c >= '0' && c <= '9') return c - '0'; if (c >= 'a' && c <= 'f') return c - 'a' + 10; if (c >= 'A' && c <= 'F') return c - 'A' + 10; return -1; };
    for (size_t i = 0; i < h.size(); i += 2) {
        const int a = v(h[i]), b = v(h[i + 1]);
        if (a < 0 || b < 0) return false;
        out.push_back((char)(a * 16 + b));
    }
    return true;
}

inline std::vector<std::string> split(const std::string &s, char sep)
{
    std::vector<std::string> out;
    size_t a = 0;
    for (;;) {
        const size_t b = s.find(sep, a);
        if (b == std::string::npos) { out.push_back(s.substr(a)); break; }
        out.push_back(s.substr(a, b - a));
        a = b + 1;
    }
    return out;
}

/// non-empty lines of <rundir>/<name>
inline std::vector<std::string> readCases(const char *name = "cases.txt")
{
    std::vector<std::string> lines;
    const std::string path = vsim::g_scn.rundir + "/" + name;
    FILE *f = fopen(path.c_str(), "rb");
    if (!f) { vsim::hist("ERROR\tcannot open %s", name); return lines; }
    std::string all;
    char buf[65536];
    size_t n;
    while ((n = fread(buf, 1, sizeof(buf), f)) > 0) all.append(buf, n);
    fclose(f);
    size_t a = 0;
    while (a < all.size()) {
        size_t b = all.find('\n', a);
        if (b == std::string::npos) b = all.size();
        if (b > a) lines.push_back(all.substr(a, b - a));
        a = b + 1;
    }
    return lines;
}

inline std::string fmt(const char *f, ...) __attribute__((format(printf, 1, 2)));
inline std::string fmt(const char *f, ...)
{
    char b[900];
    va_list ap; va_start(ap, f); vsnprintf(b, sizeof(b), f, ap); va_end(ap);
    return b;
}

/// seeded delivery schedules for an input of n bytes: cut positions (strictly increasing, each in 1..n-1)
struct Cuts {
    std::vector<size_t> at;
    std::string describe() const
    {
        std::string s;
        for (size_t i = 0; i < at.size() && s.size() < 300; ++i) { if (i) s += ','; s += std::to_string(at[i]); }
        if (s.empty()) s = "-";
        return s;
    }
};

/// schedule #r of the family for (seed, n): r == 0 byte-wise (n <= byteMax) ; 1 <= r < 1+twoSplits: the 2-split at r ; the rest random
inline size_t scheduleCount(size_t n, size_t kRandom, size_t twoSplitMax) { return 1 + (n <= twoSplitMax && n > 1 ? n - 1 : 0) + kRandom; }
inline Cuts schedule(uint64_t seed, size_t n, size_t r, size_t twoSplitMax, size_t byteMax)
{
    Cuts c;
    if (n < 2) return c;
    const size_t nTwo = (n <= twoSplitMax) ? n - 1 : 0;
    if (r == 0 && n <= byteMax) { for (size_t i = 1; i < n; ++i) c.at.push_back(i); return c; }
    if (r >= 1 && r <= nTwo) { c.at.push_back(r); return c; }
    vsim::Rng g; g.seed(seed * 0x9E3779B97F4A7C15ULL + r + 1);
    static const size_t maxes[] = {1, 2, 3, 5, 8, 16, 64, 512, 4096};
    size_t mx = maxes[g.range(0, 8)];
    if (g.chance(0.2)) mx = n; // few, large segments
    if (n > 4000 && mx < n / 48) mx = n / 48; // incremental parsers rescan: keep huge inputs affordable
    size_t pos = 0;
    for (;;) {
        pos += g.range(1, mx);
        if (pos >= n) break;
        c.at.push_back(pos);
    }
    return c;
}

} // namespace hx
