// Scenario (*.scn) parser. See DESIGN.md Appendix A.
#include "sim.h"
#include <arpa/inet.h>
#include <cstdio>
#include <cstdlib>
#include <fstream>
#include <sstream>

namespace vsim {

uint64_t hashStr(uint64_t seed, const std::string &s)
{
    uint64_t h = 1469598103934665603ULL ^ seed;
    for (unsigned char c : s) { h ^= c; h *= 1099511628211ULL; }
    uint64_t x = h; return Rng::splitmix(x);
}

// 16-byte records "<key8><offset/16 as 7 hex>\n": every aligned record names (key, offset)
Bytes genBytes(const std::string &key, uint64_t off, uint64_t len)
{
    std::string k = key; k.resize(8, '_');
    Bytes out; out.reserve(len);
    uint64_t rec = off / 16; unsigned skip = off % 16;
    char buf[32];
    while (out.size() < len) {
        snprintf(buf, sizeof(buf), "%s%07llx\n", k.c_str(), (unsigned long long)(rec & 0xfffffffULL));
        size_t take = 16 - skip; if (take > len - out.size()) take = len - out.size();
        out.append(buf + skip, take);
        skip = 0; ++rec;
    }
    return out;
}

static int hexv(char c) { if (c >= '0' && c <= '9') return c - '0'; if (c >= 'a' && c <= 'f') return c - 'a' + 10; if (c >= 'A' && c <= 'F') return c - 'A' + 10; return -1; }

Bytes parsePayload(const std::string &tok)
{
    Bytes out;
    size_t pos = 0;
    while (pos <= tok.size()) {
        size_t plus = tok.find('+', pos);
        std::string part = tok.substr(pos, plus == std::string::npos ? std::string::npos : plus - pos);
        if (part.compare(0, 2, "x:") == 0) {
            for (size_t i = 2; i + 1 < part.size(); i += 2) out.push_back((char)(hexv(part[i]) * 16 + hexv(part[i + 1])));
        } else if (part.compare(0, 4, "gen:") == 0) {
            size_t a = part.find(':', 4), b = part.find(':', a + 1);
            std::string key = part.substr(4, a - 4);
            uint64_t off = strtoull(part.c_str() + a + 1, nullptr, 10), len = strtoull(part.c_str() + b + 1, nullptr, 10);
            out += genBytes(key, off, len);
        } else if (part.compare(0, 2, "t:") == 0) { // text, '_' is space, no escapes; convenience for flags/qnames
            out += part.substr(2);
        } else if (part == "-" || part.empty()) {
        } else {
            fprintf(stderr, "SIM: bad payload token '%s'\n", part.substr(0, 40).c_str()); exit(3);
        }
        if (plus == std::string::npos) break;
        pos = plus + 1;
    }
    return out;
}

Addr Addr::parse(const std::string &s, int port)
{
    Addr a; a.port = (uint16_t)port;
    if (s.find(':') != std::string::npos) { a.family = AF_INET6; inet_pton(AF_INET6, s.c_str(), a.ip); }
    else { a.family = AF_INET; inet_pton(AF_INET, s.c_str(), a.ip); }
    return a;
}
std::string Addr::ipstr() const
{
    char b[64] = "?";
    if (family == AF_INET) inet_ntop(AF_INET, ip, b, sizeof(b)); else if (family == AF_INET6) inet_ntop(AF_INET6, ip, b, sizeof(b));
    return b;
}
std::string Addr::str() const { return (family == AF_INET6 ? "[" + ipstr() + "]" : ipstr()) + ":" + std::to_string(port); }

double Scenario::knobD(const std::string &k, double d) const { auto i = knobs.find(k); return i == knobs.end() || i->second.empty() ? d : atof(i->second[0].c_str()); }
uint64_t Scenario::knobU(const std::string &k, size_t idx, uint64_t d) const { auto i = knobs.find(k); return i == knobs.end() || i->second.size() <= idx ? d : strtoull(i->second[idx].c_str(), nullptr, 10); }
std::string Scenario::knobS(const std::string &k, const std::string &d) const { auto i = knobs.find(k); return i == knobs.end() || i->second.empty() ? d : i->second[0]; }

static std::vector<std::string> toks(const std::string &line)
{
    std::vector<std::string> v; std::istringstream is(line); std::string t;
    while (is >> t) { if (t[0] == '#') break; v.push_back(t); }
    return v;
}
static uint64_t U(const std::string &s) { return strtoull(s.c_str(), nullptr, 10); }

static bool parseStep(const std::vector<std::string> &t, int lineNo, Step &st, std::string &err)
{
    st.line = lineNo;
    const std::string &k = t[0];
    auto need = [&](size_t n) { if (t.size() < n) { err = "line " + std::to_string(lineNo) + ": too few args for " + k; return false; } return true; };
    if (k == "connect") { if (!need(3)) return false; st.kind = ST_CONNECT; st.addr = Addr::parse(t[1], atoi(t[2].c_str())); }
    else if (k == "send") {
        if (!need(2)) return false; st.kind = ST_SEND; st.data = parsePayload(t[1]);
        for (size_t i = 2; i < t.size(); ++i) {
            if (t[i] == "seg" && i + 1 < t.size()) {
                const std::string &m = t[++i];
                if (m == "whole") st.seg = SEG_WHOLE; else if (m == "byte") st.seg = SEG_BYTE; else if (m == "rand") st.seg = SEG_RAND;
                else if (m.compare(0, 3, "at:") == 0) { st.seg = SEG_AT; std::istringstream is(m.substr(3)); std::string x; while (std::getline(is, x, ',')) st.segAt.push_back(U(x)); }
            } else if (t[i] == "max" && i + 1 < t.size()) st.segMax = U(t[++i]);
            else if (t[i] == "pace" && i + 2 < t.size()) { st.paceLo = U(t[i + 1]); st.paceHi = U(t[i + 2]); i += 2; }
            else if (t[i] == "subst") st.subst = true;
        }
    }
    else if (k == "expect") {
        if (!need(2)) return false; st.kind = ST_EXPECT; size_t i = 2;
        const std::string &e = t[1];
        if (e == "head") st.ex = EX_HEAD; else if (e == "body") st.ex = EX_BODY; else if (e == "response") st.ex = EX_RESPONSE;
        else if (e == "response-nobody") st.ex = EX_RESPONSE_NOBODY; else if (e == "bytes") { st.ex = EX_BYTES; if (!need(3)) return false; st.n = U(t[2]); i = 3; }
        else if (e == "eof") st.ex = EX_EOF; else if (e == "line") st.ex = EX_LINE; else if (e == "chunked") st.ex = EX_CHUNKED;
        else if (e == "icap") st.ex = EX_ICAP; else if (e == "any") st.ex = EX_ANY;
        else { err = "line " + std::to_string(lineNo) + ": bad expect " + e; return false; }
        for (; i < t.size(); ++i) { if (t[i] == "timeout" && i + 1 < t.size()) st.timeoutUs = U(t[++i]); else if (t[i] == "soft") st.soft = true; }
    }
    else if (k == "await") { if (!need(2)) return false; st.kind = ST_AWAIT; st.flag = t[1]; for (size_t i = 2; i < t.size(); ++i) if (t[i] == "timeout" && i + 1 < t.size()) st.timeoutUs = U(t[++i]); }
    else if (k == "label") { if (!need(2)) return false; st.kind = ST_LABEL; st.flag = t[1]; }
    else if (k == "wait") { if (!need(2)) return false; st.kind = ST_WAIT; st.us = U(t[1]); }
    else if (k == "shutdown") st.kind = ST_SHUTDOWN;
    else if (k == "close") st.kind = ST_CLOSE;
    else if (k == "reset") st.kind = ST_RESET;
    else if (k == "stall") st.kind = ST_STALL;
    else if (k == "readpace") { if (!need(3)) return false; st.kind = ST_READPACE; st.chunk = U(t[1]); st.us = U(t[2]); }
    else if (k == "readstop") st.kind = ST_READSTOP;
    else if (k == "readresume") st.kind = ST_READRESUME;
    else if (k == "next") st.kind = ST_NEXT;
    else if (k == "set") { if (!need(3)) return false; st.kind = ST_SET; st.flag = t[1] + "=" + t[2]; }
    else if (k == "signal") { if (!need(2)) return false; st.kind = ST_SIGNAL; st.sig = atoi(t[1].c_str()); }
    else { err = "line " + std::to_string(lineNo) + ": unknown step " + k; return false; }
    return true;
}

bool parseScenario(const std::string &path, Scenario &sc, std::string &err)
{
    std::ifstream in(path);
    if (!in) { err = "cannot open " + path; return false; }
    std::string line; int ln = 0;
    enum { TOP, SERVER, CLIENT, HELPER, DNS } ctx = TOP;
    Steps *steps = nullptr; // where step lines go
    bool inSub = false;     // inside rule/onaccept of a server
    while (std::getline(in, line)) {
        ++ln;
        auto t = toks(line);
        if (t.empty()) continue;
        const std::string &k = t[0];
        if (ctx == TOP) {
            if (k == "scn") continue;
            else if (k == "seed") sc.seed = U(t.at(1));
            else if (k == "clock" && t.size() >= 3) sc.clockStartUs = U(t[2]);
            else if (k == "limit") { for (size_t i = 1; i + 1 < t.size(); i += 2) { if (t[i] == "simtime_s") sc.limitSimUs = U(t[i + 1]) * 1000000ULL; else if (t[i] == "events") sc.limitEvents = U(t[i + 1]); else if (t[i] == "wall_s") sc.limitWallS = U(t[i + 1]); } }
            else if (k == "drain") sc.drainUs = U(t.at(1));
            else if (k == "argv") sc.argv.assign(t.begin() + 1, t.end());
            else if (k == "knob") sc.knobs[t.at(1)] = std::vector<std::string>(t.begin() + 2, t.end());
            else if (k == "file") sc.files.emplace_back(t.at(1), parsePayload(t.at(2)));
            else if (k == "server") { ServerSpec s; s.name = t.at(1); s.addr = Addr::parse(t.at(2), atoi(t.at(3).c_str())); sc.servers.push_back(s); ctx = SERVER; steps = nullptr; inSub = false; }
            else if (k == "client") {
                ClientSpec c; c.name = t.at(1); c.from = Addr::parse("10.1.0.1", 0);
                for (size_t i = 2; i < t.size(); ++i) {
                    if (t[i] == "from" && i + 1 < t.size()) c.from = Addr::parse(t[++i], 0);
                    else if (t[i] == "start" && i + 1 < t.size()) c.startUs = U(t[++i]);
                    else if (t[i] == "noready") c.noready = true;
                    else if (t[i] == "latency" && i + 2 < t.size()) { c.latLo = U(t[i + 1]); c.latHi = U(t[i + 2]); i += 2; }
                    else if (t[i] == "window" && i + 1 < t.size()) c.window = U(t[++i]);
                }
                sc.clients.push_back(c); ctx = CLIENT; steps = &sc.clients.back().steps;
            }
            else if (k == "helper") { HelperSpec h; h.token = t.at(1); for (size_t i = 2; i + 1 < t.size(); i += 2) { if (t[i] == "concurrency") h.concurrency = atoi(t[i + 1].c_str()); else if (t[i] == "die_after") { h.dieAfter = true; h.dieAfterN = atoi(t[i + 1].c_str()); } } sc.helpers.push_back(h); ctx = HELPER; }
            else if (k == "dns") { DnsSpec d; d.addr = Addr::parse(t.at(1), 53); for (size_t i = 2; i < t.size(); ++i) if (t[i] == "latency" && i + 2 < t.size()) { d.latLo = U(t[i + 1]); d.latHi = U(t[i + 2]); i += 2; } sc.dns.push_back(d); ctx = DNS; }
            else if (k == "dgram") {
                DgramSpec d; d.name = t.at(1);
                for (size_t i = 2; i < t.size(); ++i) {
                    if (t[i] == "from" && i + 2 < t.size()) { d.from = Addr::parse(t[i + 1], atoi(t[i + 2].c_str())); i += 2; }
                    else if (t[i] == "to" && i + 2 < t.size()) { d.to = Addr::parse(t[i + 1], atoi(t[i + 2].c_str())); i += 2; }
                    else if (t[i] == "at" && i + 1 < t.size()) d.atUs = U(t[++i]);
                    else if (t[i] == "data" && i + 1 < t.size()) d.data = parsePayload(t[++i]);
                    else if (t[i] == "dup" && i + 1 < t.size()) d.dup = atoi(t[++i].c_str());
                    else if (t[i] == "after" && i + 1 < t.size()) d.after = t[++i];
                }
                sc.dgrams.push_back(d);
            }
            else if (k == "jump") { ClockJump j{0, 0}; for (size_t i = 1; i + 1 < t.size(); i += 2) { if (t[i] == "at") j.atUs = U(t[i + 1]); else if (t[i] == "by") j.byUs = strtoll(t[i + 1].c_str(), nullptr, 10); } sc.jumps.push_back(j); }
            else if (k == "disk") {
                DiskFault f; f.kind = t.at(1);
                for (size_t i = 2; i + 1 < t.size(); i += 2) {
                    if (t[i] == "at") f.at = atol(t[i + 1].c_str()); else if (t[i] == "partial") f.partial = atol(t[i + 1].c_str());
                    else if (t[i] == "op") f.opclass = t[i + 1]; else if (t[i] == "p") f.p = atof(t[i + 1].c_str()); else if (t[i] == "nth") f.nth = atol(t[i + 1].c_str());
                }
                sc.diskFaults.push_back(f);
            }
            else if (k == "snapshot") { SnapSpec sp; sp.label = t.at(1); if (t.at(2) == "at") sp.atUs = U(t.at(3)); else { sp.after = t.at(3); if (t.size() > 4) sp.atUs = U(t[4]); } sc.snaps.push_back(sp); }
            else if (k == "sigterm") { if (t.at(1) == "at") sc.sigtermAtUs = U(t.at(2)); else if (t.at(1) == "after") sc.sigtermAfter = t.at(2); }
            else if (k == "mode") { sc.mode = t.at(1); sc.modeArgs.assign(t.begin() + 2, t.end()); }
            else { err = "line " + std::to_string(ln) + ": unknown directive " + k; return false; }
            continue;
        }
        if (ctx == SERVER) {
            ServerSpec &s = sc.servers.back();
            if (inSub) {
                if (k == "end") { inSub = false; steps = nullptr; continue; }
                Step st; if (!parseStep(t, ln, st, err)) return false; steps->push_back(st); continue;
            }
            if (k == "end") { ctx = TOP; continue; }
            if (k == "opt") {
                if (t.at(1) == "latency") { s.latLo = U(t.at(2)); s.latHi = U(t.at(3)); }
                else if (t[1] == "window") s.window = U(t.at(2));
                else if (t[1] == "readpace") { s.readChunk = U(t.at(2)); s.readPaceUs = U(t.at(3)); }
            } else if (k == "connect") {
                ConnectRule c; c.nth = t.at(1) == "*" ? -1 : atoi(t[1].c_str()); c.outcome = t.at(2);
                for (size_t i = 3; i + 1 < t.size(); i += 2) if (t[i] == "delay") c.delayUs = U(t[i + 1]);
                s.connects.push_back(c);
            } else if (k == "onaccept") {
                AcceptRule a; a.nth = t.at(1) == "*" ? -1 : atoi(t[1].c_str()); s.accepts.push_back(a); steps = &s.accepts.back().steps; inSub = true;
            } else if (k == "rule") {
                Rule r; r.id = t.at(1);
                for (size_t i = 2; i + 1 < t.size(); i += 2) {
                    if (t[i] == "max") r.maxUses = atoi(t[i + 1].c_str()); else if (t[i] == "has") r.has.push_back(parsePayload(t[i + 1])); else if (t[i] == "nothas") r.nothas.push_back(parsePayload(t[i + 1]));
                    else if (t[i] == "when") { size_t eq = t[i + 1].find('='); r.when.emplace_back(t[i + 1].substr(0, eq), eq == std::string::npos ? "" : t[i + 1].substr(eq + 1)); }
                }
                s.rules.push_back(r); steps = &s.rules.back().steps; inSub = true;
            } else { err = "line " + std::to_string(ln) + ": unknown server directive " + k; return false; }
            continue;
        }
        if (ctx == CLIENT) {
            if (k == "end") { ctx = TOP; steps = nullptr; continue; }
            Step st; if (!parseStep(t, ln, st, err)) return false; steps->push_back(st); continue;
        }
        if (ctx == HELPER) {
            if (k == "end") { ctx = TOP; continue; }
            if (k == "rule") {
                Rule r; r.id = t.at(1);
                for (size_t i = 2; i < t.size(); ++i) {
                    if (i + 1 >= t.size()) break;
                    if (t[i] == "max") r.maxUses = atoi(t[++i].c_str()); else if (t[i] == "has") r.has.push_back(parsePayload(t[++i]));
                    else if (t[i] == "nothas") r.nothas.push_back(parsePayload(t[++i]));
                    else if (t[i] == "reply") r.reply = parsePayload(t[++i]); else if (t[i] == "delay") r.delayUs = U(t[++i]);
                    else if (t[i] == "frag") r.frag = U(t[++i]); else if (t[i] == "chan") r.chan = t[++i];
                }
                sc.helpers.back().rules.push_back(r);
            } else { err = "line " + std::to_string(ln) + ": unknown helper directive " + k; return false; }
            continue;
        }
        if (ctx == DNS) {
            if (k == "end") { ctx = TOP; continue; }
            if (k == "host") {
                Rule r; r.qname = t.at(1); r.qtype = atoi(t.at(2).c_str()); r.id = r.qname + "/" + t[2];
                for (auto &c : r.qname) c = (char)tolower((unsigned char)c);
                for (size_t i = 3; i < t.size(); ++i) {
                    if (t[i] == "drop") { r.drop = true; continue; } if (t[i] == "badid") { r.badid = true; continue; } if (t[i] == "tc") { r.tc = true; continue; }
                    if (i + 1 >= t.size()) break;
                    if (t[i] == "max") r.maxUses = atoi(t[++i].c_str());
                    else if (t[i] == "addrs") { r.builtin = true; std::istringstream is(t[++i]); std::string x; while (std::getline(is, x, ',')) if (x != "-") r.addrs.push_back(Addr::parse(x, 0)); }
                    else if (t[i] == "raw") r.reply = parsePayload(t[++i]);
                    else if (t[i] == "rcode") { r.builtin = true; r.rcode = atoi(t[++i].c_str()); }
                    else if (t[i] == "delay") r.delayUs = U(t[++i]); else if (t[i] == "dup") r.dup = atoi(t[++i].c_str());
                }
                sc.dns.back().rules.push_back(r);
            } else { err = "line " + std::to_string(ln) + ": unknown dns directive " + k; return false; }
            continue;
        }
    }
    return true;
}

} // namespace vsim
