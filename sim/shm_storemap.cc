// C55: the real Ipc::StoreMap (on real shared segments) + a real Ipc::Mem::PageStack as slice allocator under the seeded
// scheduler; the harness is the StoreMapCleaner (DESIGN.md §4, engine S).
//
// case parameters: slots=<entries = slices, 3..8>  keys=<p0,p1,...>  (key j hashes to anchor position pj; equal positions collide)
// operations (per task; an operation whose precondition does not hold is skipped):
//   W<j>  openForWriting(key j) + setKey            (task has no write session)
//   a     append one slice to the entry being written: allocate, prepFreeSlice, link, set size, bump swap_file_sz
//   p     startAppending                            c  closeForWriting          b  abortWriting
//   w     switchWritingToReading (the task becomes a reader of what it wrote)
//   R<j>  openForReading(key j)                     (at most 2 read sessions per task)
//   n     visit the next slice of the oldest read session      m  ... of the newest read session
//   r     closeForReading (oldest session)          f  closeForReadingAndFreeIdle (oldest session)
//   e     freeEntry(fileno of the oldest read session)   -- deletion by a holder
//   E<p>  freeEntry(position p)                     F<j> freeEntryByKey(key j)          P  purgeOne
//   G<j>  openForUpdating(key j), build a fresh one-or-two-slice prefix, closeForUpdating      g<j>  ... abortUpdating
//
// Oracle (all bookkeeping is conservative: holders are recorded when the acquiring call returns and forgotten when the releasing
// call is invoked; "certainly deleted" needs a deletion call that returned and whose target version is unambiguous):
//   wrong-key / opened-incomplete-entry / opened-deleted-entry   at the return of openForReading/openForUpdating
//   two-writers                                                 at the return of openForWriting
//   slice-freed-under-reader / slice-freed-under-writer         in the cleaner callback
//   reader-saw-foreign-slice / reader-saw-changed-slice / incomplete-chain / size-mismatch   while a reader walks its chain
//   slice-leak                                                  at quiescence
#include "squid.h"
#include "ipc/mem/Page.h"
#include "ipc/mem/PageStack.h"
#include "ipc/StoreMap.h"
#include "sbuf/SBuf.h"
#include "Store.h"
#include "shm_sched.h"

#include <cstdlib>
#include <deque>

namespace shm {

class StoreMapHarness: public Harness, public Ipc::StoreMapCleaner
{
public:
    enum VState { Open, Appending, Closed, Aborted };

    struct Link { int sid; int tagVer; int tagSeq; };
    struct Version {
        int key = 0, fileno = -1;
        VState state = Open;
        std::vector<Link> chain;     ///< as built by its writer (spliced versions: fresh prefix + stale suffix)
        int readers = 0;             ///< tracked read-lock holders
        bool hasWriter = false;      ///< tracked exclusive holder
        bool keySet = false;
        uint64_t keySetTick = 0;
        uint64_t deletedTick = 0;    ///< a deletion of exactly this version certainly completed at this tick (0: no)
        bool dead = false;           ///< one of its slices was handed to the cleaner (or its writer aborted an unshared entry)
        bool superseded = false;     ///< an update replaced it (its suffix is shared with the fresh version)
        uint64_t total = 0;          ///< sum of slice sizes
    };
    struct Tag { int ver = 0; int seq = 0; bool inUse = false; std::vector<int> members; };
    struct ReadSession { bool active = false; int ver = 0; sfileno fileno = -1; const Ipc::StoreMapAnchor *anchor = nullptr; size_t pos = 0; int lastSid = -1; uint64_t sum = 0; bool ended = false; };
    struct WriteSession { bool active = false; int ver = 0; sfileno fileno = -1; Ipc::StoreMapAnchor *anchor = nullptr; int lastSid = -1; };
    struct TaskState { WriteSession w; ReadSession r[2]; };
    struct FreeCall { bool active = false; int fileno = -1; int ver = 0; bool disturbed = false; };

    ~StoreMapHarness() override {
        if (map_) map_->cleaner = nullptr; // the segments and the attached map are reused by the next case
        if (ps_) ps_->~PageStack();
        free(psMem_);
    }

    /* ---- Harness API ---- */

    void setup(const CaseSpec &spec, Sched &s) override {
        spec_ = &spec;
        s_ = &s;
        n_ = static_cast<int>(std::min(16L, std::max(2L, spec.num("slots", 4))));
        // keys
        std::string ks = spec.get("keys", "0,1");
        keyPos_.clear();
        for (size_t i = 0; i < ks.size();) {
            size_t j = ks.find(',', i);
            if (j == std::string::npos) j = ks.size();
            keyPos_.push_back(static_cast<int>(static_cast<unsigned>(atoi(ks.substr(i, j - i).c_str())) % static_cast<unsigned>(n_)));
            i = j + 1;
        }
        if (keyPos_.empty()) keyPos_.push_back(0);
        if (keyPos_.size() > 4) keyPos_.resize(4);
        for (size_t j = 0; j < keyPos_.size(); ++j) {
            keys_[j][0] = static_cast<uint64_t>(j + 1) * static_cast<uint64_t>(n_) * 7919ULL;
            keys_[j][1] = static_cast<uint64_t>(keyPos_[j]) + static_cast<uint64_t>(n_) * (j + 1);
        }
        // One set of real shared segments (StoreMap::Init) + one attached StoreMap per map size and process; every case
        // re-creates the shared objects in place (zeroed memory + the same constructors Init() runs). Creating and mapping
        // three fresh segments per case is correct too but makes page faults the bottleneck of the whole machine.
        Shared &sh = sharedFor(n_);
        owner_ = sh.owner;
        map_ = sh.map;
        {
            auto *fileNos = owner_->fileNos->object();
            memset(static_cast<void *>(fileNos), 0, Ipc::StoreMapFileNos::SharedMemorySize(n_));
            new (fileNos) Ipc::StoreMapFileNos(n_);
            auto *anchors = owner_->anchors->object();
            memset(static_cast<void *>(anchors), 0, Ipc::StoreMapAnchors::SharedMemorySize(n_));
            new (anchors) Ipc::StoreMapAnchors(n_);
            auto *slices = owner_->slices->object();
            memset(static_cast<void *>(slices), 0, Ipc::StoreMapSlices::SharedMemorySize(n_));
            new (slices) Ipc::StoreMapSlices(n_);
        }
        map_->cleaner = this;
        Ipc::Mem::PageStack::Config cfg;
        memset(static_cast<void *>(&cfg), 0, sizeof(cfg)); // padding bytes are copied into the (hashed) PageStack
        cfg.poolId = PoolId;
        cfg.pageSize = 0;
        cfg.capacity = static_cast<unsigned>(n_);
        cfg.createFull = true;
        psMem_ = calloc(1, Ipc::Mem::PageStack::SharedMemorySize(cfg) + 64);
        ps_ = new (psMem_) Ipc::Mem::PageStack(cfg);
        psHash_ = Ipc::Mem::PageStack::StackSize(cfg.capacity);
        tags_.assign(static_cast<size_t>(n_), Tag());
        curVer_.assign(static_cast<size_t>(n_), 0);
        vers_.clear();
        vers_.push_back(Version()); // id 0 unused
        tick_ = 1;
        writeOpensInFlight_.assign(static_cast<size_t>(n_), 0);
        wildWriteOpens_ = 0;
        for (auto &t : ts_) t = TaskState();
        for (auto &f : frees_) f = FreeCall();
        updates_ = false;
        for (auto &t : spec.tasks)
            for (auto &op : t)
                if (op[0] == 'G' || op[0] == 'g') updates_ = true;
        if (updates_) s.setClassPrefix("upd-");
    }

    void runTask(int t) override {
        const auto &ops = spec_->tasks[static_cast<size_t>(t)];
        for (size_t i = 0; i < ops.size(); ++i) {
            if (s_->violated()) return;
            const char op = ops[i][0];
            const unsigned arg = static_cast<unsigned>(atoi(ops[i].c_str() + 1));
            s_->trace("invoke %s", ops[i].c_str());
            switch (op) {
            case 'W': opWrite(t, static_cast<int>(arg % keyPos_.size())); break;
            case 'a': opAppend(t); break;
            case 'p': opStartAppending(t); break;
            case 'c': opCloseWriting(t); break;
            case 'b': opAbortWriting(t); break;
            case 'w': opSwitchToReading(t); break;
            case 'R': opRead(t, static_cast<int>(arg % keyPos_.size())); break;
            case 'n': opVisit(t, false); break;
            case 'm': opVisit(t, true); break;
            case 'r': opCloseReading(t, false); break;
            case 'f': opCloseReading(t, true); break;
            case 'e': opFreeHeld(t); break;
            case 'E': opFreeAt(t, static_cast<int>(arg % static_cast<unsigned>(n_))); break;
            case 'F': opFreeByKey(t, static_cast<int>(arg % keyPos_.size())); break;
            case 'P': opPurge(t); break;
            case 'G': opUpdate(t, static_cast<int>(arg % keyPos_.size()), true); break;
            case 'g': opUpdate(t, static_cast<int>(arg % keyPos_.size()), false); break;
            default: break;
            }
            if (s_->tracing()) { s_->trace("return %s", ops[i].c_str()); dump(); }
        }
    }

    /// trace helper: one line per anchor and the key -> anchor mapping
    void dump() {
        Sched::Quiet q(*s_);
        std::string out;
        char b[200];
        for (size_t j = 0; j < keyPos_.size(); ++j) {
            snprintf(b, sizeof(b), "key%zu->a%d ", j, static_cast<int>(map_->fileNoByKey(keyOf(static_cast<int>(j)))));
            out += b;
        }
        for (int f = 0; f < n_; ++f) {
            const Ipc::StoreMapAnchor &a = map_->peekAtEntry(f);
            if (a.empty() && !a.lock.readers && !a.lock.writing) continue;
            snprintf(b, sizeof(b), "| a%d: R%u%s%s ver=%ld start=%d sp=%d%s ", f, static_cast<unsigned>(a.lock.readers), a.lock.writing ? "W" : "",
                     a.lock.appending ? "A" : "", static_cast<long>(a.basics.timestamp), static_cast<int>(a.start), static_cast<int>(a.splicingPoint),
                     a.waitingToBeFreed ? " MARKED" : "");
            out += b;
        }
        s_->trace("state: %s", out.c_str());
    }

    void afterStep(int) override {}

    uint64_t stateHash() override {
        uint64_t h = hashBytes(psMem_, psHash_);
        for (int f = 0; f < n_; ++f) {
            const Ipc::StoreMapAnchor &a = map_->peekAtEntry(f);
            h = hashBytes(&a.lock, sizeof(a.lock), h);
            h = mix64(h, (static_cast<uint64_t>(a.waitingToBeFreed) << 1) | a.writerHalted);
            h = mix64(h, a.empty() ? 0 : a.key[1] % 64 + 1);
            h = mix64(h, static_cast<uint64_t>(static_cast<int64_t>(a.start)) * 31 + static_cast<uint64_t>(static_cast<int64_t>(a.splicingPoint)));
        }
        for (int sid = 0; sid < n_; ++sid) {
            // slices are only reachable through the map's accessors that assert a lock; use our model of the links instead
            h = mix64(h, tags_[static_cast<size_t>(sid)].inUse ? static_cast<uint64_t>(tags_[static_cast<size_t>(sid)].seq) + 2 : 1);
        }
        return h;
    }

    void finish(bool quiescent) override {
        if (!quiescent) return;
        vsim::probe("c55.quiescent_checks");
        // release whatever the finished tasks still hold
        const int nt = static_cast<int>(spec_->tasks.size());
        for (int t = 0; t < nt; ++t) {
            TaskState &st = ts_[t];
            if (st.w.active) { noteWriterGone(st.w.ver, Closed); map_->closeForWriting(st.w.fileno); st.w.active = false; }
            for (auto &r : st.r)
                if (r.active) { --vers_[static_cast<size_t>(r.ver)].readers; map_->closeForReading(r.fileno); r.active = false; }
        }
        if (s_->violated()) return;
        // every key: what can be opened now must be a complete, undeleted version with that key and an intact chain
        for (size_t j = 0; j < keyPos_.size(); ++j) {
            sfileno fileno = -1;
            const uint64_t t0 = now();
            const Ipc::StoreMapAnchor *a = map_->openForReading(keyOf(static_cast<int>(j)), fileno);
            if (!a) continue;
            const int v = judgeOpen(a, static_cast<int>(j), t0, "final openForReading");
            if (v > 0) {
                ReadSession rs;
                rs.active = true; rs.ver = v; rs.fileno = fileno; rs.anchor = a;
                for (int k = 0; k <= n_ && !rs.ended && !s_->violated(); ++k) visit(rs);
            }
            map_->closeForReading(fileno);
            if (s_->violated()) return;
        }
        // conservation of slices: free everything, then the allocator must hold every slice again
        for (int f = 0; f < n_; ++f) map_->freeEntry(f);
        if (s_->violated()) return;
        int got = 0;
        for (;;) {
            Ipc::Mem::PageId p;
            if (!ps_->pop(p)) break;
            if (++got > n_) break;
        }
        if (got != n_)
            s_->viol("slice-leak", "after every holder left and every entry was freed the slice allocator holds %d of %d slices", got, n_);
    }

    unsigned yieldsPerOp() const override { return 12; }

    /* ---- StoreMapCleaner API (called by freeChainAt() inside whatever task frees a chain) ---- */

    void noteFreeMapSlice(const Ipc::StoreMapSliceId sliceId) override {
        vsim::probe("c55.slices_freed");
        if (sliceId < 0 || sliceId >= n_) { s_->viol("cleaner-bad-slice", "cleaner told about slice %d of %d", sliceId, n_); return; }
        Tag &tag = tags_[static_cast<size_t>(sliceId)];
        s_->trace("cleaner: slice %d (created by version %d as #%d) freed", sliceId, tag.ver, tag.seq);
        if (!tag.inUse) {
            s_->viol("slice-freed-twice", "slice %d handed to the cleaner although it is not part of any chain (last used by version %d)", sliceId, tag.ver);
            return;
        }
        for (int m : tag.members) {
            Version &v = vers_[static_cast<size_t>(m)];
            v.dead = true;
            if (!v.deletedTick) v.deletedTick = now();
            if (v.readers > 0) {
                s_->viol(v.superseded ? "shared-suffix-freed-under-stale-reader" : "slice-freed-under-reader",
                         "slice %d of version %d (key %d, anchor %d%s) was freed by task %d while %d reader(s) still hold a read lock on that entry", sliceId, m, v.key,
                         v.fileno, v.superseded ? ", superseded by an update" : "", s_->current(), v.readers);
                return;
            }
            if (v.hasWriter) {
                s_->viol("slice-freed-under-writer", "slice %d of version %d (key %d, anchor %d) was freed by task %d while its writer holds the entry",
                         sliceId, m, v.key, v.fileno, s_->current());
                return;
            }
        }
        tag.inUse = false;
        tag.members.clear();
        Ipc::Mem::PageId page;
        page.pool = PoolId;
        page.number = static_cast<uint32_t>(sliceId) + 1;
        if (s_->inTask()) ps_->push(page);
        else { Sched::Quiet q(*s_); ps_->push(page); }
    }

private:
    static const uint32_t PoolId = 9;

    struct Shared { Ipc::StoreMap::Owner *owner = nullptr; Ipc::StoreMap *map = nullptr; };
    static Shared &sharedFor(int slots) {
        static Shared all[17];
        Shared &sh = all[slots];
        if (!sh.owner) {
            char name[64];
            snprintf(name, sizeof(name), "vc55-%d", slots);
            const SBuf path(name);
            sh.owner = Ipc::StoreMap::Init(path, slots);
            sh.map = new Ipc::StoreMap(path);
        }
        return sh;
    }

    uint64_t now() { return tick_++; }
    const cache_key *keyOf(int j) const { return reinterpret_cast<const cache_key *>(keys_[j]); }
    int posOf(int j) const { return keyPos_[static_cast<size_t>(j)]; }

    int newVersion(int key, int fileno) {
        Version v;
        v.key = key; v.fileno = fileno;
        vers_.push_back(v);
        return static_cast<int>(vers_.size()) - 1;
    }

    /// a write-open targeting anchor f (or any anchor when f < 0) starts: running deletions can no longer be attributed
    void writeOpenStarts(int f) {
        if (f >= 0) ++writeOpensInFlight_[static_cast<size_t>(f)]; else ++wildWriteOpens_;
        for (auto &fc : frees_)
            if (fc.active && (f < 0 || fc.fileno == f || fc.fileno < 0)) fc.disturbed = true;
    }
    void writeOpenEnds(int f) { if (f >= 0) --writeOpensInFlight_[static_cast<size_t>(f)]; else --wildWriteOpens_; }

    void freeStarts(int t, int f) {
        FreeCall &fc = frees_[t];
        fc = FreeCall();
        fc.active = true;
        fc.fileno = f;
        if (f >= 0) {
            fc.ver = curVer_[static_cast<size_t>(f)];
            fc.disturbed = wildWriteOpens_ > 0 || writeOpensInFlight_[static_cast<size_t>(f)] > 0;
            if (fc.ver) {
                const Version &v = vers_[static_cast<size_t>(fc.ver)];
                if (!v.keySet) fc.disturbed = true; // setKey() may still reset the deletion mark
            }
        } else
            fc.disturbed = true;
    }
    /// the deletion call returned: if its target is unambiguous, that version is certainly deleted from now on
    void freeEnds(int t, int keyFilter) {
        FreeCall &fc = frees_[t];
        fc.active = false;
        if (fc.disturbed || !fc.ver || updates_) return;
        Version &v = vers_[static_cast<size_t>(fc.ver)];
        if (keyFilter >= 0 && v.key != keyFilter) return;
        if (!v.deletedTick) { v.deletedTick = now(); vsim::probe("c55.certain_deletions"); }
    }

    void noteWriterGone(int ver, VState st) {
        Version &v = vers_[static_cast<size_t>(ver)];
        v.hasWriter = false;
        v.state = st;
    }

    /// checks a successful read-open (anchor returned for key j, call invoked at tick t0); returns the version or 0
    int judgeOpen(const Ipc::StoreMapAnchor *a, int j, uint64_t t0, const char *what) {
        if (!a->sameKey(keyOf(j))) {
            s_->viol("wrong-key", "%s(key %d) returned an anchor with another key (%#llx,%#llx)", what, j,
                     static_cast<unsigned long long>(a->key[0]), static_cast<unsigned long long>(a->key[1]));
            return 0;
        }
        const long ver = static_cast<long>(a->basics.timestamp);
        if (ver <= 0 || ver >= static_cast<long>(vers_.size())) {
            s_->viol("opened-incomplete-entry", "%s(key %d) returned an anchor whose writer has not even finished opening it (version tag %ld)", what, j, ver);
            return 0;
        }
        Version &v = vers_[static_cast<size_t>(ver)];
        if (v.key != j) {
            s_->viol("wrong-key", "%s(key %d) returned version %ld written for key %d", what, j, ver, v.key);
            return 0;
        }
        if (v.state == Open) {
            s_->viol("opened-incomplete-entry", "%s(key %d) returned version %ld whose writer (still holding the entry) neither closed it nor "
                     "switched to appending", what, j, ver);
            return 0;
        }
        if (v.deletedTick && v.deletedTick < t0) {
            s_->viol("opened-deleted-entry", "%s(key %d) returned version %ld although its deletion had completed before this call was invoked "
                     "(deleted at event %llu, invoked at event %llu)%s", what, j, ver, static_cast<unsigned long long>(v.deletedTick),
                     static_cast<unsigned long long>(t0), v.dead ? "; its slices had been freed" : "");
            return 0;
        }
        return static_cast<int>(ver);
    }

    /* ---- writer operations ---- */

    void becomeWriter(TaskState &st, Ipc::StoreMapAnchor *a, sfileno fileno, int key) {
        // (same step as the last atomic of openForWritingAt(): the exclusive lock is ours)
        const int ver = newVersion(key, fileno);
        const int prev = curVer_[static_cast<size_t>(fileno)];
        if (prev && vers_[static_cast<size_t>(prev)].hasWriter) {
            s_->viol("two-writers", "openForWriting returned anchor %d for a second writer while version %d still has its writer", fileno, prev);
            return;
        }
        if (prev && vers_[static_cast<size_t>(prev)].readers > 0) {
            s_->viol("writer-with-readers", "openForWriting returned anchor %d while %d reader(s) hold version %d there", fileno,
                     vers_[static_cast<size_t>(prev)].readers, prev);
            return;
        }
        if (prev) { Version &pv = vers_[static_cast<size_t>(prev)]; pv.dead = true; if (!pv.deletedTick) pv.deletedTick = now(); }
        curVer_[static_cast<size_t>(fileno)] = ver;
        vers_[static_cast<size_t>(ver)].hasWriter = true;
        a->basics.timestamp = ver; // the version tag travels in a lock-protected plain field of the anchor
        st.w = WriteSession();
        st.w.active = true; st.w.ver = ver; st.w.fileno = fileno; st.w.anchor = a;
        s_->trace("exclusive anchor %d: new version %d for key %d (previous version there: %d)", fileno, ver, key, prev);
    }

    void opWrite(int t, int j) {
        TaskState &st = ts_[t];
        if (st.w.active) return;
        const int f = updates_ ? -1 : posOf(j);
        writeOpenStarts(f);
        sfileno fileno = -1;
        Ipc::StoreMapAnchor *a = map_->openForWriting(keyOf(j), fileno);
        writeOpenEnds(f);
        if (!a) { vsim::probe("c55.write_open_failed"); return; }
        vsim::probe("c55.write_open_ok");
        becomeWriter(st, a, fileno, j);
        if (s_->violated()) return;
        a->setKey(keyOf(j));
        Version &v = vers_[static_cast<size_t>(st.w.ver)];
        v.keySet = true;
        v.keySetTick = now();
    }

    /// allocates a slice for version ver at chain position seq; -1 if the allocator (even after one purge) is empty
    int reserveSlice(int ver, int seq) {
        Ipc::Mem::PageId page;
        if (!ps_->pop(page)) {
            vsim::probe("c55.allocator_empty");
            opPurgeInner();
            if (s_->violated() || !ps_->pop(page)) return -1;
        }
        const int sid = static_cast<int>(page.number) - 1;
        Tag &tag = tags_[static_cast<size_t>(sid)];
        if (tag.inUse) {
            s_->viol("slice-reused-while-in-chain", "the allocator handed out slice %d which is still part of version %d's chain", sid, tag.ver);
            return -1;
        }
        tag.inUse = true; tag.ver = ver; tag.seq = seq; tag.members.assign(1, ver);
        map_->prepFreeSlice(sid);
        return sid;
    }

    void opAppend(int t) {
        TaskState &st = ts_[t];
        if (!st.w.active) return;
        Version &v0 = vers_[static_cast<size_t>(st.w.ver)];
        const int seq = static_cast<int>(v0.chain.size());
        if (seq >= n_) return;
        const int sid = reserveSlice(st.w.ver, seq);
        if (sid < 0) return;
        Version &v = vers_[static_cast<size_t>(st.w.ver)]; // (vers_ may have grown)
        Link l; l.sid = sid; l.tagVer = st.w.ver; l.tagSeq = seq;
        v.chain.push_back(l);
        // MemStore::nextAppendableSlice()/copyToShmSlice() order: link, then size, then the anchor's total
        if (st.w.lastSid < 0) st.w.anchor->start = sid;
        else map_->writeableSlice(st.w.fileno, st.w.lastSid).next = sid;
        st.w.lastSid = sid;
        map_->writeableSlice(st.w.fileno, sid).size = static_cast<uint32_t>(seq + 1);
        v.total += static_cast<uint64_t>(seq + 1);
        st.w.anchor->basics.swap_file_sz = v.total;
        vsim::probe("c55.slices_appended");
    }

    void opStartAppending(int t) {
        TaskState &st = ts_[t];
        if (!st.w.active) return;
        Version &v = vers_[static_cast<size_t>(st.w.ver)];
        if (v.state != Open) return;
        v.state = Appending;
        map_->startAppending(st.w.fileno);
        vsim::probe("c55.start_appending");
    }

    void opCloseWriting(int t) {
        TaskState &st = ts_[t];
        if (!st.w.active) return;
        st.w.active = false;
        noteWriterGone(st.w.ver, Closed);
        map_->closeForWriting(st.w.fileno);
        vsim::probe("c55.write_closed");
    }

    void opAbortWriting(int t) {
        TaskState &st = ts_[t];
        if (!st.w.active) return;
        st.w.active = false;
        noteWriterGone(st.w.ver, Aborted);
        map_->abortWriting(st.w.fileno);
        Version &v = vers_[static_cast<size_t>(st.w.ver)];
        if (!v.deletedTick) v.deletedTick = now(); // freed or marked: either way no later open may return it
        vsim::probe("c55.write_aborted");
    }

    void opSwitchToReading(int t) {
        TaskState &st = ts_[t];
        if (!st.w.active) return;
        int slot = -1;
        for (int k = 0; k < 2; ++k) if (!st.r[k].active) { slot = k; break; }
        if (slot < 0) return;
        st.w.active = false;
        noteWriterGone(st.w.ver, Closed);
        map_->switchWritingToReading(st.w.fileno);
        ReadSession &r = st.r[slot];
        r = ReadSession();
        r.active = true; r.ver = st.w.ver; r.fileno = st.w.fileno; r.anchor = st.w.anchor;
        ++vers_[static_cast<size_t>(r.ver)].readers;
        vsim::probe("c55.switched_to_reading");
    }

    /* ---- reader operations ---- */

    void opRead(int t, int j) {
        TaskState &st = ts_[t];
        int slot = -1;
        for (int k = 0; k < 2; ++k) if (!st.r[k].active) { slot = k; break; }
        if (slot < 0) return;
        const uint64_t t0 = now();
        sfileno fileno = -1;
        const Ipc::StoreMapAnchor *a = map_->openForReading(keyOf(j), fileno);
        if (!a) { vsim::probe("c55.read_open_failed"); return; }
        vsim::probe("c55.read_open_ok");
        const int ver = judgeOpen(a, j, t0, "openForReading");
        if (ver <= 0) return;
        if (vers_[static_cast<size_t>(ver)].state == Appending) vsim::probe("c55.read_open_of_appending_entry");
        s_->trace("read-opened anchor %d: version %d of key %d", fileno, ver, j);
        ReadSession &r = st.r[slot];
        r = ReadSession();
        r.active = true; r.ver = ver; r.fileno = fileno; r.anchor = a;
        ++vers_[static_cast<size_t>(ver)].readers;
    }

    ReadSession *session(int t, bool newest) {
        TaskState &st = ts_[t];
        if (newest) { if (st.r[1].active) return &st.r[1]; return st.r[0].active ? &st.r[0] : nullptr; }
        if (st.r[0].active) return &st.r[0];
        return st.r[1].active ? &st.r[1] : nullptr;
    }

    /// the reader follows its chain by one slice and compares what it finds with what the writer built
    void visit(ReadSession &r) {
        if (r.ended) return;
        const bool closedBefore = vers_[static_cast<size_t>(r.ver)].state == Closed; // before the loads below
        const size_t builtBefore = vers_[static_cast<size_t>(r.ver)].chain.size();
        int sid;
        if (r.pos == 0) sid = r.anchor->start;
        else sid = map_->readableSlice(r.fileno, r.lastSid).next;
        const Version &v = vers_[static_cast<size_t>(r.ver)];
        if (sid < 0) {
            if (closedBefore) {
                r.ended = true;
                if (r.pos != builtBefore) {
                    s_->viol("incomplete-chain", "reader of complete version %d (key %d) reached the end of the chain after %zu of %zu slices", r.ver, v.key,
                             r.pos, builtBefore);
                    return;
                }
                const uint64_t sz = r.anchor->basics.swap_file_sz;
                if (sz != r.sum || sz != v.total)
                    s_->viol("size-mismatch", "complete version %d: swap_file_sz=%llu, slices read sum to %llu, writer wrote %llu", r.ver,
                             static_cast<unsigned long long>(sz), static_cast<unsigned long long>(r.sum), static_cast<unsigned long long>(v.total));
                else
                    vsim::probe("c55.full_chains_verified");
            }
            return;
        }
        if (sid >= n_ || r.pos >= v.chain.size() || v.chain[r.pos].sid != sid) {
            s_->viol("reader-saw-foreign-slice", "reader of version %d (key %d) found slice %d at chain position %zu; its writer linked %d there", r.ver, v.key,
                     sid, r.pos, r.pos < v.chain.size() ? v.chain[r.pos].sid : -1);
            return;
        }
        const Tag &tag = tags_[static_cast<size_t>(sid)];
        const Link l = v.chain[r.pos]; // by value: the writer may grow the vector while we yield
        if (!tag.inUse || tag.ver != l.tagVer || tag.seq != l.tagSeq) {
            s_->viol("reader-saw-changed-slice", "reader of version %d (key %d): slice %d at position %zu now carries tag (%d,%d,%s) instead of (%d,%d)", r.ver,
                     v.key, sid, r.pos, tag.ver, tag.seq, tag.inUse ? "used" : "free", l.tagVer, l.tagSeq);
            return;
        }
        const uint32_t size = map_->readableSlice(r.fileno, sid).size;
        const uint32_t expect = static_cast<uint32_t>(l.tagSeq + 1);
        if (size != expect && !(size == 0 && !closedBefore)) {
            s_->viol("reader-saw-changed-slice", "reader of version %d: slice %d at position %zu has size %u, written %u", r.ver, sid, r.pos, size, expect);
            return;
        }
        if (size == 0) return; // linked but not filled yet (appending): come back later
        r.sum += size;
        r.lastSid = sid;
        ++r.pos;
        vsim::probe("c55.slices_visited");
        s_->trace("reader of version %d visited slice %d at position %zu", r.ver, sid, r.pos - 1);
    }

    void opVisit(int t, bool newest) {
        ReadSession *r = session(t, newest);
        if (r) visit(*r);
    }

    void opCloseReading(int t, bool freeIdle) {
        ReadSession *r = session(t, false);
        if (!r) return;
        r->active = false;
        --vers_[static_cast<size_t>(r->ver)].readers;
        if (freeIdle) { map_->closeForReadingAndFreeIdle(r->fileno); vsim::probe("c55.read_closed_free_idle"); }
        else { map_->closeForReading(r->fileno); vsim::probe("c55.read_closed"); }
    }

    /* ---- deleters ---- */

    void opFreeHeld(int t) {
        ReadSession *r = session(t, false);
        if (!r) return;
        const int ver = r->ver;
        map_->freeEntry(r->fileno);
        Version &v = vers_[static_cast<size_t>(ver)];
        if (!v.deletedTick) { v.deletedTick = now(); vsim::probe("c55.certain_deletions"); }
        vsim::probe("c55.free_by_holder");
    }

    void opFreeAt(int t, int f) {
        freeStarts(t, f);
        const bool r = map_->freeEntry(f);
        freeEnds(t, -1);
        vsim::probe(r ? "c55.free_entry_true" : "c55.free_entry_false");
    }

    void opFreeByKey(int t, int j) {
        freeStarts(t, updates_ ? -1 : posOf(j));
        map_->freeEntryByKey(keyOf(j));
        freeEnds(t, j);
        vsim::probe("c55.free_by_key");
    }

    void opPurgeInner() {
        if (map_->purgeOne()) vsim::probe("c55.purged");
        else vsim::probe("c55.purge_found_nothing");
    }
    void opPurge(int) { opPurgeInner(); }

    /* ---- updater ---- */

    static StoreEntry *entryForKey(int j, const cache_key *key) {
        static StoreEntry *pool[4] = {nullptr, nullptr, nullptr, nullptr};
        if (!pool[j]) {
            pool[j] = new StoreEntry;
            pool[j]->lock("shm_storemap harness");
        }
        pool[j]->key = const_cast<cache_key *>(key);
        return pool[j];
    }

    void opUpdate(int t, int j, bool commit) {
        TaskState &st = ts_[t];
        if (st.w.active) return; // one exclusive session per task keeps the bookkeeping simple
        StoreEntry *e = entryForKey(j, keyOf(j));
        Ipc::StoreMapUpdate update(e);
        const uint64_t t0 = now();
        writeOpenStarts(-1);
        const bool opened = map_->openForUpdating(update, -1);
        writeOpenEnds(-1);
        if (!opened) { vsim::probe("c55.update_open_failed"); return; }
        vsim::probe("c55.update_open_ok");
        // stale side: a read-open of the current version of key j (+ the headers lock)
        const int stale = judgeOpen(update.stale.anchor, j, t0, "openForUpdating");
        if (stale <= 0) return;
        if (vers_[static_cast<size_t>(stale)].state != Closed) {
            s_->viol("update-of-incomplete-entry", "openForUpdating(key %d) succeeded on version %d which is still being written", j, stale);
            return;
        }
        ++vers_[static_cast<size_t>(stale)].readers;
        s_->trace("update: stale version %d at anchor %d, fresh anchor %d", stale, update.stale.fileNo, update.fresh.fileNo);
        // fresh side: a keyless exclusive anchor
        becomeWriter(st, update.fresh.anchor, update.fresh.fileNo, j);
        if (s_->violated()) return;
        const int fresh = st.w.ver;
        { Version &fv = vers_[static_cast<size_t>(fresh)]; fv.keySet = true; fv.keySetTick = now(); }

        // like MemStore::updateHeadersOrThrow(): the first stale slice holds the old headers
        const int staleStart = update.stale.anchor->start;
        bool ok = commit && staleStart >= 0 && !vers_[static_cast<size_t>(stale)].chain.empty() &&
                  vers_[static_cast<size_t>(stale)].chain[0].sid == staleStart;
        if (commit && staleStart >= 0 && !ok) {
            s_->viol("reader-saw-foreign-slice", "updater of version %d found slice %d at the start of the chain; its writer linked %d there", stale, staleStart,
                     vers_[static_cast<size_t>(stale)].chain.empty() ? -1 : vers_[static_cast<size_t>(stale)].chain[0].sid);
            return;
        }
        int lastFresh = -1;
        if (ok) {
            update.stale.splicingPoint = staleStart;
            const int nFresh = 1 + static_cast<int>((static_cast<unsigned>(stale) + static_cast<unsigned>(t)) % 2);
            for (int k = 0; k < nFresh; ++k) {
                const int sid = reserveSlice(fresh, k);
                if (s_->violated()) return;
                if (sid < 0) break;
                Version &fv = vers_[static_cast<size_t>(fresh)];
                Link l; l.sid = sid; l.tagVer = fresh; l.tagSeq = k;
                fv.chain.push_back(l);
                if (lastFresh < 0) update.fresh.anchor->start = sid;
                else map_->writeableSlice(update.fresh.fileNo, lastFresh).next = sid;
                lastFresh = sid;
                map_->writeableSlice(update.fresh.fileNo, sid).size = static_cast<uint32_t>(k + 1);
                fv.total += static_cast<uint64_t>(k + 1);
            }
            if (lastFresh < 0) ok = false;
        }
        if (ok) {
            Version &fv = vers_[static_cast<size_t>(fresh)];
            Version &sv = vers_[static_cast<size_t>(stale)];
            // the fresh version = fresh prefix + stale suffix (everything after the first stale slice)
            for (size_t k = 1; k < sv.chain.size(); ++k) {
                fv.chain.push_back(sv.chain[k]);
                fv.total += static_cast<uint64_t>(sv.chain[k].tagSeq + 1);
                tags_[static_cast<size_t>(sv.chain[k].sid)].members.push_back(fresh);
            }
            update.fresh.splicingPoint = lastFresh;
            update.fresh.anchor->basics.swap_file_sz = fv.total;
            // closeForUpdating() publishes the fresh version, deletes the stale one and drops our locks
            sv.superseded = true;
            --sv.readers;
            st.w.active = false;
            noteWriterGone(fresh, Closed);
            map_->closeForUpdating(update);
            Version &sv2 = vers_[static_cast<size_t>(stale)];
            if (!sv2.deletedTick) sv2.deletedTick = now();
            vsim::probe("c55.update_committed");
        } else {
            --vers_[static_cast<size_t>(stale)].readers;
            st.w.active = false;
            noteWriterGone(fresh, Aborted);
            map_->abortUpdating(update);
            Version &fv = vers_[static_cast<size_t>(fresh)];
            if (!fv.deletedTick) fv.deletedTick = now();
            vsim::probe("c55.update_aborted");
        }
    }

    const CaseSpec *spec_ = nullptr;
    Sched *s_ = nullptr;
    int n_ = 4;
    std::vector<int> keyPos_;
    uint64_t keys_[4][2];
    Ipc::StoreMap::Owner *owner_ = nullptr;
    Ipc::StoreMap *map_ = nullptr;
    void *psMem_ = nullptr;
    size_t psHash_ = 0;
    Ipc::Mem::PageStack *ps_ = nullptr;
    std::vector<Tag> tags_;
    std::vector<int> curVer_;            ///< latest version created at each anchor position
    std::deque<Version> vers_;   // deque: references stay valid across push_back (tasks yield while holding them)
    std::vector<int> writeOpensInFlight_;
    int wildWriteOpens_ = 0;
    uint64_t tick_ = 1;                  ///< harness event counter (orders invocations and returns exactly)
    bool updates_ = false;
    TaskState ts_[Sched::MaxTasks];
    FreeCall frees_[Sched::MaxTasks];
};

static Harness *makeStoreMap() { return new StoreMapHarness; }
static const bool registeredSm = (registerStructure("storemap", &makeStoreMap), true);

} // namespace shm
