// Deterministic simulation kernel for squid (see /verif/DESIGN.md §3).
// Everything here is plain C++17 with no Squid headers; Squid-facing glue is in glue.cc.
#pragma once
#include <cstdint>
#include <cstring>
#include <deque>
#include <functional>
#include <map>
#include <memory>
#include <set>
#include <string>
#include <vector>

namespace vsim {

typedef std::string Bytes;

// ---------------------------------------------------------------- PRNG
struct Rng {
    uint64_t s0 = 1, s1 = 2;
    static uint64_t splitmix(uint64_t &x) {
        uint64_t z = (x += 0x9E3779B97F4A7C15ULL);
        z = (z ^ (z >> 30)) * 0xBF58476D1CE4E5B9ULL;
        z = (z ^ (z >> 27)) * 0x94D049BB133111EBULL;
        return z ^ (z >> 31);
    }
    void seed(uint64_t x) { s0 = splitmix(x); s1 = splitmix(x); if (!s0 && !s1) s1 = 1; }
    uint64_t next() { // xoroshiro128+
        const uint64_t a = s0; uint64_t b = s1; const uint64_t r = a + b;
        b ^= a; s0 = ((a << 24) | (a >> 40)) ^ b ^ (b << 16); s1 = (b << 37) | (b >> 27);
        return r;
    }
    // uniform in [lo, hi] inclusive
    uint64_t range(uint64_t lo, uint64_t hi) { if (hi <= lo) return lo; return lo + next() % (hi - lo + 1); }
    bool chance(double p) { if (p <= 0) return false; if (p >= 1) return true; return (next() >> 11) * (1.0 / 9007199254740992.0) < p; }
};
uint64_t hashStr(uint64_t seed, const std::string &s);

// ---------------------------------------------------------------- addresses
struct Addr {
    int family = 0; // AF_INET or AF_INET6; 0 = unset
    uint8_t ip[16] = {0};
    uint16_t port = 0;
    std::string str() const;
    std::string ipstr() const;
    bool sameIp(const Addr &o) const { return family == o.family && !memcmp(ip, o.ip, 16); }
    bool isAny() const { for (int i = 0; i < 16; ++i) if (ip[i]) return false; return true; }
    static Addr parse(const std::string &ip, int port);
};

// ---------------------------------------------------------------- scenario
enum StepKind { ST_CONNECT, ST_SEND, ST_EXPECT, ST_AWAIT, ST_LABEL, ST_WAIT, ST_SHUTDOWN, ST_CLOSE, ST_RESET,
                ST_STALL, ST_READPACE, ST_READSTOP, ST_READRESUME, ST_NEXT, ST_SIGNAL, ST_SET };
enum ExpectKind { EX_HEAD, EX_BODY, EX_RESPONSE, EX_RESPONSE_NOBODY, EX_BYTES, EX_EOF, EX_LINE, EX_CHUNKED, EX_ICAP, EX_ANY };
enum SegMode { SEG_RAND, SEG_WHOLE, SEG_BYTE, SEG_AT };

struct Step {
    StepKind kind;
    // connect
    Addr addr;
    // send
    Bytes data; SegMode seg = SEG_RAND; uint64_t segMax = 0; std::vector<uint64_t> segAt; uint64_t paceLo = 0, paceHi = 0; bool subst = false;
    // expect
    ExpectKind ex = EX_ANY; uint64_t n = 0; uint64_t timeoutUs = 0; bool soft = false;
    // await/label
    std::string flag;
    // wait / readpace
    uint64_t us = 0; uint64_t chunk = 0;
    int sig = 0;
    int line = 0; // scenario line (for history)
};
typedef std::vector<Step> Steps;

struct Rule {
    std::string id;
    int maxUses = -1; // -1 = unlimited
    int uses = 0;
    std::vector<Bytes> has, nothas;
    std::vector<std::pair<std::string, std::string>> when; // all (var, value) pairs must hold
    Steps steps;
    // helper rules
    Bytes reply; uint64_t delayUs = 0; uint64_t frag = 0; std::string chan = "same";
    // dns rules
    std::string qname; int qtype = 0; bool drop = false; int dup = 1; bool badid = false; bool builtin = false; std::vector<Addr> addrs; int rcode = 0;
    bool tc = false;
};

struct ConnectRule { int nth = -1; std::string outcome = "ok"; uint64_t delayUs = 0; };
struct AcceptRule { int nth = -1; Steps steps; };

struct ServerSpec {
    std::string name; Addr addr;
    uint64_t latLo = 50, latHi = 500; uint64_t window = 65536;
    uint64_t readChunk = 0, readPaceUs = 0;
    std::vector<ConnectRule> connects; std::vector<AcceptRule> accepts; std::vector<Rule> rules;
    int accepted = 0; int connectsSeen = 0;
};
struct ClientSpec {
    std::string name; Addr from; uint64_t startUs = 0; bool noready = false;
    uint64_t latLo = 50, latHi = 500; uint64_t window = 65536;
    Steps steps;
};
struct HelperSpec { std::string token; int concurrency = 0; std::vector<Rule> rules; int spawned = 0; bool dieAfter = false; int dieAfterN = 0; };
struct DnsSpec { Addr addr; std::vector<Rule> rules; uint64_t latLo = 100, latHi = 2000; };
struct DgramSpec { std::string name; Addr from, to; uint64_t atUs = 0; Bytes data; int dup = 1; std::string after; };
struct ClockJump { uint64_t atUs; int64_t byUs; };
struct SnapSpec { std::string label; uint64_t atUs = 0; std::string after; bool done = false; };
struct DiskFault { std::string kind; long at = -1; long partial = -1; std::string opclass; double p = 0; long nth = -1; };

struct Scenario {
    uint64_t seed = 1;
    uint64_t clockStartUs = 1700000000ULL * 1000000ULL;
    uint64_t limitSimUs = 3600ULL * 1000000ULL; uint64_t limitEvents = 2000000; uint64_t limitWallS = 120;
    uint64_t drainUs = 2000000;
    std::vector<std::string> argv;
    std::map<std::string, std::vector<std::string>> knobs;
    std::vector<std::pair<std::string, Bytes>> files;
    std::vector<ServerSpec> servers; std::vector<ClientSpec> clients; std::vector<HelperSpec> helpers;
    std::vector<DnsSpec> dns; std::vector<DgramSpec> dgrams; std::vector<ClockJump> jumps; std::vector<DiskFault> diskFaults; std::vector<SnapSpec> snaps;
    std::string mode = "P"; std::vector<std::string> modeArgs;
    std::string rundir;
    uint64_t sigtermAtUs = 0; std::string sigtermAfter;
    double knobD(const std::string &k, double dflt) const;
    uint64_t knobU(const std::string &k, size_t idx, uint64_t dflt) const;
    std::string knobS(const std::string &k, const std::string &dflt) const;
};
bool parseScenario(const std::string &path, Scenario &out, std::string &err);
Bytes parsePayload(const std::string &tok);
Bytes genBytes(const std::string &key, uint64_t off, uint64_t len);

// ---------------------------------------------------------------- history
void histOpen(const std::string &path);
void hist(const char *fmt, ...) __attribute__((format(printf, 1, 2)));
// store payload in the binary side file, returns "off len"
std::string histBlob(const void *p, size_t n);
void histFlush();
void probe(const char *name, uint64_t add = 1);
void fdSnapshot(const std::string &label); // FDSNAP record: every simulated and real descriptor the process holds

// ---------------------------------------------------------------- kernel API used by engines
uint64_t nowUs();
void advanceClock(uint64_t us);
extern Scenario g_scn;
extern bool g_active;          // simulation armed (scenario loaded)
void endRun(const char *reason, int code = 0) __attribute__((noreturn));
void setFlag(const std::string &f);
void setVar(const std::string &k, const std::string &v);
std::string getVar(const std::string &k);
bool flagSet(const std::string &f);

// engines S and H register themselves here; called from the first (S) / every (H) epoll_wait
typedef int (*HarnessFn)(const std::vector<std::string> &args);
void registerHarness(const char *name, HarnessFn fn);
// idle hooks (engine H harnesses that need squid's own EventLoop/AsyncCallQueue to run between their steps):
// called at every epoll_wait of the real main loop when the scenario mode is the registered name; return -1 to let the
// loop go on (epoll_wait returns 0 after advancing the simulated clock by *advanceUs), or >= 0 to end the run with that code
typedef int (*IdleHookFn)(const std::vector<std::string> &args, uint64_t *advanceUs);
void registerIdleHook(const char *name, IdleHookFn fn);

// yield hook of the atomic shim (engine S)
extern void (*g_yieldHook)(const void *addr, int kind);

// observer for engine S: called when a caller outside StoreMap.cc (MemStore, rock) enters Ipc::StoreMap::closeForUpdating(); no-op unless set
extern void (*closeForUpdatingHook)();
} // namespace vsim

extern "C" int verif_store_rebuilding();
extern "C" void verif_rock_walk(const char *label); // glue.cc: C57 index walk // glue.cc: Store::Controller::store_dirs_rebuilding
