#!/usr/bin/env python3
"""seedcheck.py [ID ...]: run the registered quick check of each property against its seeded change (seeded/<ID>/patch.diff applied to a scratch copy of
/repo by tools/mutant.sh, never to /repo itself) and record what was run and whether the change was caught in seeded/<ID>/meta.json ('verif')."""
import sys, os, re, json, subprocess, glob, time
root = os.path.dirname(os.path.dirname(os.path.abspath(__file__)))
ids = sys.argv[1:] or sorted(os.path.basename(os.path.dirname(p)) for p in glob.glob(root + '/seeded/*/patch.diff'))
for i in ids:
    d = '%s/seeded/%s' % (root, i)
    meta = json.load(open(d + '/meta.json'))
    prop = meta.get('check_property', i)
    cmd = 'python3 tools/verif.py check %s --jobs 4' % prop
    t0 = time.time()
    r = subprocess.run([root + '/tools/mutant.sh', d + '/patch.diff', cmd], cwd=root, stdout=subprocess.PIPE, stderr=subprocess.STDOUT, text=True)
    out = r.stdout
    m = re.search(r'VIOLATION property=(\S+) replay=\S+\n\s*class=(\S+)\n\s*detail=(.*)', out)
    summ = re.search(r'^%s quick: .*$' % prop, out, re.M)
    v = {'ran': 'tools/mutant.sh seeded/%s/patch.diff "%s"' % (i, cmd), 'summary_line': summ.group(0) if summ else out[-300:], 'wall_s': round(time.time() - t0)}
    if m:
        v.update(caught=True, violation_class=m.group(2), detail=m.group(3)[:400])
    else:
        v.update(caught=False)
    if 'MUTANT: patch does not apply' in out:
        v['caught'] = None; v['note'] = 'patch no longer applies to the current tree'
    old = meta.get('verif', {})
    for k in ('note', 'strengthened', 'history'):
        if k in old and k not in v:
            v[k] = old[k]
    meta['verif'] = v
    json.dump(meta, open(d + '/meta.json', 'w'), indent=1)
    print(i, v.get('caught'), v.get('violation_class'), v['summary_line'][:120], flush=True)
