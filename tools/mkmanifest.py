#!/usr/bin/env python3
"""Regenerate /verif/MANIFEST.json from the registered checks (props/*) and the not-applicable table below."""
import os, sys, json
HERE = os.path.dirname(os.path.abspath(__file__))
sys.path.insert(0, HERE)
import props

NA_PURE = {
 'C22': 'pure function of one complete request line (grammar acceptance); no schedule, clock, I/O or fault to simulate',
 'C25': 'pure function of a complete header block; deciding it is input generation, not simulation',
 'C26': 'pure interpretation of Content-Length values; its system-level consequence is claimed as C03',
 'C27': 'pure integer parsing functions',
 'C28': 'pure range canonicalisation arithmetic; system level is claimed as C15',
 'C29': 'pure parse/pack round trip of a field value',
 'C30': 'pure URI parsing/canonicalisation',
 'C31': 'pure percent-encoding functions',
 'C32': 'pure HTML quoting function; system level is claimed as C33',
 'C35': 'pure date formatting/parsing functions',
 'C36': 'pure base64 / credential splitting functions',
 'C40': 'pure FTP address/listing parsing functions; end-to-end FTP control+data peers are not simulated',
 'C41': 'pure function of (configured domain values, probe host name)',
 'C42': 'pure function of (configured address values, probe address)',
 'C43': 'pure function of (configured integer ranges, probe number)',
 'C48': 'sequential value-semantics history on one thread; no time, I/O, schedule or fault involved',
 'C49': 'sequential data-structure history on one thread; no time, I/O, schedule or fault involved',
 'C50': 'pure set/tokenizer semantics',
 'C52': 'pure arithmetic helpers over compile-time types',
 'C58': 'pure serialise/deserialise round trip; its transport (UDS messaging between SMP kids) is not simulated',
}
EXTRA_NA = {}   # properties whose check was withdrawn, with the reason (see DESIGN.md)
try:
    EXTRA_NA = json.load(open(os.path.join(HERE, 'withdrawn.json')))
except OSError:
    pass

def main():
    verif = os.path.dirname(HERE)
    all_props = [json.loads(l)['id'] for l in open(os.path.join(verif, 'properties.jsonl'))]
    claimed = props.all_ids()
    checks = []
    for pid in claimed:
        p = props.get(pid)
        checks.append({
            'property_id': pid,
            'quick_cmd': 'python3 tools/verif.py check %s --tier quick' % pid,
            'thorough_cmd': 'python3 tools/verif.py check %s --tier thorough' % pid,
            'evidence_file': 'evidence/%s.json' % pid,
            'replay_cmd_template': 'python3 tools/verif.py replay {path}',
            'engine': 'simsquid-' + p.engine,
            'level_claimed': {'category': p.level, 'text': p.level_text, 'design_ref': 'DESIGN.md §4 ' + pid},
            'level_note': p.level_note,
            'technique': p.technique,
        })
    na = []
    for pid in all_props:
        if pid in claimed:
            continue
        reason = EXTRA_NA.get(pid) or NA_PURE.get(pid) or 'check not built yet in this round; see DESIGN.md'
        na.append({'property_id': pid, 'reason': reason})
    man = {
        'version': 1,
        'setup_cmd': 'python3 tools/verif.py build',
        'hooks': {'guard': 'SQUID_VERIF', 'enable': 'simsquid is compiled from /repo with -DSQUID_VERIF=1 and -include sim/atomic_shim.h; all seams are link-time (ld --wrap), no guarded source hooks exist',
                  'baseline_off_cmd': 'make -C /repo -k check', 'source_commits': [], 'add_only': True},
        'engines': [
            {'name': 'simsquid-P', 'path': 'sim/ tools/', 'serves_properties': [c for c in claimed if props.get(c).engine == 'P'], 'kind_free_text': 'whole real squid (-N) linked against a simulated kernel (sockets, epoll, clock, randomness, files, helpers) with scripted peers; seeded schedules and faults'},
            {'name': 'simsquid-S', 'path': 'sim/shm_engine.cc', 'serves_properties': [c for c in claimed if props.get(c).engine == 'S'], 'kind_free_text': 'real Ipc:: shared-memory structures driven by cooperative tasks pre-empted at every atomic operation by a seeded scheduler'},
            {'name': 'simsquid-H', 'path': 'sim/h_engine.cc', 'serves_properties': [c for c in claimed if props.get(c).engine == 'H'], 'kind_free_text': 'in-binary harness actors driving real parser/ACL/event/map classes with simulator-owned segmentation, completion order and clock'},
        ],
        'checks': checks,
        'not_applicable': na,
        'notes': 'exit codes: 0 held, 1 violation (VIOLATION line + replay file), 2 infrastructure error (never a VIOLATION line). See DESIGN.md.',
    }
    with open(os.path.join(verif, 'MANIFEST.json'), 'w') as f:
        json.dump(man, f, indent=1)
    print('claimed %d, not applicable %d' % (len(checks), len(na)))

if __name__ == '__main__':
    main()
