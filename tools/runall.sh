#!/bin/sh
# usage: runall.sh quick|thorough [extra args...] : runs every claimed check in turn; prints one line per property; exit 1 if any check did not exit 0
TIER=${1:-quick}; shift
cd /verif || exit 2
BAD=0
for ID in $(python3 -c "import json;print(' '.join(c['property_id'] for c in json.load(open('MANIFEST.json'))['checks']))"); do
  OUT=$(python3 tools/verif.py check $ID --tier $TIER "$@" 2>&1); RC=$?
  echo "$ID rc=$RC $(echo "$OUT" | grep -c '^KNOWN-FINDING') known | $(echo "$OUT" | grep "^$ID $TIER:" | tail -1)"
  if [ $RC != 0 ]; then BAD=1; echo "$OUT" | grep -v '^KNOWN-FINDING' | tail -6 | sed 's/^/    /'; fi
done
exit $BAD
