#!/usr/bin/env python3
"""verif.py build | check <ID> [--tier quick|thorough] | replay <file> | determinism <ID> [n]"""
import os, sys, argparse
HERE = os.path.dirname(os.path.abspath(__file__))
sys.path.insert(0, HERE)
import build as buildmod

def ensure_build(variants=('plain', 'asan')):
    repo = os.environ.get('VERIF_REPO', '/repo')
    exe = None
    for v in variants:
        exe = buildmod.build(repo, v)
    return exe

def main():
    ap = argparse.ArgumentParser()
    ap.add_argument('cmd')
    ap.add_argument('arg', nargs='?')
    ap.add_argument('--tier', default=os.environ.get('VERIF_TIER', 'quick'))
    ap.add_argument('--runs', type=int)
    ap.add_argument('--wall', type=int)
    ap.add_argument('--jobs', type=int)
    ap.add_argument('-n', type=int, default=100)
    a = ap.parse_args()
    if a.cmd == 'build':
        print(ensure_build()); return 0
    import framework, props
    if a.cmd == 'check':
        ensure_build((props.get(a.arg).variant,))
        seed = int(os.environ.get('VERIF_SEED', framework.DEFAULT_SEED))
        return framework.run_check(props.get(a.arg), a.tier, seed, jobs=a.jobs, max_runs=a.runs, wall=a.wall)
    if a.cmd == 'replay':
        import json
        ensure_build((props.get(json.load(open(a.arg))['property']).variant,))
        return framework.replay(a.arg)
    if a.cmd == 'determinism':
        ensure_build()
        import determinism
        return determinism.main(a.arg, a.n, a.jobs)
    if a.cmd == 'list':
        print('\n'.join(props.all_ids())); return 0
    ap.error('unknown command')

if __name__ == '__main__':
    sys.exit(main())
