#!/usr/bin/env python3
"""seedtable.py: regenerate the seeded-change table of DESIGN.md §8.5 (between the seedtable markers) from seeded/*/meta.json"""
import json, glob, os, re
root = os.path.dirname(os.path.dirname(os.path.abspath(__file__)))
rows = ['| seed | change (author\'s summary, shortened) | confirmed (tests pass / demo fails with / passes without) | quick check result | class | check strengthened for it |', '|---|---|---|---|---|---|']
for p in sorted(glob.glob(root + '/seeded/*/meta.json')):
    i = os.path.basename(os.path.dirname(p)); m = json.load(open(p)); v = m.get('verif', {})
    try:
        c = json.load(open(os.path.dirname(p) + '/confirm.json'))
        conf = 'yes' if (c['make_check_rc'] == 0 and c['demo_with_change_rc'] not in (0, 2) and c['demo_without_change_rc'] == 0) else 'NO %s' % c
    except OSError:
        conf = 'not run'
    summ = re.sub(r'\s+', ' ', m.get('summary', ''))[:230].replace('|', '\\|')
    caught = {True: 'caught', False: 'MISSED', None: 'n/a'}[v.get('caught')]
    rows.append('| %s | %s | %s | %s | `%s` | %s |' % (i, summ, conf, caught, v.get('violation_class', '-'), v.get('strengthened', v.get('note', '-'))[:260].replace('|', '\\|')))
table = '\n'.join(rows)
d = root + '/DESIGN.md'; s = open(d).read()
a = s.index('<!-- seedtable:begin -->') + len('<!-- seedtable:begin -->'); b = s.index('<!-- seedtable:end -->')
open(d, 'w').write(s[:a] + '\n' + table + '\n' + s[b:])
print(table)
