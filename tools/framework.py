"""Check runner: seeded generation -> simulated runs on all cores -> oracle -> gate -> shrink -> replay -> evidence.
DESIGN.md §3.5/§6."""
import os, sys, json, time, random, hashlib, traceback, multiprocessing, copy, re, shutil
import simlib

VERIF = simlib.VERIF
DEFAULT_SEED = 20260921

REAL_STUB = {
    'real_code': 'every object of the squid binary recompiled from /repo (comm, EventLoop, AsyncCalls, HTTP parsers, client side, '
                 'FwdState/HttpStateData/tunnel, store + memory cache + ufs/rock (Blocking I/O), refresh, ACLs, auth, helpers, ICAP client, '
                 'internal DNS, ICP/HTCP/SNMP, PROXY protocol, cache manager, logging, error pages, Ipc:: shared-memory structures)',
    'simulated_stubs': 'kernel sockets/epoll/clock/randomness (ld --wrap), clients, origins, DNS/ICAP servers, helper processes, '
                       'process creation, uid/limits; cache_dir files are real files behind a fault/crash layer',
    'not_run': 'SMP multi-process mode, aufs/diskd I/O strategies, TLS peers, eCAP, FTP, WCCP, ICMP pinger',
}

def derive_seed(base, pid, i):
    h = hashlib.sha256(('%d/%s/%d' % (base, pid, i)).encode()).digest()
    return int.from_bytes(h[:8], 'big') >> 1

class Violation:
    def __init__(self, cls, detail):
        self.cls = cls          # stable class/signature string, used for gating, shrinking and known-findings matching
        self.detail = detail
    def to_json(self):
        return {'class': self.cls, 'detail': self.detail}

class Outcome:
    """Result of executing one plan."""
    def __init__(self):
        self.violations = []     # list of Violation
        self.notes = []          # violations of *other* properties seen on the way / oddities
        self.infra = None        # infrastructure problem (config refused, never ready, ...): str
        self.nontrivial = False  # per the property's stated rule
        self.fp = ''             # fingerprint of the whole history
        self.sig = ''            # schedule signature
        self.probes = {}
        self.simsec = 0.0
        self.stats = {}          # property specific counters (ints), summed by the runner
        self.sample = None       # short description of the case

class Prop:
    id = 'C00'
    level = 'exploration'
    engine = 'P'
    variant = 'plain'   # 'asan' for properties about memory errors
    technique = 'deterministic simulation: seeded schedules and fault sequences over the real proxy with scripted peers; oracle over the recorded history'
    level_text = ('seeded sampling of schedules x faults x inputs over the real squid binary running in a simulated world; every failure is '
                  'gated for reproducibility, minimised and replayable from one file; a clean batch is evidence, not proof')
    level_note = ('trusts: the simulation kernel (sim/*.cc) models Linux socket/epoll/file semantics faithfully enough; the reference codecs in '
                  'tools/simlib.py; single worker (-N) only; sequentially consistent interleavings')
    rule = ''
    quick_runs = 200
    thorough_runs = 4000
    quick_wall = 45
    thorough_wall = 900
    assumptions = []
    def plan(self, rng, tier, index):
        raise NotImplementedError
    def execute(self, plan, workdir):
        raise NotImplementedError
    def shrink_steps(self, plan):
        """yield candidate smaller plans (generic: drop list elements named in plan['_lists'], simplify knobs)"""
        lists = plan.get('_lists', [])
        for path in lists:
            seq = get_path(plan, path)
            if not isinstance(seq, list):
                continue
            n = len(seq)
            chunk = n // 2
            while chunk >= 1:
                i = 0
                while i < len(get_path(plan, path)):
                    cur = get_path(plan, path)
                    if len(cur) <= 0:
                        break
                    cand = copy.deepcopy(plan)
                    cs = get_path(cand, path)
                    del cs[i:i + chunk]
                    yield cand, ('del', path, i, chunk)
                    i += chunk
                chunk //= 2
        for k, v in plan.get('_simplify', {}).items():
            if get_path(plan, k) != v:
                cand = copy.deepcopy(plan)
                set_path(cand, k, v)
                yield cand, ('set', k, v)

def get_path(d, path):
    cur = d
    for p in path.split('.'):
        if isinstance(cur, list):
            if int(p) >= len(cur):
                return None
            cur = cur[int(p)]
        else:
            cur = cur.get(p)
        if cur is None:
            return None
    return cur

def set_path(d, path, v):
    parts = path.split('.')
    cur = d
    for p in parts[:-1]:
        cur = cur[int(p)] if isinstance(cur, list) else cur[p]
    if isinstance(cur, list):
        cur[int(parts[-1])] = v
    else:
        cur[parts[-1]] = v

# ------------------------------------------------------------------------------------------------ worker side
_PROP = None
_TMP = None

def _worker_init(prop_id, tmp):
    global _PROP, _TMP
    import props
    _PROP = props.get(prop_id)
    _TMP = tmp
    os.environ['VERIF_SIMSQUID'] = simlib.simsquid_path(_PROP.variant)

def _run_one(args):
    i, seed, tier = args
    rng = random.Random(seed)
    t0 = time.time()
    try:
        plan = _PROP.plan(rng, tier, i)
        plan['_seed'] = seed
        wd = os.path.join(_TMP, 'r%07d' % i)
        try:
            out = _PROP.execute(plan, wd)
            if os.environ.get('VERIF_DEBUG_GATE') and out.violations:
                shutil.copytree(wd, os.path.join(os.environ['VERIF_DEBUG_GATE'], 'worker_%d' % i), dirs_exist_ok=True)
        finally:
            simlib.cleanup_rundir(wd)
        return (i, seed, plan if (out.violations or out.infra) else None, outcome_json(out), time.time() - t0)
    except Exception:
        o = Outcome(); o.infra = 'exception: ' + traceback.format_exc()[-1500:]
        return (i, seed, None, outcome_json(o), time.time() - t0)

def outcome_json(o):
    return {'violations': [v.to_json() for v in o.violations], 'notes': o.notes[:5], 'infra': o.infra, 'nontrivial': bool(o.nontrivial),
            'fp': o.fp, 'sig': o.sig, 'probes': o.probes, 'simsec': o.simsec, 'stats': o.stats, 'sample': o.sample}

def execute_plan(prop, plan, tmp, tag):
    wd = os.path.join(tmp, simlib.fixed_name(tag))
    try:
        o = prop.execute(plan, wd)
        if os.environ.get('VERIF_DEBUG_GATE') and tag.startswith('gate'):
            shutil.copytree(wd, os.path.join(os.environ['VERIF_DEBUG_GATE'], tag), dirs_exist_ok=True)
        return o
    finally:
        simlib.cleanup_rundir(wd)

def _exec_for_shrink(args):
    plan, tag = args
    try:
        o = execute_plan(_PROP, plan, _TMP, tag)
        return outcome_json(o)
    except Exception:
        return {'violations': [], 'infra': 'exception ' + traceback.format_exc()[-500:], 'fp': ''}

# ------------------------------------------------------------------------------------------------ known findings
def load_known():
    p = os.path.join(VERIF, 'known_findings.json')
    if not os.path.exists(p):
        return []
    with open(p) as f:
        return json.load(f).get('findings', [])

def match_known(known, pid, cls):
    for k in known:
        if k.get('property') == pid and k.get('status') == 'known' and re.fullmatch(k['signature'], cls):
            return k
    return None

# ------------------------------------------------------------------------------------------------ the runner
def run_check(prop, tier, base_seed, jobs=None, replay_dir=None, max_runs=None, wall=None, verbose=False):
    t_start = time.time()
    # measured in this sandbox: page-fault/fork throughput is a global bottleneck; 8 plain / 4 ASan workers is the knee
    jobs = jobs or int(os.environ.get('VERIF_JOBS', '0')) or (4 if prop.variant == 'asan' else 8)
    os.environ['VERIF_SIMSQUID'] = simlib.simsquid_path(prop.variant)
    tmp = simlib.scratch_root()
    n_runs = max_runs or (prop.quick_runs if tier == 'quick' else prop.thorough_runs)
    wall_cap = wall or (prop.quick_wall if tier == 'quick' else prop.thorough_wall)
    known = load_known()
    results = []
    violating = []     # (i, seed, plan, outcome)
    infra = []
    pool = multiprocessing.Pool(jobs, initializer=_worker_init, initargs=(prop.id, tmp))
    try:
        work = ((i, derive_seed(base_seed, prop.id, i), tier) for i in range(n_runs))
        unknown_found = 0
        for res in pool.imap_unordered(_run_one, work, chunksize=1):
            i, seed, plan, out, dt = res
            results.append(res)
            if out['infra']:
                infra.append(res)
            if out['violations']:
                violating.append(res)
                if any(not match_known(known, prop.id, v['class']) for v in out['violations']):
                    unknown_found += 1
            if unknown_found >= 3 or len(infra) > max(5, n_runs // 5) or time.time() - t_start > wall_cap:
                break
        pool.terminate()
    finally:
        pool.close()
    pool.join()
    wall_explore = time.time() - t_start

    # ---------------------------------------------------------------- classify violations
    exit_code = 0
    lines = []
    reported_known = set()
    by_class = {}
    for (i, seed, plan, out, dt) in sorted(violating, key=lambda r: r[0]):
        for v in out['violations']:
            by_class.setdefault(v['class'], []).append((i, seed, plan, out, v))
    unknown_classes = [c for c in sorted(by_class) if not match_known(known, prop.id, c)]
    for c in sorted(by_class):
        k = match_known(known, prop.id, c)
        if k and k['signature'] not in reported_known:
            reported_known.add(k['signature'])
            lines.append('KNOWN-FINDING: property=%s %s' % (prop.id, k['what']))
    replay_paths = []
    gate_failures = []
    if unknown_classes:
        import props
        _worker_init(prop.id, tmp)
        for c in unknown_classes[:2]:
            (i, seed, plan, out, v) = by_class[c][0]
            ok, why = gate(prop, plan, c, out['fp'], tmp)
            if not ok:
                gate_failures.append('%s: %s' % (c, why))
                gdir = os.path.join(VERIF, 'replays', prop.id); os.makedirs(gdir, exist_ok=True)
                with open(os.path.join(gdir, 'gatefail-%d.json' % seed), 'w') as f:
                    json.dump({'property': prop.id, 'seed': seed, 'class': c, 'plan': plan}, f)
                continue
            small, steps = shrink(prop, plan, c, tmp, jobs, budget_s=90 if tier == 'quick' else 300)
            rdir = replay_dir or os.path.join(VERIF, 'replays', prop.id)
            os.makedirs(rdir, exist_ok=True)
            path = os.path.join(rdir, '%d.json' % seed)
            final = execute_plan(prop, small, tmp, 'final')
            with open(path, 'w') as f:
                json.dump({'property': prop.id, 'seed': seed, 'class': c, 'detail': [x.detail for x in final.violations if x.cls == c][:3],
                           'shrink_steps': steps, 'plan': small}, f, indent=1)
            # fresh-process replay must reproduce
            import subprocess
            r = subprocess.run([sys.executable, os.path.join(VERIF, 'tools', 'verif.py'), 'replay', path], capture_output=True, text=True)
            if r.returncode != 1 or ('class=' + c) not in r.stdout:
                gate_failures.append('%s: fresh replay did not reproduce (rc=%d) %s' % (c, r.returncode, r.stdout[-300:]))
                continue
            replay_paths.append(path)
            lines.append('VIOLATION property=%s replay=%s' % (prop.id, path))
            lines.append('  class=%s' % c)
            for x in final.violations[:3]:
                if x.cls == c:
                    lines.append('  detail=%s' % x.detail[:600])
            exit_code = 1
    # ---------------------------------------------------------------- evidence
    n_eval = len(results)
    nontrivial_fps = set(r[3]['fp'] for r in results if r[3]['nontrivial'] and r[3]['fp'])
    sigs = set(r[3]['sig'] for r in results if r[3]['sig'])
    probes = {}
    stats = {}
    simsec = 0.0
    for r in results:
        for k, v in (r[3]['probes'] or {}).items():
            probes[k] = probes.get(k, 0) + v
        for k, v in (r[3]['stats'] or {}).items():
            stats[k] = stats.get(k, 0) + v
        simsec += r[3]['simsec'] or 0
    samples = [r[3]['sample'] for r in sorted(results, key=lambda r: r[0]) if r[3]['sample']][:4]
    wall_total = time.time() - t_start
    infra_msgs = [r[3]['infra'] for r in infra][:3]
    if gate_failures or (infra and len(infra) > max(2, n_eval // 10)):
        if exit_code == 0:
            exit_code = 2
    if n_eval and len(nontrivial_fps) < 2 and exit_code == 0:
        exit_code = 2
        infra_msgs.append('vacuous batch: fewer than 2 distinct non-trivial cases')
    ev = {
        'property_id': prop.id, 'tier': tier, 'seed': base_seed, 'level': prop.level,
        'coverage': {
            'evaluations': n_eval, 'distinct_nontrivial': len(nontrivial_fps), 'rule': prop.rule,
            'samples': samples or ['(none)'],
            'runs_per_hour': int(n_eval / max(wall_explore, 1e-6) * 3600),
            'simulated_seconds': round(simsec, 1),
            'distinct_schedule_signatures': len(sigs),
            'faults_fired': {k: v for k, v in sorted(probes.items()) if k.startswith('fault.')},
            'probes': {k: v for k, v in sorted(probes.items()) if not k.startswith('fault.')},
            'stats': stats,
            'build_variant': prop.variant, 'workers': jobs,
            'components': REAL_STUB if prop.engine == 'P' else getattr(prop, 'components', REAL_STUB),
            'known_findings_seen': sorted(reported_known),
            'infrastructure_errors': len(infra), 'infrastructure_samples': infra_msgs,
            'gate_failures': gate_failures,
            'zero_probes': [p for p in getattr(prop, 'expected_probes', []) if not probes.get(p) and not stats.get(p)],
            'exhaustive': bool(getattr(prop, 'exhaustive', False)),
        },
        'assumptions': list(prop.assumptions),
        'wall_s': round(wall_total, 2),
        'violations': len(replay_paths),
    }
    evdir = os.environ.get('VERIF_EVIDENCE_DIR') or os.path.join(VERIF, 'evidence')   # mutant runs (tools/mutant.sh) write elsewhere
    os.makedirs(evdir, exist_ok=True)
    with open(os.path.join(evdir, prop.id + '.json'), 'w') as f:
        json.dump(ev, f, indent=1, sort_keys=True)
    shutil.rmtree(tmp, ignore_errors=True)
    for l in lines:
        print(l)
    print('%s %s: runs=%d nontrivial=%d sigs=%d wall=%.1fs infra=%d exit=%d' % (prop.id, tier, n_eval, len(nontrivial_fps), len(sigs), wall_total, len(infra), exit_code))
    if exit_code == 2:
        for m in infra_msgs + gate_failures:
            print('INFRA: ' + str(m)[:800])
    return exit_code

def gate(prop, plan, cls, fp, tmp):
    """same plan twice more: same fingerprint, same violation class"""
    for k in range(2):
        o = execute_plan(prop, plan, tmp, 'gate%d' % k)
        if o.fp != fp:
            return False, 'fingerprint differs on re-run (non-deterministic)'
        if cls not in [v.cls for v in o.violations]:
            return False, 'violation class not reproduced on re-run'
    return True, ''

def shrink(prop, plan, cls, tmp, jobs, budget_s=90):
    t0 = time.time()
    cur = plan
    steps = 0
    improved = True
    pool = multiprocessing.Pool(min(jobs, 8), initializer=_worker_init, initargs=(prop.id, tmp))
    try:
        while improved and time.time() - t0 < budget_s:
            improved = False
            cands = list(prop.shrink_steps(cur))
            # evaluate candidates in parallel batches, take the first (in order) that still fails in the same class
            B = 8
            for b in range(0, len(cands), B):
                batch = cands[b:b + B]
                outs = pool.map(_exec_for_shrink, [(c[0], 'sh%d_%d' % (steps, b + j)) for j, c in enumerate(batch)])
                hit = None
                for (c, what), o in zip(batch, outs):
                    if any(v['class'] == cls for v in o['violations']):
                        hit = c; break
                if hit is not None:
                    cur = hit; steps += 1; improved = True
                    break
                if time.time() - t0 > budget_s:
                    break
    finally:
        pool.terminate(); pool.join()
    return cur, steps

def replay(path):
    import props
    with open(path) as f:
        rec = json.load(f)
    prop = props.get(rec['property'])
    os.environ['VERIF_SIMSQUID'] = simlib.simsquid_path(prop.variant)
    tmp = simlib.scratch_root()
    keep = os.environ.get('VERIF_KEEP')
    try:
        if keep:
            o = prop.execute(rec['plan'], keep)
        else:
            o = execute_plan(prop, rec['plan'], tmp, 'replay')
    finally:
        shutil.rmtree(tmp, ignore_errors=True)
    print('replay property=%s seed=%s fingerprint=%s' % (rec['property'], rec.get('seed'), o.fp[:16]))
    if o.infra:
        print('INFRA: ' + o.infra)
        return 2
    hit = False
    for v in o.violations:
        print('class=%s' % v.cls)
        print('  detail=%s' % v.detail[:1000])
        if v.cls == rec.get('class'):
            hit = True
    if hit:
        print('REPRODUCED')
        return 1
    print('not reproduced')
    return 0
