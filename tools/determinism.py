"""Determinism proof: run N plans of a property twice each (different scratch directories, optionally different worker counts) and compare
history fingerprints; on mismatch show the first differing record. usage: verif.py determinism <ID> -n <N> [--jobs J]"""
import os, sys, random, shutil, multiprocessing
import framework, props, simlib

def _one(args):
    pid, i, tag = args
    prop = props.get(pid)
    os.environ['VERIF_SIMSQUID'] = simlib.simsquid_path(prop.variant)
    seed = framework.derive_seed(framework.DEFAULT_SEED + 7, pid, i)
    plan = prop.plan(random.Random(seed), 'quick', i)
    wd = '/dev/shm/verif-det-%s/%s' % (pid, simlib.fixed_name('%s_%d' % (tag, i)))
    keep = '/dev/shm/verif-det-%s/keep_%s_%d.hist' % (pid, tag, i)
    try:
        o = prop.execute(plan, wd)
        for name in ('run.hist',):
            p = os.path.join(wd, name)
            if os.path.exists(p):
                shutil.copy(p, keep)
    finally:
        simlib.cleanup_rundir(wd)
    return (i, tag, o.fp, o.infra, [v.cls for v in o.violations])

def main(pid, n, jobs):
    root = '/dev/shm/verif-det-%s' % pid
    shutil.rmtree(root, ignore_errors=True); os.makedirs(root)
    res = {}
    for tag, j in (('a', jobs or 8), ('b', 3)):
        with multiprocessing.Pool(j) as pool:
            for (i, t, fp, infra, v) in pool.imap_unordered(_one, [(pid, i, tag) for i in range(n)]):
                res.setdefault(i, {})[t] = (fp, infra, v)
    bad = 0
    for i in sorted(res):
        a, b = res[i]['a'], res[i]['b']
        if a[0] != b[0]:
            bad += 1
            print('MISMATCH plan %d: %s vs %s (%s / %s)' % (i, a[0][:12], b[0][:12], a[2], b[2]))
            fa, fb = [open('%s/keep_%s_%d.hist' % (root, t, i), errors='replace').read().split('\n') for t in 'ab']
            for k, (x, y) in enumerate(zip(fa, fb)):
                if x != y:
                    print('  first difference at record %d:\n   a: %s\n   b: %s' % (k, x[:300], y[:300]))
                    break
            else:
                print('  histories equal up to the shorter one (%d vs %d records); binary payload differs?' % (len(fa), len(fb)))
    print('determinism %s: %d plans x 2 runs (worker counts %d and 3), %d mismatches' % (pid, n, jobs or 8, bad))
    if not bad:
        shutil.rmtree(root, ignore_errors=True)
    return 1 if bad else 0
