#!/bin/sh
# usage: seedlaunch.sh <ID> <portbase> : prepares /tmp/seed-<ID> (worktree + PROPERTY.json + scratch dir) and prints the sub-agent prompt
ID=$1; PORT=$2; PROP=${3:-$1}   # optional third argument: property id when <ID> is a second-round name such as C01b
/verif/tools/seedwt.sh $ID >/dev/null || exit 2
mkdir -p /tmp/seed-$ID-scratch/out; chmod 777 /tmp/seed-$ID-scratch
python3 - "$ID" "$PROP" <<'PY'
import json,sys
i,pid=sys.argv[1],sys.argv[2]
for l in open('/verif/properties.jsonl'):
    p=json.loads(l)
    if p['id']==pid:
        json.dump(p,open('/tmp/seed-%s/PROPERTY.json'%i,'w'),indent=1)
PY
sed "s/@ID@/$ID/g" /verif/tools/seed_prompt.txt
echo
echo "Use loopback ports $PORT-$((PORT+9)) only and start squid with '-n seed$ID' (service name) so that parallel sessions do not collide; kill only your own squid processes (match on seed$ID)."
