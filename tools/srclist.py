#!/usr/bin/env python3
"""Ask /repo's generated Makefiles for the exact object/source list of the squid binary."""
import os, re, subprocess, sys, json, shlex

def mk(dirpath, *names):
    ev = "vp-%: ; @echo '$($*)'"
    out = subprocess.run(['make', '-s', '-C', dirpath, '--eval', ev] + ['vp-' + n for n in names],
                         capture_output=True, text=True)
    if out.returncode != 0:
        raise RuntimeError('make failed in %s: %s' % (dirpath, out.stderr))
    lines = out.stdout.split('\n')
    return [lines[i] if i < len(lines) else '' for i in range(len(names))]

def canon(name):
    return re.sub(r'[^A-Za-z0-9_]', '_', name)

def find_source(d, obj):
    # obj like 'foo.o' or 'sub/foo.o' or 'libx_la-foo.lo'
    base = re.sub(r'\.(o|lo)$', '', obj)
    cands = [base]
    m = re.match(r'^(.*/)?[A-Za-z0-9_]+-(.+)$', base)
    if m:
        cands.append((m.group(1) or '') + m.group(2))
    for c in cands:
        for ext in ('.cc', '.c', '.cpp', '.cxx'):
            p = os.path.join(d, c + ext)
            if os.path.exists(p):
                return os.path.normpath(p)
    raise RuntimeError('no source for %s in %s' % (obj, d))

def lib_objects(libpath, seen, out_libs):
    """libpath: absolute path of .la/.a ; returns nothing, appends (libpath, [sources], dir) in link order"""
    libpath = os.path.normpath(libpath)
    if libpath in seen:
        return
    seen.add(libpath)
    d = os.path.dirname(libpath)
    name = os.path.basename(libpath)
    # the defining Makefile may be a parent (e.g. repl/liblru.a defined in src/Makefile)
    rel = name
    dd = d
    while True:
        if os.path.exists(os.path.join(dd, 'Makefile')):
            objs, libadd = mk(dd, canon(rel) + '_OBJECTS', canon(rel) + '_LIBADD')
            if objs.strip():
                break
        parent = os.path.dirname(dd)
        if parent == dd or not dd.startswith(REPO):
            raise RuntimeError('cannot find definition of ' + libpath)
        rel = os.path.join(os.path.basename(dd), rel)
        dd = parent
    srcs = [find_source(dd, o) for o in objs.split()]
    out_libs.append({'lib': libpath, 'dir': dd, 'sources': srcs})
    for tok in libadd.split():
        if tok.endswith('.la') or tok.endswith('.a'):
            lib_objects(os.path.join(dd, tok), seen, out_libs)

def dir_flags(d, cache={}):
    if d in cache:
        return cache[d]
    cxx, cc = mk(d, 'CXXCOMPILE', 'COMPILE')
    def fix(cmd):
        toks = shlex.split(cmd)
        res = []
        for t in toks[1:]:
            if t.startswith('-std=') :
                res.append(t); continue
            if t.startswith('-I') and len(t) > 2 and not t[2:].startswith('/'):
                t = '-I' + os.path.normpath(os.path.join(d, t[2:]))
            if t in ('-Werror', '-pipe') or t.startswith('-W'):
                continue
            res.append(t)
        return res
    cache[d] = {'cxx': fix(cxx), 'cc': fix(cc)}
    return cache[d]

def collect(repo):
    global REPO
    REPO = os.path.normpath(repo)
    src = os.path.join(REPO, 'src')
    objs, ldadd = mk(src, 'squid_OBJECTS', 'squid_LDADD')
    main_sources = [find_source(src, o) for o in objs.split()]
    libs = []
    seen = set()
    syslibs = []
    order = []
    for tok in ldadd.split():
        if tok.endswith('.la') or tok.endswith('.a'):
            before = len(libs)
            lib_objects(os.path.join(src, tok), seen, libs)
            order.append(os.path.normpath(os.path.join(src, tok)))
        elif tok.startswith('-l') or tok.startswith('-L'):
            if tok != '-L..':
                syslibs.append(tok)
    dirs = sorted(set([src] + [l['dir'] for l in libs]))
    flags = {d: dir_flags(d) for d in dirs}
    return {'repo': REPO, 'main_dir': src, 'main_sources': main_sources, 'libs': libs,
            'syslibs': syslibs, 'flags': flags}

if __name__ == '__main__':
    r = collect(sys.argv[1] if len(sys.argv) > 1 else '/repo')
    n = len(r['main_sources']) + sum(len(l['sources']) for l in r['libs'])
    print(json.dumps(r, indent=1) if '-v' in sys.argv else '%d sources, %d libs' % (n, len(r['libs'])))
