#!/bin/sh
# usage: mutant.sh <patch.diff> <command...>
# Runs <command> (cwd /verif) with /repo replaced, in a private mount namespace, by a scratch copy of /repo that has the patch applied.
# /repo itself is never touched; paths are identical so ccache makes the mutant build cheap. Build output goes to .build/<variant>-mut<pid>
# and is removed afterwards together with the scratch copy.
set -e
PATCH=$(readlink -f "$1"); shift
TAG=mut$$
WT=/tmp/wt-$TAG
/verif/tools/mkscratch.sh $WT >/dev/null
( cd $WT && patch -p1 -s --forward < "$PATCH" ) || { echo "MUTANT: patch does not apply"; rm -rf $WT; exit 3; }
set +e
export VERIF_BUILD_TAG=$TAG VERIF_TMP=/dev/shm/$TAG VERIF_EVIDENCE_DIR=/dev/shm/$TAG/evidence
mkdir -p /dev/shm/$TAG
unshare -m sh -c "mount --bind $WT /repo && cd /verif && $*"
RC=$?
rm -rf $WT /verif/.build/*-$TAG /dev/shm/$TAG
exit $RC
