#!/bin/sh
# usage: detall.sh [N] : determinism proof for every claimed property: N plans (default 24) run twice each, in fresh processes, at worker counts 8 and 3,
# in different scratch directories; history fingerprints must match pairwise. Writes docs/DETERMINISM.txt (committed) and exits 1 on any mismatch.
N=${1:-24}
cd /verif || exit 2
OUT=docs/DETERMINISM.txt
echo "determinism proof, $(date -u +%Y-%m-%dT%H:%MZ), /repo at $(git -C /repo log --format=%h -1), N=$N plans per property x 2 runs (worker counts 8 and 3)" > $OUT.new
BAD=0
for ID in $(python3 -c "import json;print(' '.join(c['property_id'] for c in json.load(open('MANIFEST.json'))['checks']))"); do
  R=$(python3 tools/verif.py determinism $ID -n $N 2>&1 | tail -1)
  echo "$R" >> $OUT.new
  echo "$R"
  case "$R" in *" 0 mismatches") ;; *) BAD=1;; esac
done
mv $OUT.new $OUT
exit $BAD
