"""C05 Pipelined responses are delivered in request order, one per request. DESIGN.md §4."""
import random, re
import simlib
from simlib import Payload, G, tok, chunk_encode
from framework import Violation
from props import register
from props import httpcommon as hc

@register
class C05(hc.PProp):
    id = 'C05'
    rule = ('each run = 1-3 client connections each sending 2-10 GET/HEAD/POST requests back-to-back (or overlapping earlier responses); '
            'pipeline_prefetch 0-5, 1-2 origins whose per-request delays make later requests finish first, some repeated cacheable URLs; '
            'every 3rd run lets one origin response stall/abort. non-trivial = a connection with >= 2 judged responses; distinct = history fingerprint')
    quick_runs = 300
    thorough_runs = 8000
    quick_wall = 50
    thorough_wall = 1200
    assumptions = ['TCP semantics inside a stream; scripted peers', 'single worker (-N)']
    expected_probes = ['responses_judged', 'pipelines_judged']

    def plan(self, rng, tier, index):
        faulty = index % 3 == 2
        plan = hc.std_plan(rng, {'cache': rng.choice(['none', 'mem', 'mem']), 'lines': ['pipeline_prefetch %d' % rng.choice([0, 1, 1, 3, 5]), 'read_timeout 15 seconds']})
        plan['faulty'] = faulty
        if rng.random() < 0.35:
            plan['conf']['lines'].append('half_closed_clients on')
        conns = []
        tid = 0
        urls = ['/p%d_%d' % (index, k) for k in range(4)]
        for ci in range(rng.randint(1, 3)):
            c = {'name': 'c%d' % ci, 'start': rng.choice([0, 0, 500]), 'mode': rng.choice(['oneshot', 'oneshot', 'gaps', 'split']), 'txns': [],
                 'halfclose': 'half_closed_clients on' in plan['conf']['lines'] and rng.random() < 0.5}
            for _ in range(rng.randint(2, 10)):
                tid += 1
                m = rng.choice(['GET', 'GET', 'GET', 'HEAD', 'POST'])
                t = {'id': index * 100 + tid, 'method': m, 'size': hc.pick_size(rng, big_ok=False, max_size=40000), 'framing': rng.choice(['cl', 'cl', 'chunked']),
                     'delay': rng.choice([0, 0, 1000, 20000, 200000]), 'origin': rng.randint(0, 1), 'status': rng.choice([200, 200, 200, 404, 301]),
                     'reqbody': rng.choice([0, 5, 3000]) if m == 'POST' else 0,
                     'url': rng.choice(urls) if (m == 'GET' and rng.random() < 0.3) else None,
                     'expect_bad': rng.random() < 0.08}   # an Expect value squid rejects with 417 while earlier responses are still in progress
                if faulty and rng.random() < 0.2:
                    t['fault'] = rng.choice(['stall', 'rst', 'fin'])
                c['txns'].append(t)
            conns.append(c)
        plan['conns'] = conns
        plan['_lists'] = ['conns'] + ['conns.%d.txns' % i for i in range(len(conns))]
        return plan

    def build(self, plan):
        scn = self.new_scn(plan)
        scn.knob('peer.expect_timeout_us', 60000000)
        srvs = [scn.server('o0', '10.0.0.1', 80), scn.server('o1', '10.0.0.2', 80)]
        expect = {}
        shared_rules = set()
        for c in plan['conns']:
            cl = scn.client(c['name'], start=c['start'])
            cl.add('connect %s %d' % (hc.SQUID_IP, hc.SQUID_PORT))
            wire = []
            for t in c['txns']:
                rng = random.Random(t['id'])
                host = b'10.0.0.%d' % (1 + t['origin'])
                path = (t['url'] or '/q%d' % t['id']).encode()
                key = hc.obj_key(t['id'])
                # shared (cacheable) URLs answer with a body keyed by the URL so that any request for it is attributable
                if t['url']:
                    key = ('u' + t['url'].replace('/', '').replace('_', ''))[:8].ljust(8, '0')
                body = Payload(G(key, 0, t['size'] if not t['url'] else 777))
                hdrs = [(b'Host', host), (b'X-Sim-Req', str(t['id']).encode())]
                if t.get('expect_bad'):
                    hdrs.append((b'Expect', b'sim-unsupported'))
                reqbody = b''
                if t['method'] == 'POST':
                    reqbody = b'r' * t['reqbody']
                    hdrs.append((b'Content-Length', str(len(reqbody)).encode()))
                wire.append(hc.request_head(t['method'].encode(), b'http://' + host + path, hdrs) + reqbody)
                expect[str(t['id'])] = {'key': key, 'body': body, 'method': t['method'], 'status': t['status'], 'fault': t.get('fault'), 'shared': bool(t['url'])}
                rid = 'shared%d' % t['origin'] + path.decode() if t['url'] else 't%d' % t['id']
                if rid in shared_rules:
                    continue
                shared_rules.add(rid)
                r = srvs[t['origin']].sub('rule %s has %s' % (rid.replace('/', '_'), tok(b' ' + path + b' ')))
                r.add('expect body')
                if t['delay']:
                    r.add('wait %d' % t['delay'])
                rh = [(b'X-Sim-Ver', key.encode())]
                if t['url']:
                    rh.append((b'Cache-Control', b'max-age=1000'))
                    st = 200
                else:
                    st = t['status']
                if t['method'] == 'HEAD' or t['framing'] == 'cl' or t['url']:
                    rh.append((b'Content-Length', str(len(body)).encode())); enc = body
                else:
                    rh.append((b'Transfer-Encoding', b'chunked')); enc = chunk_encode(body, rng)
                if t['method'] == 'HEAD' and not t['url']:
                    enc = Payload()
                w = Payload(hc.response_head(st, rh), enc)
                f = t.get('fault')
                if f and not t['url']:
                    r.add('send %s' % w.slice(0, max(1, len(w) // 2)).token())
                    r.add({'stall': 'stall', 'rst': 'reset', 'fin': 'close'}[f])
                else:
                    r.add('send %s' % w.token())
            if c['mode'] == 'oneshot':
                cl.add('send %s seg whole' % tok(b''.join(wire)))
            elif c['mode'] == 'split':
                cl.add('send %s seg rand' % tok(b''.join(wire)))
            else:
                for w in wire:
                    cl.add('send %s seg whole' % tok(w))
                    cl.add('wait %d' % random.Random(len(w)).choice([0, 100, 3000]))
            if c.get('halfclose'):
                cl.add('shutdown')      # the client has nothing more to send but still wants every response
            for t in c['txns']:
                cl.add('expect %s timeout 60000000' % ('response-nobody' if t['method'] == 'HEAD' else 'response'))
        return scn, expect

    def judge(self, plan, expect, hist, o):
        V = o.violations
        stats = {'responses_judged': 0, 'pipelines_judged': 0, 'squid_errors': 0}
        nontrivial = 0
        for cv in hc.client_views(hist):
            if cv.resp_err:
                V.append(Violation('C05:malformed-client-framing', 'conn %d: %s' % (cv.conn.id, cv.resp_err))); continue
            ids = [x.decode() for x in cv.req_ids() if x is not None]
            if len(cv.finals) > len(ids):
                V.append(Violation('C05:extra-response', 'conn %d: %d responses for %d requests' % (cv.conn.id, len(cv.finals), len(ids))))
            judged = 0
            for k, m in enumerate(cv.finals[:len(ids)]):
                e = expect.get(ids[k])
                if e is None:
                    continue
                judged += 1
                stats['responses_judged'] += 1
                if hc.is_squid_error(m):
                    stats['squid_errors'] += 1
                    continue
                ver = m.get(b'x-sim-ver')
                if ver is not None and ver.decode() != e['key']:
                    V.append(Violation('C05:response-for-other-request', 'conn %d response %d carries X-Sim-Ver %s but request %s expects %s' % (cv.conn.id, k, ver.decode(), ids[k], e['key'])))
                    continue
                exp = e['body'].bytes() if e['method'] != 'HEAD' else b''
                if m.complete and m.body != exp and e['method'] != 'HEAD' and not e['fault']:
                    V.append(Violation('C05:wrong-body', 'conn %d response %d for request %s: %s' % (cv.conn.id, k, ids[k], hc.diff_desc(m.body, exp))))
                elif not exp.startswith(m.body):
                    V.append(Violation('C05:wrong-body', 'conn %d response %d for request %s: partial body not a prefix: %s' % (cv.conn.id, k, ids[k], hc.diff_desc(m.body, exp))))
            if not plan['faulty'] and len(cv.finals) < len(ids) and not cv.client_gave_up:
                # fault-free: every request must be answered unless squid closed after an error response (Connection: close)
                last = cv.finals[-1] if cv.finals else None
                if not (last is not None and (hc.is_squid_error(last) or b'close' in last.tokens(b'connection'))):
                    prefetch = int(re.search(r'pipeline_prefetch (\d+)', '\n'.join(plan['conf']['lines'])).group(1))
                    half = cv.conn.first('PFIN') is not None
                    cls = 'C05:missing-response'
                    if half:
                        # requests beyond the pipeline_prefetch window are still unparsed in squid's input buffer when the client's FIN is read
                        cls += ':halfclosed-unparsed' if len(cv.finals) >= prefetch + 1 else ':halfclosed-parsed'
                    V.append(Violation(cls, 'conn %d: %d of %d pipelined requests answered in a fault-free run (pipeline_prefetch %d, client half-closed: %s)' % (cv.conn.id, len(cv.finals), len(ids), prefetch, half)))
            if judged >= 2:
                stats['pipelines_judged'] += 1; nontrivial += 1
        o.stats = stats
        o.nontrivial = nontrivial > 0
        o.sample = {'faulty': plan['faulty'], 'conf': plan['conf']['lines'], 'conns': [[(t['method'], t['delay'], t['origin'], t.get('fault')) for t in c['txns']] for c in plan['conns']][:3]}
