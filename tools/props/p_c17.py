"""C17 Completed disk cache entries survive a clean restart. DESIGN.md §4."""
import os, random, re, copy, hashlib
import simlib
from framework import Violation, Outcome
from props import register
from props import httpcommon as hc
from props import cachefam as cf
from props.p_c16 import phase2_plan, last_time, SIZES

@register
class C17(hc.PProp):
    id = 'C17'
    rule = ('each run = a store/overwrite/PURGE history over 4-9 versioned URLs on ample rock or ufs cache_dirs (cache_store_log on, small cache_mem), an idle '
            'period for swap-outs, a re-request of every URL (those answered without origin contact whose last store.log record is SWAPOUT form the expected '
            'set), SIGTERM with shutdown_lifetime 1 s, squid exits, restart with the simulated clock advanced, every URL requested again. non-trivial = the expected '
            'set was non-empty and was judged after the restart; distinct = history fingerprint of both phases')
    quick_runs = 80
    thorough_runs = 2500
    quick_wall = 55
    thorough_wall = 1500
    assumptions = ['aufs/diskd are represented by ufs (same UFSSwapDir/swap.state code)', 'expected set is defined from squid\'s own store.log (SWAPOUT not followed by RELEASE) and a pre-shutdown hit']
    expected_probes = ['expected_entries', 'survived_entries', 'clean_exits']
    sim_limit_s = 3000

    def plan_many(self, rng, tier, index):
        """directed stratum: several hundred small entries, so that the rebuild and its validation pass work through more than one batch"""
        kind = rng.choice(['ufs', 'ufs', 'rock', 'ufs2'])
        conf = {'cache': kind, 'cache_mem_mb': 0, 'lines': ['maximum_object_size_in_memory 0 KB'], 'store_log': True, 'ufs_mb': 64, 'ufs_small_max': 50, 'rock_mb': 64, 'rock_slot': 4096}
        plan = hc.std_plan(rng, conf, hostile=False)
        plan['knobs'] = {'net.seg.max': [16384], 'clock.tick_us': [1, 5]}
        nurl = rng.choice([505, 620, 760, 999])
        plan['urls'] = [{'sizes': [rng.choice([10, 10, 100])], 'lm': False, 'etag': False, 'cc': 'max-age=1000000', 'framing': 'cl', 'bumps': []} for u in range(nurl)]
        plan['steps'] = [{'id': index * 100000 + u + 1, 'u': u, 'wait': 0, 'hdrs': [], 'new_conn': False} for u in range(nurl)]
        plan['idle_us'] = 5000000
        plan['downtime_us'] = 1000000
        plan['_lists'] = []
        return plan

    def plan(self, rng, tier, index):
        if index % 8 == 7:
            return self.plan_many(rng, tier, index)
        kind = rng.choice(['rock', 'rock', 'ufs', 'ufs', 'both', 'ufs2'])
        conf = {'cache': kind, 'cache_mem_mb': rng.choice([0, 1, 8]), 'lines': ['maximum_object_size_in_memory 0 KB'] if rng.random() < 0.4 else [], 'store_log': True,
                'ufs_mb': 64, 'ufs_small_max': rng.choice([4096, 20000, 1000000]), 'rock_mb': 64, 'rock_slot': rng.choice([4096, 16384, 32768])}
        plan = hc.std_plan(rng, conf, hostile=False)
        plan['knobs'] = {'net.seg.max': [rng.choice([1460, 16384])], 'clock.tick_us': [1, 20]}
        nurl = rng.randint(4, 9)
        plan['urls'] = [{'sizes': [rng.choice(SIZES) for _ in range(2)], 'lm': True, 'cc': 'max-age=1000000', 'framing': rng.choice(['cl', 'cl', 'chunked']),
                         'bumps': sorted(rng.randint(1, 20) * 1000000 for _ in range(rng.choice([0, 1, 2])))} for u in range(nurl)]
        steps = []
        rid = index * 1000
        for k in range(rng.randint(6, 20)):
            rid += 1
            st = {'id': rid, 'u': rng.randrange(nurl), 'wait': rng.choice([0, 1000, 300000, 2000000]), 'hdrs': [], 'new_conn': rng.random() < 0.3}
            r = rng.random()
            if r < 0.15:
                st['hdrs'] = [('Cache-Control', 'no-cache')]
            elif r < 0.22:
                st['method'] = 'PURGE'
            steps.append(st)
        plan['steps'] = steps
        plan['idle_us'] = rng.choice([2000000, 10000000, 30000000])
        plan['downtime_us'] = rng.choice([1000000, 60000000, 3600000000])
        plan['_lists'] = ['steps']
        return plan

    def build(self, plan):
        scn, srv = cf.build_world(self, plan)
        for l in plan.get('extra_lines', []):
            scn.line(l)
        return scn, None

    def execute(self, plan, workdir):
        o = Outcome()
        o.stats = {'expected_entries': 0, 'survived_entries': 0, 'clean_exits': 0}
        p1 = copy.deepcopy(plan)
        steps = list(plan['steps'])
        n = len(plan['urls'])
        steps.append({'id': 700000, 'u': 0, 'wait': plan['idle_us'], 'hdrs': [('Cache-Control', 'only-if-cached')], 'new_conn': True, 'probe': True})
        for u in range(n):
            steps.append({'id': 800000 + u, 'u': u, 'wait': 1000, 'hdrs': [], 'new_conn': True})
        steps.append({'id': 700001, 'u': 0, 'wait': 3000000, 'hdrs': [('Cache-Control', 'only-if-cached')], 'new_conn': True, 'probe': True})
        p1['clients'] = [{'name': 'c0', 'steps': steps}]
        p1['extra_lines'] = ['sigterm after done:c0']
        scn, _ = self.build(p1)
        scn.drain_us = 30000000
        h1 = simlib.run_squid(scn, workdir)
        b = hc.base_outcome(h1)
        if b.infra:
            o.infra = b.infra; return o
        clean = h1.life_has('exit') and h1.rc == 0 and not [p for p in h1.health_problems() if 'exit-code' in p or 'abort' in p or 'asan' in p]
        if not clean:
            o.violations.append(Violation('C17:unclean-shutdown', 'squid did not exit cleanly on SIGTERM: rc=%s end=%s problems=%s' % (h1.rc, h1.end, h1.health_problems())))
            return o
        o.stats['clean_exits'] = 1
        recs1, sent1 = cf.analyse(h1, p1)
        # store.log: last record per URL
        last = {}
        try:
            for line in open(os.path.join(workdir, 'store.log'), errors='replace'):
                f = line.split()
                if len(f) >= 13:
                    last[f[-1]] = f[1]
        except OSError:
            pass
        expected = {}
        for r in recs1:
            if r.step and 800000 <= r.step['id'] < 800000 + n and not r.contacts and r.resp.status == 200 and r.resp.complete and r.ver is not None:
                if last.get('http://10.0.0.1/c%d' % r.u) == 'SWAPOUT' and r.resp.body == cf.version_body(plan, r.u, r.ver):
                    expected[r.u] = r.ver
        o.stats['expected_entries'] = len(expected)
        p2 = phase2_plan(plan, 0)
        scn2, _ = self.build(p2)
        scn2.clock0 = last_time(h1) + plan['downtime_us']
        h2 = simlib.run_scn(scn2.text(), workdir, phase_name='p2')
        o.fp = hashlib.sha256((h1.fingerprint() + h2.fingerprint()).encode()).hexdigest(); o.sig = o.fp[:16]
        o.probes = dict(h2.probes); o.simsec = h1.sim_seconds() + h2.sim_seconds()
        probs = h2.health_problems()
        if not h2.life_has('ready') or probs:
            o.violations.append(Violation('C17:restart-failed', 'squid did not restart cleanly after a clean shutdown: ready=%s problems=%s' % (h2.life_has('ready'), probs)))
            return o
        recs2, sent2 = cf.analyse(h2, p2)
        seen = set()
        for r in recs2:
            if r.u not in expected:
                continue
            seen.add(r.u)
            v = expected[r.u]
            tag = 'url %d (version %d, %d bytes, cache=%s, downtime %d s)' % (r.u, v, len(cf.version_body(plan, r.u, v)), plan['conf']['cache'], plan['downtime_us'] // 1000000)
            if r.contacts:
                o.violations.append(Violation('C17:entry-lost:%s' % plan['conf']['cache'], '%s was a disk-backed hit before the clean shutdown (store.log SWAPOUT) but the origin was contacted after the restart (%s)' % (tag, [c['rule'] for c in r.contacts])))
            elif r.resp.status != 200 or not r.resp.complete or r.ver != v or r.resp.body != cf.version_body(plan, r.u, v):
                o.violations.append(Violation('C17:entry-changed:%s' % plan['conf']['cache'], '%s served after restart with status %d version %s: %s' % (tag, r.resp.status, r.ver, hc.diff_desc(r.resp.body, cf.version_body(plan, r.u, v)))))
            else:
                o.stats['survived_entries'] += 1
        o.nontrivial = len(expected) > 0 and len(seen) > 0
        o.sample = {'conf': plan['conf'], 'expected': sorted(expected.items()), 'idle_s': plan['idle_us'] // 1000000, 'downtime_s': plan['downtime_us'] // 1000000,
                    'steps': [[s.get('method', 'GET'), s['u'], s['hdrs']] for s in plan['steps']][:8]}
        return o
