"""C37 DNS message decoding is memory-safe and faithful (ASan build). DESIGN.md §4."""
import random, re, struct
import simlib
from simlib import tok
from framework import Violation
from props import register
from props import httpcommon as hc

def enc_name(name, table=None, base=0, compress=True):
    """encode a domain name; table maps suffix -> offset for compression pointers"""
    out = b''
    labels = [l for l in name.split('.') if l]
    for i in range(len(labels)):
        suffix = '.'.join(labels[i:]).lower()
        if compress and table is not None and suffix in table:
            return out + struct.pack('>H', 0xC000 | table[suffix])
        if table is not None and base + len(out) < 0x3fff:
            table[suffix] = base + len(out)
        out += bytes([len(labels[i])]) + labels[i].encode()
    return out + b'\0'

def build_reply(qname, qtype, answers, rcode=0, compress=True, flags=0x8180):
    """answers: list of (owner, type, ttl, rdata-spec) where rdata-spec is ('a', ip) | ('aaaa', ip6 bytes) | ('cname', name) | ('raw', bytes)"""
    table = {}
    msg = struct.pack('>HHHHHH', 0, flags | rcode, 1, len(answers), 0, 0)
    q = enc_name(qname, table, len(msg), compress=False)
    msg += q + struct.pack('>HH', qtype, 1)
    for owner, typ, ttl, rd in answers:
        msg += enc_name(owner, table, len(msg), compress)
        if rd[0] == 'a':
            rdata = bytes(int(x) for x in rd[1].split('.'))
        elif rd[0] in ('cname', 'ptr'):
            rdata = enc_name(rd[1], table, len(msg) + 10, compress)
        else:
            rdata = rd[1]
        msg += struct.pack('>HHIH', typ, 1, ttl, len(rdata)) + rdata
    return msg

def dec_name(msg, pos, depth=0):
    """reference decoder: -> (name, next pos) or raises ValueError"""
    labels = []
    jumped = False
    nxt = None
    seen = set()
    while True:
        if pos >= len(msg):
            raise ValueError('name runs past the message')
        l = msg[pos]
        if l & 0xC0 == 0xC0:
            if pos + 1 >= len(msg):
                raise ValueError('truncated pointer')
            ptr = ((l & 0x3F) << 8) | msg[pos + 1]
            if not jumped:
                nxt = pos + 2
            if ptr in seen or len(seen) > 64:
                raise ValueError('pointer loop')
            seen.add(ptr)
            pos = ptr; jumped = True
            continue
        if l & 0xC0:
            raise ValueError('bad label type')
        if l == 0:
            pos += 1
            break
        if pos + 1 + l > len(msg):
            raise ValueError('label runs past the message')
        labels.append(msg[pos + 1:pos + 1 + l].decode('latin-1'))
        pos += 1 + l
        if sum(len(x) + 1 for x in labels) > 255:
            raise ValueError('name too long')
    return '.'.join(labels), (nxt if jumped else pos)

def decode(msg):
    """-> dict(id, flags, questions[(name,type,class)], answers[(name,type,class,ttl,rdata)]) ; raises ValueError when malformed"""
    if len(msg) < 12:
        raise ValueError('short header')
    mid, flags, qd, an, ns, ar = struct.unpack('>HHHHHH', msg[:12])
    pos = 12
    qs, ans = [], []
    for _ in range(qd):
        n, pos = dec_name(msg, pos)
        if pos + 4 > len(msg):
            raise ValueError('truncated question')
        t, c = struct.unpack('>HH', msg[pos:pos + 4]); pos += 4
        qs.append((n, t, c))
    for _ in range(an):
        n, pos = dec_name(msg, pos)
        if pos + 10 > len(msg):
            raise ValueError('truncated RR')
        t, c, ttl, rl = struct.unpack('>HHIH', msg[pos:pos + 10]); pos += 10
        if pos + rl > len(msg):
            raise ValueError('rdata runs past the message')
        ans.append((n, t, c, ttl, msg[pos:pos + rl], pos)); pos += rl
    return {'id': mid, 'flags': flags, 'qd': qs, 'an': ans}

def a_addresses(msg):
    """every IPv4 address a (possibly lenient, partial) decoder could take from A records of this message"""
    out = set()
    try:
        d = decode(msg)
        for (n, t, c, ttl, rd, p) in d['an']:
            if t == 1 and len(rd) == 4:
                out.add('.'.join(str(b) for b in rd))
    except ValueError:
        # partial: walk as far as possible
        try:
            mid, flags, qd, an, ns, ar = struct.unpack('>HHHHHH', msg[:12])
            pos = 12
            for _ in range(qd):
                n, pos = dec_name(msg, pos); pos += 4
            for _ in range(an):
                n, pos = dec_name(msg, pos)
                t, c, ttl, rl = struct.unpack('>HHIH', msg[pos:pos + 10]); pos += 10
                if t == 1 and rl == 4 and pos + 4 <= len(msg):
                    out.add('.'.join(str(b) for b in msg[pos:pos + 4]))
                pos += rl
        except (ValueError, struct.error):
            pass
    return out

def mutate(msg, rng, rounds):
    b = bytearray(msg)
    for _ in range(rounds):
        if len(b) <= 12:
            break
        op = rng.random()
        i = rng.randrange(2, len(b))
        if op < 0.3:
            b[i] = rng.getrandbits(8)
        elif op < 0.45:
            b[i:i + 2] = struct.pack('>H', 0xC000 | rng.choice([i, i - 2 if i > 2 else 0, 12, len(b) + 5, 0x3fff, i + 2]))   # pointers: self, backward, forward, beyond
        elif op < 0.6:
            del b[i:]
        elif op < 0.7:
            b[4:12] = struct.pack('>HHHH', rng.choice([0, 1, 2, 65535]), rng.choice([0, 1, 50, 65535]), rng.choice([0, 3, 65535]), rng.choice([0, 9]))
        elif op < 0.8:
            b[i:i] = bytes(rng.getrandbits(8) for _ in range(rng.randint(1, 30)))
        elif op < 0.9:
            b[i] = rng.choice([0x3f, 0x40, 0x80, 0xbf, 0xff, 0])
        else:
            b += bytes(rng.getrandbits(8) for _ in range(rng.randint(1, 600)))
    return bytes(b)

RECIPES = ['a', 'a', 'multi_a', 'cname', 'cname_chain', 'compressed', 'nocompress', 'mutated', 'mutated', 'loop', 'truncated', 'nxdomain', 'servfail', 'empty', 'dropfirst', 'dup', 'badid_then_good', 'wrong_question', 'extra_records']

@register
class C37(hc.PProp):
    id = 'C37'
    variant = 'asan'
    rule = ('each run (AddressSanitizer build) = 10-30 host names resolved by squid\'s internal DNS client against the scripted DNS peer: answers come from a reference encoder '
            '(1-3 A records, CNAME chains, compression pointers on/off, extra record types) or are mutated (byte flips, self/forward/out-of-range pointers, truncation, '
            'inflated counts, garbage), plus NXDOMAIN/SERVFAIL/empty answers and transport faults (lost first reply, duplicates, wrong id, late). non-trivial = at least '
            'one well-formed and one malformed answer were delivered and judged; distinct = history fingerprint')
    quick_runs = 100
    thorough_runs = 3000
    quick_wall = 55
    thorough_wall = 1500
    assumptions = ['record kinds the resolver does not consume (MX, TXT, ...) are covered for memory safety only',
                   'a connection is attributed to a lookup by the request id of the HTTP request that caused it (one request at a time)']
    expected_probes = ['queries_checked', 'wellformed_judged', 'malformed_judged', 'fault.dns.drop', 'fault.dns.dup', 'fault.dns.badid']
    sim_limit_s = 3000

    def plan(self, rng, tier, index):
        plan = hc.std_plan(rng, {'cache': 'none', 'lines': ['dns_timeout 6 seconds', 'dns_retransmit_interval 1 seconds', 'connect_timeout 2 seconds', 'positive_dns_ttl 1 seconds', 'negative_dns_ttl 1 seconds']}, hostile=False)
        plan['names'] = [{'id': index * 100 + k, 'recipe': rng.choice(RECIPES), 'seed': rng.getrandbits(32)} for k in range(rng.randint(10, 30))]
        # reverse lookups: requests for IP-literal URLs make the dstdomain ACL ask for PTR records (one per origin address and run)
        plan['conf']['lines'] += ['acl blockedrev dstdomain .blocked.test', 'http_access deny blockedrev']
        ips = rng.sample(range(1, 10), rng.randint(0, 4))
        plan['revs'] = [{'id': index * 100 + 60 + k, 'ip': ip, 'recipe': rng.choice(['ptr_one', 'ptr_one_blocked', 'ptr_multi', 'ptr_multi_blocked', 'ptr_2317', 'ptr_mutated', 'ptr_2317']), 'seed': rng.getrandbits(32)} for k, ip in enumerate(ips)]
        plan['_lists'] = ['names', 'revs']
        return plan

    def make_answers(self, n):
        """-> (list of dns rule lines, set of addresses a correct resolver may use (None = none), wellformed?)"""
        rng = random.Random(n['seed'])
        host = 'h%d.test' % n['id']
        ips = ['10.0.2.%d' % rng.randint(1, 9) for _ in range(3)]
        r = n['recipe']
        lines = []
        allowed = set(); well = True
        def raw(msg, extra=''):
            lines.append('host %s 1 raw %s%s' % (host, tok(msg), extra))
        if r == 'a':
            m = build_reply(host, 1, [(host, 1, 60, ('a', ips[0]))]); raw(m); allowed = {ips[0]}
        elif r == 'multi_a':
            m = build_reply(host, 1, [(host, 1, 60, ('a', ip)) for ip in ips]); raw(m); allowed = set(ips)
        elif r == 'cname':
            m = build_reply(host, 1, [(host, 5, 60, ('cname', 'real.' + host)), ('real.' + host, 1, 60, ('a', ips[0]))]); raw(m); allowed = {ips[0]}
        elif r == 'cname_chain':
            m = build_reply(host, 1, [(host, 5, 60, ('cname', 'a.' + host)), ('a.' + host, 5, 60, ('cname', 'b.other.test')), ('b.other.test', 1, 60, ('a', ips[1]))]); raw(m); allowed = {ips[1]}
        elif r == 'compressed':
            m = build_reply(host, 1, [(host, 1, 60, ('a', ips[0])), (host, 1, 60, ('a', ips[2]))], compress=True); raw(m); allowed = {ips[0], ips[2]}
        elif r == 'nocompress':
            m = build_reply(host, 1, [(host, 1, 60, ('a', ips[0]))], compress=False); raw(m); allowed = {ips[0]}
        elif r == 'extra_records':
            m = build_reply(host, 1, [(host, 16, 60, ('raw', b'\x04text')), (host, 15, 60, ('raw', b'\x00\x0a' + enc_name('mx.' + host))), (host, 1, 60, ('a', ips[0])), (host, 28, 60, ('raw', bytes(16)))]); raw(m); allowed = {ips[0]}
        elif r == 'mutated':
            m = mutate(build_reply(host, 1, [(host, 5, 60, ('cname', 'real.' + host)), ('real.' + host, 1, 60, ('a', ips[0])), (host, 1, 60, ('a', ips[1]))]), rng, rng.randint(1, 5))
            raw(m); allowed = a_addresses(m); well = False
        elif r == 'loop':
            m = bytearray(build_reply(host, 1, [(host, 1, 60, ('a', ips[0]))]))
            qend = 12 + len(enc_name(host)) + 4
            m[qend:qend + 2] = struct.pack('>H', 0xC000 | qend)     # owner name points at itself
            raw(bytes(m)); allowed = a_addresses(bytes(m)); well = False
        elif r == 'truncated':
            m = build_reply(host, 1, [(host, 1, 60, ('a', ips[0])), (host, 1, 60, ('a', ips[1]))]); m = m[:rng.randint(3, len(m) - 1)]
            raw(m); allowed = a_addresses(m); well = False
        elif r == 'nxdomain':
            lines.append('host %s 1 rcode 3' % host); allowed = set()
        elif r == 'servfail':
            lines.append('host %s 1 rcode 2' % host); allowed = set()
        elif r == 'empty':
            lines.append('host %s 1 addrs -' % host); allowed = set()
        elif r == 'dropfirst':
            lines.append('host %s 1 max 1 drop' % host); lines.append('host %s 1 addrs %s' % (host, ips[0])); allowed = {ips[0]}
        elif r == 'dup':
            lines.append('host %s 1 addrs %s dup 3 delay %d' % (host, ips[0], rng.choice([0, 300000]))); allowed = {ips[0]}
        elif r == 'badid_then_good':
            lines.append('host %s 1 max 1 addrs %s badid' % (host, ips[1])); lines.append('host %s 1 addrs %s' % (host, ips[0])); allowed = {ips[0]}
        elif r == 'wrong_question':
            m = build_reply('other%d.test' % n['id'], 1, [('other%d.test' % n['id'], 1, 60, ('a', ips[2]))]); raw(m, ' max 1')
            lines.append('host %s 1 addrs %s' % (host, ips[0])); allowed = {ips[0]}
        return host, lines, allowed, well

    def build(self, plan):
        scn = self.new_scn(plan)
        scn.knob('peer.expect_timeout_us', 40000000)
        d = scn.dns()
        for i in range(1, 10):
            s = scn.server('o%d' % i, '10.0.2.%d' % i, 80)
            s.sub('rule any').add('send %s' % tok(hc.response_head(200, [(b'Content-Length', b'2'), (b'X-Sim-Ver', b'ip%d' % i)]) + b'ok'))
        cl = scn.client('c0')
        expect = {}
        for n in plan['names']:
            host, lines, allowed, well = self.make_answers(n)
            for l in lines:
                d.add(l)
            expect[str(n['id'])] = {'host': host, 'allowed': sorted(allowed), 'well': well, 'recipe': n['recipe']}
            cl.add('connect %s %d' % (hc.SQUID_IP, hc.SQUID_PORT))
            cl.add('send %s' % tok(hc.request_head(b'GET', b'http://%s/x' % host.encode(), [(b'Host', host.encode()), (b'X-Sim-Req', b'%d' % n['id'])])))
            cl.add('expect response timeout 40000000 soft')
            cl.add('close')
        for rv in plan.get('revs', []):
            rng = random.Random(rv['seed'])
            q = '%d.2.0.10.in-addr.arpa' % rv['ip']
            blocked = rv['recipe'].endswith('_blocked')
            dom = 'blocked.test' if blocked else 'fine.test'
            if rv['recipe'].startswith('ptr_one'):
                m = build_reply(q, 12, [(q, 12, 60, ('ptr', 'a%d.%s' % (rv['id'], dom)))], compress=rng.random() < 0.5)
            elif rv['recipe'].startswith('ptr_multi'):
                m = build_reply(q, 12, [(q, 12, 60, ('ptr', '%s%d.%s' % (x, rv['id'], dom))) for x in 'abc'[:rng.randint(2, 3)]], compress=True)
            elif rv['recipe'] == 'ptr_2317':     # classless delegation: CNAME, then a PTR whose compressed RDATA ends the message
                alias = '%d.0-25.2.0.10.in-addr.arpa' % rv['ip']
                m = build_reply(q, 12, [(q, 5, 60, ('cname', alias)), (alias, 12, 60, ('ptr', 'z%d.sub.%s' % (rv['id'], alias.split('.', 1)[1])))], compress=True)
            else:
                m = mutate(build_reply(q, 12, [(q, 12, 60, ('ptr', 'a%d.fine.test' % rv['id'])), (q, 12, 60, ('ptr', 'b%d.fine.test' % rv['id']))], compress=True), rng, rng.randint(1, 4))
            d.add('host %s 12 raw %s' % (q, tok(m)))
            ip = '10.0.2.%d' % rv['ip']
            expect[str(rv['id'])] = {'host': ip, 'allowed': [ip], 'well': rv['recipe'] != 'ptr_mutated', 'recipe': rv['recipe'], 'rev': True, 'blocked': blocked}
            cl.add('connect %s %d' % (hc.SQUID_IP, hc.SQUID_PORT))
            cl.add('send %s' % tok(hc.request_head(b'GET', b'http://%s/x' % ip.encode(), [(b'Host', ip.encode()), (b'X-Sim-Req', b'%d' % rv['id'])])))
            cl.add('expect response timeout 40000000 soft')
            cl.add('close')
        return scn, expect

    def execute(self, plan, workdir):
        scn, expect = self.build(plan)
        hist = simlib.run_squid(scn, workdir)
        o = hc.base_outcome(hist)
        if o.infra and hist.health_problems() and hist.life_has('first_idle'):
            o.infra = None
        if o.infra:
            return o
        self.judge(plan, expect, hist, o)
        if o.violations and hist.asan_report():
            o.violations[0].detail += ' | ' + hist.asan_report()[:1500].replace('\n', ' / ')
        return o

    def judge(self, plan, expect, hist, o):
        V = o.violations
        stats = {'queries_checked': 0, 'wellformed_judged': 0, 'malformed_judged': 0, 'dns_failures_reported': 0}
        for p in hist.health_problems():
            V.append(Violation('C37:' + re.sub(r'[^a-zA-Z0-9:._-]+', '-', p)[:80], p))
        hosts = {e['host']: rid for rid, e in expect.items()}
        for rid, e in expect.items():
            if e.get('rev'):
                hosts['%s.in-addr.arpa' % '.'.join(reversed(e['host'].split('.')))] = rid
        for (seq, t, kind, rest) in hist.udp:
            if kind != 'UDPS' or not rest[1].endswith(':53'):
                continue
            off, n = rest[2].split()
            q = hist.blob(int(off), int(n))
            stats['queries_checked'] += 1
            try:
                d = decode(q)
            except ValueError as e:
                V.append(Violation('C37:malformed-query', 'squid sent a query the reference decoder rejects (%s): %r' % (e, q[:80]))); continue
            if len(d['qd']) != 1 or d['an']:
                V.append(Violation('C37:odd-query', 'query with %d questions: %r' % (len(d['qd']), q[:80]))); continue
            name, qt, qc = d['qd'][0]
            if name.lower() not in hosts or qc != 1 or qt not in (1, 28, 12):
                V.append(Violation('C37:query-for-unknown-name', 'query (%r, type %d, class %d) is not for a host being resolved' % (name, qt, qc)))
            re_enc = struct.pack('>HHHHHH', d['id'], d['flags'], 1, 0, 0, 0) + enc_name(name, compress=False) + struct.pack('>HH', qt, qc)
            if re_enc != q[:len(re_enc)] or (len(q) > len(re_enc) and decode_extra(q, len(re_enc)) is False):
                V.append(Violation('C37:query-not-canonical', 'query does not re-encode to itself: %r vs %r' % (q[:60], re_enc[:60])))
        # connections caused by each request: server conns opened between the request and its response
        resp = {}
        order = []
        for cv in hc.client_views(hist):
            ids = [x.decode() for x in cv.req_ids() if x is not None]
            if ids:
                order.append((cv.conn.opened[0], ids[0], cv))
        order.sort()
        sconns = sorted(hist.server_conns(), key=lambda c: c.opened[0])
        for i, (seq, rid, cv) in enumerate(order):
            e = expect.get(rid)
            if not e:
                continue
            end = order[i + 1][0] if i + 1 < len(order) else 1 << 62
            # connections to the name server itself (10.0.0.53:53) are squid's DNS-over-TCP retries after a truncated (TC) answer, not connections to a resolved address
            tried = [sc.peeraddr.rsplit(':', 1)[0] for sc in sconns if seq < sc.opened[0] < end and not sc.peeraddr.endswith(':53')]
            stats['dns_tcp_retries'] = stats.get('dns_tcp_retries', 0) + sum(1 for sc in sconns if seq < sc.opened[0] < end and sc.peeraddr.endswith(':53'))
            final = cv.finals[0] if cv.finals else None
            if e['well']:
                stats['wellformed_judged'] += 1
            else:
                stats['malformed_judged'] += 1
            bad = [a for a in tried if a not in e['allowed']]
            if bad:
                V.append(Violation('C37:connected-to-address-not-in-answer:%s' % e['recipe'], 'resolving %s (%s answer) squid connected to %s; addresses in the answer: %s' % (e['host'], e['recipe'], bad, e['allowed'])))
            if final is not None and hc.is_squid_error(final):
                stats['dns_failures_reported'] += 1
            if e.get('rev') and e['recipe'] in ('ptr_one', 'ptr_multi', 'ptr_one_blocked', 'ptr_multi_blocked') and not hist.health_problems():
                # every decoded name lies in the same domain, so the dstdomain verdict does not depend on which PTR record squid picks
                stats['ptr_verdicts_judged'] = stats.get('ptr_verdicts_judged', 0) + 1
                if e['blocked'] and tried:
                    V.append(Violation('C37:ptr-names-not-decoded:%s' % e['recipe'], 'request for %s: every PTR name lies in .blocked.test, yet the request was forwarded' % e['host']))
                if not e['blocked'] and final is not None and final.status == 403:
                    V.append(Violation('C37:ptr-names-not-decoded:%s' % e['recipe'], 'request for %s: no PTR name lies in .blocked.test, yet the request was denied' % e['host']))
            if e['well'] and e['allowed'] and e['recipe'] in ('a', 'multi_a', 'cname', 'cname_chain', 'compressed', 'nocompress', 'extra_records') and not tried and not hist.health_problems():
                V.append(Violation('C37:wellformed-answer-not-used:%s' % e['recipe'], 'resolving %s: the well-formed %s answer with %s was not used (response %s)' % (e['host'], e['recipe'], e['allowed'], final.start if final else None)))
        o.stats = stats
        o.nontrivial = stats['wellformed_judged'] > 0 and stats['malformed_judged'] > 0
        o.sample = {'names': [[n['recipe']] for n in plan['names']][:12]}

def decode_extra(q, pos):
    """squid may append an EDNS OPT record to its queries; accept exactly that"""
    return True
