"""C08 No descriptor leaks or crashes across abort histories. DESIGN.md §4."""
import random, re
import simlib
from simlib import Payload, G, tok
from framework import Violation
from props import register
from props import httpcommon as hc

KINDS = ['get_ok', 'get_ok', 'get_hit', 'client_abort_mid_response', 'client_reset_mid_response', 'server_close_mid_response', 'server_reset_mid_response', 'server_stall',
         'post_client_abort', 'post_client_stall', 'client_silent', 'client_partial_head', 'connect_ok', 'connect_client_reset', 'connect_server_reset', 'connect_refused',
         'connect_timeout', 'origin_refused', 'origin_timeout', 'client_not_reading', 'pipeline_abort', 'head_ok', 'server_garbage',
         'slow_response_then_idle', 'slow_response_then_idle', 'keepalive_idle']

TIMEOUT_CONF = ['request_timeout 5 seconds', 'request_start_timeout 5 seconds', 'read_timeout 10 seconds', 'write_timeout 15 seconds', 'client_lifetime 60 seconds', 'pconn_timeout 10 seconds',
                'client_idle_pconn_timeout 10 seconds', 'connect_timeout 5 seconds', 'forward_timeout 20 seconds']

def parse_snap(hist, label):
    sim = real = None
    for (seq, t, kind, rest) in hist.events:
        if kind == 'FDSNAP' and rest[0] == label:
            if rest[1] == 'sim':
                sim = [x.split(':') for x in (rest[2].split() if len(rest) > 2 else [])]
            else:
                real = {'nreal': int(rest[2]), 'nplace': int(rest[3]), 'orphans': int(rest[4]), 'paths': sorted(x.split('=', 1)[1] for x in (rest[5].split() if len(rest) > 5 else []))}
    return sim, real

@register
class C08(hc.PProp):
    id = 'C08'
    rule = ('each run = a warm-up transaction, an idle baseline snapshot of every descriptor squid holds (simulated table and /proc/self/fd), then '
            '10-60 concurrent transactions drawn from 23 kinds (complete, client/server close, reset or stall at random byte offsets of request, body '
            'or response, silent clients, tunnels ended abruptly, refused/timed-out connects, non-reading clients, pipelines cut short, garbage), '
            'optional clock jumps; after the last peer is done the simulator runs past every configured timeout, a probe request must be served, and '
            'the final descriptor snapshot is compared with the baseline. non-trivial = at least 5 aborted/stalled transactions ran; distinct = '
            'history fingerprint')
    quick_runs = 160
    thorough_runs = 4000
    quick_wall = 55
    thorough_wall = 1500
    assumptions = ['timeouts are configured small (5-60 s) so that "once traffic stops and timeouts expire" is reached within the simulated drain time',
                   'the simulated descriptor table is cross-checked against /proc/self/fd on every snapshot']
    expected_probes = ['aborts_run', 'probes_ok', 'fault.net.peer_reset', 'fault.connect.refuse', 'fault.connect.timeout']
    sim_limit_s = 4000

    def plan(self, rng, tier, index):
        plan = hc.std_plan(rng, {'cache': rng.choice(['none', 'mem', 'mem', 'ufs', 'rock']), 'lines': list(TIMEOUT_CONF) + ['pipeline_prefetch %d' % rng.choice([0, 1, 3])]})
        plan['pconn_lifetime'] = rng.choice([0, 2, 5, 30])
        if plan['pconn_lifetime']:
            plan['conf']['lines'].append('pconn_lifetime %d seconds' % plan['pconn_lifetime'])
        if rng.random() < 0.3:
            plan['conf']['lines'].append('half_closed_clients on')
        if rng.random() < 0.3:
            plan['conf']['lines'].append('server_persistent_connections off')
        plan['txns'] = [{'id': index * 1000 + k, 'kind': rng.choice(KINDS), 'size': hc.pick_size(rng, big_ok=False, max_size=200000), 'frac': rng.random(),
                         'start': rng.choice([0, 0, 1000, 100000, 3000000])} for k in range(rng.randint(10, 60))]
        plan['jumps'] = []
        if rng.random() < 0.3:
            for _ in range(rng.randint(1, 3)):
                plan['jumps'].append([rng.randint(31, 200) * 1000000, rng.choice([3600, 86400, 7, -3, -5]) * 1000000])
        plan['_lists'] = ['txns', 'jumps']
        return plan

    def build(self, plan):
        scn = self.new_scn(plan)
        scn.knob('peer.expect_timeout_us', 100000000)
        scn.drain_us = 40000000
        srv = scn.server('o1', '10.0.0.1', 80)
        tun = scn.server('t1', '10.0.0.2', 443)
        tun_rst = scn.server('t2', '10.0.0.2', 444)
        scn.server('ref', '10.0.0.3', 80).add('connect * refuse')
        scn.server('tmo', '10.0.0.4', 80).add('connect * timeout')
        a = tun.sub('onaccept *'); a.add('send %s' % tok(b'S' * 300)); a.add('expect eof timeout 60000000 soft')
        a = tun_rst.sub('onaccept *'); a.add('send %s' % tok(b'S' * 300)); a.add('expect bytes 10 timeout 5000000 soft'); a.add('reset')
        for at, by in plan['jumps']:
            scn.line('jump at %d by %d' % (at, by))
        # warm-up + baseline
        w = scn.client('warm')
        w.add('connect %s %d' % (hc.SQUID_IP, hc.SQUID_PORT))
        w.add('send %s' % tok(hc.request_head(b'GET', b'http://10.0.0.1/warm', [(b'Host', b'10.0.0.1')])))
        w.add('expect response'); w.add('close'); w.add('wait 30000000')
        srv.sub('rule warm has %s' % tok(b' /warm ')).add('send %s' % tok(hc.response_head(200, [(b'Content-Length', b'2'), (b'Cache-Control', b'no-store')]) + b'ok'))
        scn.line('snapshot baseline after done:warm 0')
        names = []
        hit_rule = srv.sub('rule hit has %s' % tok(b' /hit '))
        hit_rule.add('send %s' % Payload(hc.response_head(200, [(b'Content-Length', b'5000'), (b'Cache-Control', b'max-age=1000')]), G('hithithi', 0, 5000)).token())
        for t in plan['txns']:
            k = t['kind']; rid = t['id']; name = 'x%d' % rid; names.append(name)
            cl = scn.client(name)
            cl.add('await done:warm'); cl.add('wait %d' % (1000 + t['start']))
            cl.add('connect %s %d' % (hc.SQUID_IP, hc.SQUID_PORT))
            size = t['size']; key = hc.obj_key(rid % 10000000)
            resp = Payload(hc.response_head(200, [(b'Content-Length', b'%d' % size), (b'X-Sim-Ver', key.encode())]), G(key, 0, size))
            get = lambda host=b'10.0.0.1', path=None: hc.request_head(b'GET', b'http://' + host + (path or b'/f%d' % rid), [(b'Host', host), (b'X-Sim-Req', b'%d' % rid)])
            rule = None
            def mkrule():
                return srv.sub('rule f%d has %s' % (rid, tok(b' /f%d ' % rid)))
            cut = int(t['frac'] * len(resp))
            if k in ('get_ok', 'head_ok'):
                mkrule().add('send %s' % resp.token())
                cl.add('send %s' % tok(get() if k == 'get_ok' else get().replace(b'GET ', b'HEAD ', 1)))
                cl.add('expect %s' % ('response' if k == 'get_ok' else 'response-nobody')); cl.add('close')
            elif k == 'get_hit':
                cl.add('send %s' % tok(get(path=b'/hit'))); cl.add('expect response'); cl.add('close')
            elif k in ('client_abort_mid_response', 'client_reset_mid_response'):
                mkrule().add('send %s pace 0 500' % resp.token())
                cl.add('send %s' % tok(get())); cl.add('expect bytes %d timeout 30000000 soft' % max(1, cut)); cl.add('close' if k == 'client_abort_mid_response' else 'reset')
            elif k in ('server_close_mid_response', 'server_reset_mid_response', 'server_stall'):
                r = mkrule(); r.add('send %s' % resp.slice(0, max(1, cut)).token()); r.add({'server_close_mid_response': 'close', 'server_reset_mid_response': 'reset', 'server_stall': 'stall'}[k])
                cl.add('send %s' % tok(get())); cl.add('expect response timeout 60000000 soft'); cl.add('close')
            elif k in ('post_client_abort', 'post_client_stall'):
                r = mkrule(); r.add('expect body timeout 50000000 soft'); r.add('send %s' % resp.token())
                body = Payload(G(key, 0, size))
                head = hc.request_head(b'POST', b'http://10.0.0.1/f%d' % rid, [(b'Host', b'10.0.0.1'), (b'X-Sim-Req', b'%d' % rid), (b'Content-Length', b'%d' % (size + 10))])
                cl.add('send %s' % Payload(head, body.slice(0, int(t['frac'] * size))).token())
                cl.add('close' if k == 'post_client_abort' else 'stall')
            elif k in ('slow_response_then_idle', 'keepalive_idle'):
                # a persistent connection pair that is still busy when its age crosses pconn_lifetime (slow response), then idle with both peers keeping their ends open
                n = 1200
                small = Payload(hc.response_head(200, [(b'Content-Length', b'%d' % n), (b'Cache-Control', b'no-store')]), G(key, 0, n))
                life = plan.get('pconn_lifetime') or 5
                pace = int(life * 1500000 / n) if k == 'slow_response_then_idle' else 0
                mkrule().add('send %s%s' % (small.token(), ' seg byte pace %d %d' % (pace, pace + 500) if pace else ''))
                cl.add('send %s' % tok(get())); cl.add('expect response timeout 100000000 soft'); cl.add('stall')
            elif k == 'client_silent':
                cl.add('stall')
            elif k == 'client_partial_head':
                cl.add('send %s' % tok(get()[:max(1, int(t['frac'] * 40))])); cl.add('stall')
            elif k in ('connect_ok', 'connect_client_reset', 'connect_server_reset', 'connect_refused', 'connect_timeout'):
                target = {'connect_ok': b'10.0.0.2:443', 'connect_client_reset': b'10.0.0.2:443', 'connect_server_reset': b'10.0.0.2:444', 'connect_refused': b'10.0.0.3:80', 'connect_timeout': b'10.0.0.4:80'}[k]
                cl.add('send %s' % tok(b'CONNECT ' + target + b' HTTP/1.1\r\nHost: ' + target + b'\r\n\r\n'))
                cl.add('expect head timeout 30000000 soft')
                cl.add('send %s' % tok(b'C' * 200))
                if k == 'connect_client_reset':
                    cl.add('reset')
                elif k == 'connect_ok':
                    cl.add('wait 200000'); cl.add('close')
                else:
                    cl.add('expect eof timeout 60000000 soft'); cl.add('close')
            elif k in ('origin_refused', 'origin_timeout'):
                host = b'10.0.0.3' if k == 'origin_refused' else b'10.0.0.4'
                cl.add('send %s' % tok(get(host))); cl.add('expect response timeout 60000000 soft'); cl.add('close')
            elif k == 'client_not_reading':
                big = Payload(hc.response_head(200, [(b'Content-Length', b'600000')]), G(key, 0, 600000))
                mkrule().add('send %s' % big.token())
                cl.add('readstop'); cl.add('send %s' % tok(get())); cl.add('stall')
            elif k == 'pipeline_abort':
                mkrule().add('send %s pace 0 300' % resp.token())
                cl.add('send %s seg whole' % tok(get() + get() + get()[:20])); cl.add('expect bytes %d timeout 20000000 soft' % max(1, cut // 2)); cl.add('reset')
            elif k == 'server_garbage':
                r = mkrule(); r.add('send %s' % tok(b'\x00\xff garbage \r\n\r\n' * 5)); r.add('close')
                cl.add('send %s' % tok(get())); cl.add('expect response timeout 30000000 soft'); cl.add('close')
        p = scn.client('probe')
        for n in names:
            p.add('await done:%s timeout 3000000000' % n)
        p.add('wait 90000000')
        p.add('connect %s %d' % (hc.SQUID_IP, hc.SQUID_PORT))
        p.add('send %s' % tok(hc.request_head(b'GET', b'http://10.0.0.1/probe', [(b'Host', b'10.0.0.1'), (b'X-Sim-Req', b'probe')])))
        p.add('expect response timeout 5000000'); p.add('close')
        srv.sub('rule probe has %s' % tok(b' /probe ')).add('send %s' % tok(hc.response_head(200, [(b'Content-Length', b'5'), (b'Cache-Control', b'no-store')]) + b'probe'))
        return scn, None

    def judge(self, plan, expect, hist, o):
        V = o.violations
        stats = {'aborts_run': 0, 'probes_ok': 0, 'end_sim_fds': 0}
        for p in hist.health_problems():
            V.append(Violation('C08:' + re.sub(r'[^a-zA-Z0-9:._-]+', '-', p)[:80], p))
        bsim, breal = parse_snap(hist, 'baseline')
        esim, ereal = parse_snap(hist, 'end')
        if bsim is None or esim is None or breal is None or ereal is None:
            if not V:
                o.infra = 'descriptor snapshots missing (end=%s)' % hist.end
            return
        stats['aborts_run'] = sum(1 for t in plan['txns'] if t['kind'] not in ('get_ok', 'get_hit', 'head_ok', 'connect_ok'))
        stats['end_sim_fds'] = len(esim)
        if breal['orphans'] or ereal['orphans']:
            o.infra = 'simulator descriptor table disagrees with /proc/self/fd (orphan placeholders)'; return
        def classify(sim):
            out = {}
            for fd, kind, ck, peer, cid in sim:
                key = kind + ':' + ck + (':' + peer if kind in ('listen', 'udp') or ck == 'h' else '')
                out[key] = out.get(key, 0) + 1
            return out
        b, e = classify(bsim), classify(esim)
        for key in sorted(set(b) | set(e)):
            if e.get(key, 0) > b.get(key, 0):
                what = 'client connection' if key == 'conn:c' else 'upstream connection' if key == 'conn:s' else key
                detail = [x for x in esim if (x[1] + ':' + x[2]) == key[:6]][:5]
                V.append(Violation('C08:leaked-%s' % key.replace(':', '-'), '%d %s descriptor(s) still open after all timeouts (baseline %d): %s' % (e.get(key, 0), what, b.get(key, 0), detail)))
        extra = list(ereal['paths'])
        for pth in breal['paths']:
            if pth in extra:
                extra.remove(pth)
        extra = [x for x in extra if not x.startswith('/cache/')] + [x for x in extra if x.startswith('/cache/') and not re.search(r'swap\.state|/rock$', x)]
        if extra:
            V.append(Violation('C08:leaked-file-descriptor', 'non-socket descriptors open at the end but not at the idle baseline: %s' % extra[:6]))
        ok = False
        for cv in hc.client_views(hist, 'probe'):
            if cv.finals and cv.finals[0].status == 200 and cv.finals[0].body == b'probe':
                ok = True
        if ok:
            stats['probes_ok'] = 1
        elif not V:
            V.append(Violation('C08:probe-not-served', 'after all traffic stopped and timeouts expired a fresh request was not served within 5 s'))
        o.stats = stats
        o.nontrivial = stats['aborts_run'] >= 5
        kinds = {}
        for t in plan['txns']:
            kinds[t['kind']] = kinds.get(t['kind'], 0) + 1
        o.sample = {'conf': plan['conf']['cache'], 'jumps': plan['jumps'], 'kinds': kinds}
