"""C57 Rock rebuild indexes only intact entries from any disk image (ASan build). DESIGN.md §4."""
import os, random, re, copy, hashlib, struct
import simlib
from framework import Violation, Outcome
from props import register
from props import httpcommon as hc
from props import cachefam as cf
from props.p_c16 import phase2_plan, last_time

HDR = 16 * 1024
CELL = struct.Struct('<QQQIIii')   # key[2], entrySize, payloadSize, version, firstSlot, nextSlot

def damage(path, slot_size, rng, ops):
    """apply seeded damage operations to a rock db file; returns a description list"""
    size = os.path.getsize(path)
    nslots = max(0, (size - HDR) // slot_size)
    done = []
    with open(path, 'r+b') as f:
        def read_cell(i):
            f.seek(HDR + i * slot_size); return list(CELL.unpack(f.read(CELL.size).ljust(CELL.size, b'\0')))
        def write_cell(i, c):
            f.seek(HDR + i * slot_size); f.write(CELL.pack(*c))
        occupied = []
        for i in range(min(nslots, 4096)):
            c = read_cell(i)
            if c[3] or c[5] or c[6]:
                occupied.append(i)
        if not occupied:
            return ['no occupied slots']
        for op in ops:
            kind = op['kind']
            a = occupied[op['a'] % len(occupied)]; b = occupied[op['b'] % len(occupied)]
            c = read_cell(a)
            if kind == 'field':
                fld = op['field'] % 6
                val = op['val']
                idx = [0, 2, 3, 4, 5, 6][fld]
                edge = [0, 1, -1, 2 ** 31 - 1, nslots, nslots - 1, a, b, slot_size, slot_size - CELL.size, slot_size - CELL.size + 1, 2 ** 32 - 1, 2 ** 63][val % 13]
                if idx in (5, 6):
                    edge = max(-2 ** 31, min(2 ** 31 - 1, edge if edge < 2 ** 31 else -1))
                elif idx in (3, 4):
                    edge = edge % (2 ** 32)
                else:
                    edge = edge % (2 ** 64)
                c[idx] = edge; write_cell(a, c); done.append('slot %d field %d := %d' % (a, idx, edge))
            elif kind == 'entrysize_max':      # an impossible total size in a slot header that is otherwise sane()
                c[2] = 2 ** 64 - 1; write_cell(a, c); done.append('slot %d entrySize := 2^64-1' % a)
            elif kind == 'crosslink':
                c[6] = b; write_cell(a, c); done.append('slot %d nextSlot := %d (other chain)' % (a, b))
            elif kind == 'selfloop':
                c[6] = a; write_cell(a, c); done.append('slot %d nextSlot := itself' % a)
            elif kind == 'backlink':
                c[6] = c[5]; write_cell(a, c); done.append('slot %d nextSlot := its firstSlot %d' % (a, c[5]))
            elif kind == 'zero':
                f.seek(HDR + a * slot_size); f.write(b'\0' * slot_size); done.append('slot %d zeroed' % a)
            elif kind == 'dup':
                f.seek(HDR + a * slot_size); data = f.read(slot_size); f.seek(HDR + b * slot_size); f.write(data); done.append('slot %d copied over slot %d' % (a, b))
            elif kind == 'swap':
                f.seek(HDR + a * slot_size); da = f.read(slot_size); f.seek(HDR + b * slot_size); db = f.read(slot_size)
                f.seek(HDR + a * slot_size); f.write(db); f.seek(HDR + b * slot_size); f.write(da); done.append('slots %d and %d swapped' % (a, b))
            elif kind == 'keyflip':
                c[0] ^= 1 << (op['val'] % 64); write_cell(a, c); done.append('slot %d key bit flipped' % a)
            elif kind == 'garbage':
                f.seek(HDR + a * slot_size); f.write(bytes(rng.getrandbits(8) for _ in range(CELL.size))); done.append('slot %d header := random bytes' % a)
            elif kind == 'truncate':
                newsize = HDR + a * slot_size + (op['val'] % slot_size)
                f.truncate(newsize); done.append('file truncated to %d' % newsize)
            elif kind == 'dbheader':
                f.seek(0); f.write(bytes(rng.getrandbits(8) for _ in range(64))); done.append('db header := random bytes')
    return done

KINDS = ['field', 'field', 'field', 'entrysize_max', 'crosslink', 'selfloop', 'backlink', 'zero', 'dup', 'swap', 'keyflip', 'garbage', 'truncate', 'dbheader']

@register
class C57(hc.PProp):
    id = 'C57'
    variant = 'asan'
    rule = ('each run (AddressSanitizer build) = populate a rock cache_dir (1-64 MB, slot size 4-32 KB) with 5-12 URLs of 0..150 KB incl. overwrites, '
            'optionally ending in a kill at a random file operation; then 1-6 seeded damage operations on the db file (slot header fields set to edge values, '
            'chains cross-linked / made cyclic, slots zeroed, duplicated, swapped, key bits flipped, headers randomised, file truncated, db header '
            'randomised); squid restarts, rebuilds, and the simulator walks every readable index entry through Ipc::StoreMap; all URLs are requested '
            'again. non-trivial = damage touched an occupied slot and the rebuilt index was walked; distinct = history fingerprint')
    quick_runs = 60
    thorough_runs = 1500
    quick_wall = 55
    thorough_wall = 1800
    assumptions = ['slot payload bytes carry no checksum, so payload-only corruption is outside the property; hits are checked for URL identity, structure is checked by the index walk',
                   'single worker; the index walk uses only the public Ipc::StoreMap reader API']
    expected_probes = ['entries_walked', 'damage_ops', 'restarts_ok']
    sim_limit_s = 3000

    def plan(self, rng, tier, index):
        conf = {'cache': 'rock', 'cache_mem_mb': 0, 'lines': [], 'rock_mb': rng.choice([1, 2, 64]), 'rock_slot': rng.choice([4096, 16384, 32768])}
        plan = hc.std_plan(rng, conf, hostile=False)
        plan['knobs'] = {'net.seg.max': [16384], 'clock.tick_us': [1, 20]}
        nurl = rng.randint(5, 12)
        plan['urls'] = [{'sizes': [rng.choice([0, 100, 4000, 16000, 16384, 33000, 70000, 150000]) for _ in range(2)], 'lm': True, 'cc': 'max-age=1000000',
                         'bumps': sorted(rng.randint(1, 10) * 1000000 for _ in range(rng.choice([0, 0, 1])))} for u in range(nurl)]
        steps = []
        rid = index * 1000
        for k in range(rng.randint(nurl, 2 * nurl)):
            rid += 1
            steps.append({'id': rid, 'u': k % nurl if k < nurl else rng.randrange(nurl), 'wait': rng.choice([0, 1000, 300000, 2000000]),
                          'hdrs': [('Cache-Control', 'no-cache')] if rng.random() < 0.15 else []})
        plan['clients'] = [{'name': 'c0', 'steps': steps}]
        plan['crash_frac'] = rng.random() if rng.random() < 0.3 else None
        plan['damage'] = [{'kind': rng.choice(KINDS), 'a': rng.getrandbits(16), 'b': rng.getrandbits(16), 'field': rng.getrandbits(8), 'val': rng.getrandbits(16)} for _ in range(rng.randint(1, 6))]
        plan['damage_seed'] = rng.getrandbits(32)
        plan['_lists'] = ['damage', 'clients.0.steps']
        return plan

    def build(self, plan):
        scn, srv = cf.build_world(self, plan)
        for d in plan.get('disk', []):
            scn.line(d)
        if plan.get('walk'):
            scn.knob('rock.walk', 1)
        return scn, None

    def execute(self, plan, workdir):
        o = Outcome()
        o.stats = {'entries_walked': 0, 'damage_ops': 0, 'restarts_ok': 0, 'hits_after_damage': 0, 'hits_body_differs_note': 0}
        p1 = copy.deepcopy(plan); p1['disk'] = []
        scn, _ = self.build(p1)
        scn.drain_us = 3000000
        h1 = simlib.run_squid(scn, workdir)
        b = hc.base_outcome(h1)
        if b.infra:
            o.infra = b.infra; return o
        if plan.get('crash_frac') is not None:
            nops = max([int(f[2][-1]) for f in h1.files if f[2][0] == 'write' and f[2][-1].isdigit()] or [0])
            if nops > 2:
                simlib.cleanup_rundir(workdir)
                p1['disk'] = ['disk crash at %d' % (1 + int(plan['crash_frac'] * (nops - 1)))]
                scn, _ = self.build(p1)
                h1 = simlib.run_squid(scn, workdir)
        recs1, sent1 = cf.analyse(h1, p1)
        db = os.path.join(workdir, 'cache', 'rock', 'rock')
        if not os.path.exists(db):
            o.infra = 'rock db missing'; return o
        done = damage(db, plan['conf']['rock_slot'], random.Random(plan['damage_seed']), plan['damage'])
        o.stats['damage_ops'] = len([d for d in done if d != 'no occupied slots'])
        p2 = phase2_plan(plan, 0); p2['walk'] = True
        scn2, _ = self.build(p2)
        scn2.clock0 = last_time(h1) + 5000000
        h2 = simlib.run_scn(scn2.text(), workdir, phase_name='p2')
        o.fp = hashlib.sha256((h1.fingerprint() + h2.fingerprint()).encode()).hexdigest(); o.sig = o.fp[:16]
        o.probes = dict(h2.probes); o.simsec = h1.sim_seconds() + h2.sim_seconds()
        tag = 'damage=%s' % done
        probs = h2.health_problems()
        if probs or not h2.life_has('ready'):
            cls = 'C57:rebuild-crashed' if probs else 'C57:rebuild-did-not-finish'
            o.violations.append(Violation(cls, 'after %s: ready=%s problems=%s %s' % (tag, h2.life_has('ready'), probs, h2.asan_report()[:1200].replace('\n', ' / '))))
            return o
        o.stats['restarts_ok'] = 1
        for (seq, t, kind, rest) in h2.events:
            if kind == 'ROCKWALK' and rest[1] == 'entry':
                o.stats['entries_walked'] += 1
                if rest[-1] != 'ok':
                    # a nextSlot field redirected into another entry's chain (kind crosslink, or a field edit of nextSlot): see known_findings.json
                    ncross = sum(1 for d in plan.get('damage', []) if d.get('kind') == 'crosslink' or (d.get('kind') == 'field' and d.get('field', 0) % 6 == 5))
                    suffix = ':crosslinked' if ncross >= 1 else ''
                    o.violations.append(Violation('C57:readable-entry-%s%s' % (rest[-1], suffix), 'after %s: index entry %s (walk %s) has %s slices, payload sum %s, entry size %s: %s' % (tag, rest[3], rest[0], rest[4], rest[5], rest[6], rest[-1])))
        recs2, sent2 = cf.analyse(h2, p2)
        for r in recs2:
            m = r.resp
            if r.u is None or r.contacts or hc.is_squid_error(m) or m.status != 200:
                continue
            o.stats['hits_after_damage'] += 1
            if r.ver is None or r.ver_u != r.u:
                o.violations.append(Violation('C57:hit-for-wrong-url', 'after %s: GET for url %d served from cache carries X-Sim-Ver %r' % (tag, r.u, m.get(b'x-sim-ver'))))
            elif m.body != cf.version_body(plan, r.u, r.ver):
                o.stats['hits_body_differs_note'] += 1
        o.nontrivial = o.stats['damage_ops'] > 0
        o.sample = {'conf': plan['conf'], 'damage': done, 'crash': plan.get('crash_frac') is not None, 'walked': o.stats['entries_walked']}
        return o
