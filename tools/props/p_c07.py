"""C07 Non-idempotent requests are not resent after reaching the origin. DESIGN.md §4."""
import random, re
import simlib
from simlib import Payload, G, tok
from framework import Violation
from props import register
from props import httpcommon as hc

NONIDEM = ['POST', 'PATCH', 'FROB']
IDEM = ['GET', 'PUT', 'DELETE']
SERVER_MODES = ['ok', 'ok', 'refuse', 'timeout', 'close_on_accept', 'close_after_8', 'rst_after_8', 'ok']
# a complete 502/503 answer is a response, not a failed upstream connection: squid's re-forwarding after such a status (FwdState::reforward() does not look at the
# method, only at bodyNibbled()) does resend body-less POST/PATCH to the next address, but that is outside the statement of C07 and is only recorded as a probe
RESP_MODES = ['ok', 'ok', 'ok', 'close_after_head', 'rst_after_head', 'close_after_body', 'rst_mid_response', 'idle_close', 's502']

@register
class C07(hc.PProp):
    id = 'C07'
    rule = ('each run = one host name with 1-3 origin addresses; per address a connection-level behaviour (ok / refuse / SYN timeout / close or '
            'reset at accept or after 8 request bytes) and optionally server_pconn_for_nonretriable allow all and retry_on_error on; per (request, address) a response behaviour (ok / close or reset after head / after '
            'body / reset mid-response / 502 / 503 / close the idle persistent connection later); 2-12 requests with non-idempotent (POST, PATCH, '
            'extension) and idempotent control methods, bodies 0..100 KB, on 1-3 client connections. non-trivial = a non-idempotent request was '
            'begun on an upstream connection that then failed; distinct = history fingerprint')
    quick_runs = 400
    thorough_runs = 10000
    quick_wall = 50
    thorough_wall = 1200
    assumptions = ['"began" = squid write() returned > 0 for bytes containing the request target on that upstream connection (observed at the syscall seam)',
                   'scripted peers; single worker (-N)']
    expected_probes = ['retry_taken_idempotent', 'nonidem_begun_then_failed']

    def plan(self, rng, tier, index):
        plan = hc.std_plan(rng, {'cache': 'none', 'lines': ['connect_timeout 3 seconds', 'read_timeout 10 seconds', 'forward_timeout 40 seconds']})
        if rng.random() < 0.3:
            plan['conf']['lines'].append('server_persistent_connections off')
        if rng.random() < 0.3:
            plan['conf']['lines'].append('retry_on_error on')
        if rng.random() < 0.4:
            # non-idempotent requests may then reuse idle persistent connections, where a "zero reply" failure is most tempting to retry
            plan['conf']['lines'].append('server_pconn_for_nonretriable allow all')
        nsrv = rng.randint(1, 3)
        plan['servers'] = [rng.choice(SERVER_MODES) for _ in range(nsrv)]
        if all(m in ('refuse', 'timeout') for m in plan['servers']):
            plan['servers'][rng.randrange(nsrv)] = 'ok'
        clients = []
        tid = 0
        for ci in range(rng.randint(1, 3)):
            c = {'name': 'c%d' % ci, 'start': rng.choice([0, 0, 30000]), 'txns': []}
            for _ in range(rng.randint(1, 5)):
                tid += 1
                m = rng.choice(NONIDEM + NONIDEM + IDEM)
                t = {'id': index * 100 + tid, 'method': m, 'body': rng.choice([0, 0, 10, 3000, 100000]) if m not in ('GET', 'DELETE') else 0,
                     'chunked': rng.random() < 0.3, 'resp': [rng.choice(RESP_MODES) for _ in range(nsrv)], 'gap': rng.choice([0, 1000, 200000])}
                c['txns'].append(t)
            clients.append(c)
        plan['clients'] = clients
        plan['_lists'] = ['clients'] + ['clients.%d.txns' % i for i in range(len(clients))]
        return plan

    def build(self, plan):
        scn = self.new_scn(plan)
        scn.knob('peer.expect_timeout_us', 90000000)
        ips = ['10.0.1.%d' % (i + 1) for i in range(len(plan['servers']))]
        d = scn.dns(); d.add('host multi.test 1 addrs %s' % ','.join(ips)); d.add('host multi.test 28 addrs -')   # hosts_file keeps one address per name
        srvs = []
        for i, mode in enumerate(plan['servers']):
            s = scn.server('m%d' % i, ips[i], 80)
            if mode == 'refuse':
                s.add('connect * refuse')
            elif mode == 'timeout':
                s.add('connect * timeout')
            elif mode == 'close_on_accept':
                s.sub('onaccept *').add('close')
            elif mode == 'close_after_8':
                a = s.sub('onaccept *'); a.add('expect bytes 8'); a.add('close')
            elif mode == 'rst_after_8':
                a = s.sub('onaccept *'); a.add('expect bytes 8'); a.add('reset')
            srvs.append(s)
        expect = {}
        for c in plan['clients']:
            cl = scn.client(c['name'], start=c['start'])
            need = True
            for t in c['txns']:
                rid = str(t['id'])
                expect[rid] = {'method': t['method'], 'nonidem': t['method'] in NONIDEM, 'has5xx': any(x in ('s502', 's503') for x in t['resp'])}
                body = Payload(G(hc.obj_key(t['id']), 0, t['body']))
                hdrs = [(b'Host', b'multi.test'), (b'X-Sim-Req', rid.encode())]
                if t['method'] not in ('GET', 'DELETE'):
                    if t['chunked'] and t['body']:
                        hdrs.append((b'Transfer-Encoding', b'chunked')); enc = simlib.chunk_encode(body, random.Random(t['id']))
                    else:
                        hdrs.append((b'Content-Length', str(t['body']).encode())); enc = body
                else:
                    enc = Payload()
                req = Payload(hc.request_head(t['method'].encode(), b'http://multi.test/n%d' % t['id'], hdrs), enc)
                for i, s in enumerate(srvs):
                    rm = t['resp'][i]
                    r = s.sub('rule t%d has %s' % (t['id'], tok(b' /n%d ' % t['id'])))
                    resp = hc.response_head(200, [(b'Content-Length', b'100'), (b'X-Sim-Ver', b'n%d' % t['id'])]) + b'r' * 100
                    if rm == 'close_after_head':
                        r.add('close')
                    elif rm == 'rst_after_head':
                        r.add('reset')
                    else:
                        r.add('expect body')
                        if rm == 'close_after_body':
                            r.add('close')
                        elif rm == 'rst_mid_response':
                            r.add('send %s seg whole' % tok(resp[:60])); r.add('reset')
                        elif rm in ('s503', 's502'):
                            r.add('send %s' % tok(hc.response_head(int(rm[1:]), [(b'Content-Length', b'0')])))
                        else:
                            r.add('send %s' % tok(resp))
                            if rm == 'idle_close':
                                r.add('wait %d' % random.Random(t['id'] + i).choice([100, 1000, 50000, 250000]))
                                r.add('close')
                if need:
                    cl.add('connect %s %d' % (hc.SQUID_IP, hc.SQUID_PORT)); need = False
                if t['gap']:
                    cl.add('wait %d' % t['gap'])
                cl.add('send %s' % req.token())
                cl.add('expect response timeout 90000000')
                cl.add('close'); need = True
        return scn, expect

    def judge(self, plan, expect, hist, o):
        V = o.violations
        stats = {'retry_taken_idempotent': 0, 'nonidem_begun_then_failed': 0, 'requests_begun': 0}
        begun = {}
        for sc in hist.server_conns():
            wrote = hist.from_squid(sc)
            for m in re.finditer(rb' /n(\d+) ', wrote):
                begun.setdefault(m.group(1).decode(), [])
                if sc.id not in begun[m.group(1).decode()]:
                    begun[m.group(1).decode()].append(sc.id)
        # which client requests got a non-error final answer
        answered_ok = set()
        for cv in hc.client_views(hist):
            ids = [x.decode() for x in cv.req_ids() if x is not None]
            for k, m in enumerate(cv.finals[:len(ids)]):
                if m.status == 200 and not hc.is_squid_error(m):
                    answered_ok.add(ids[k])
        nontrivial = 0
        for rid, conns in sorted(begun.items()):
            e = expect.get(rid)
            if e is None:
                continue
            stats['requests_begun'] += 1
            if e['nonidem'] and len(conns) > 1 and e.get('has5xx'):
                stats['nonidem_reforwarded_after_5xx_response'] = stats.get('nonidem_reforwarded_after_5xx_response', 0) + 1
            elif e['nonidem']:
                if len(conns) > 1:
                    V.append(Violation('C07:nonidempotent-resent', '%s request %s was begun on %d upstream connections %s' % (e['method'], rid, len(conns), conns)))
                elif rid not in answered_ok:
                    stats['nonidem_begun_then_failed'] += 1; nontrivial += 1
            elif len(conns) > 1:
                stats['retry_taken_idempotent'] += 1
        o.stats = stats
        o.nontrivial = nontrivial > 0
        o.sample = {'servers': plan['servers'], 'conf': plan['conf']['lines'], 'txns': [[t['method'], t['body'], t['resp']] for c in plan['clients'] for t in c['txns']][:6]}
