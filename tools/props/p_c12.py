"""C12 Stale responses are not served without revalidation. DESIGN.md §4."""
import random, re
from framework import Violation
from props import register
from props import httpcommon as hc
from props import cachefam as cf

@register
class C12(hc.PProp):
    id = 'C12'
    rule = ('each run = 4-8 URLs with explicit freshness lifetimes N in {1,5,30,120,3600} s given by s-maxage, max-age or Expires-Date (optionally '
            'must-revalidate / proxy-revalidate, Date skewed by up to +-2 days, Age header), requested 3-8 times each at simulated times before, '
            'around and after expiry, with request directives none / max-age=0 / no-cache / max-age=K / max-stale[=K] / min-fresh=K; default '
            'refresh rules, simulated clock, no clock jumps. non-trivial = a request issued after receipt+lifetime+2 s was judged; distinct = fingerprint')
    quick_runs = 240
    thorough_runs = 5000
    quick_wall = 50
    thorough_wall = 900
    assumptions = ['enforced bound is the weakest reading: stale once now > time squid last received a response for the URL + explicit lifetime + 2 s',
                   'immutable, stale-while-revalidate, stale-if-error and refresh_pattern overrides are not generated (outside the quantifier)']
    expected_probes = ['stale_requests_judged', 'fresh_hits', 'forced_revalidations_judged']
    sim_limit_s = 40000

    def plan(self, rng, tier, index):
        plan = hc.std_plan(rng, {'cache': rng.choice(['mem', 'mem', 'ufs', 'rock']), 'cache_mem_mb': 16, 'lines': []}, hostile=False)
        urls = []
        steps = []
        rid = index * 1000
        for u in range(rng.randint(4, 8)):
            N = rng.choice([1, 5, 30, 120, 3600])
            form = rng.choice(['max-age', 'max-age', 's-maxage', 'both', 'expires', 'max-age-mr', 'max-age-pr'])
            url = {'sizes': [rng.choice([10, 5000])], 'lm': rng.random() < 0.7, 'N': N, 'date_skew': rng.choice([0, 0, 0, 60, -60, 3600, -3600, -172800])}
            if form == 'max-age': url['cc'] = 'max-age=%d' % N
            elif form == 's-maxage': url['cc'] = 's-maxage=%d' % N
            elif form == 'both': url['cc'] = 'max-age=%d, s-maxage=%d' % (N * 10, N)
            elif form == 'expires': url['expires'] = N
            elif form == 'max-age-mr': url['cc'] = 'max-age=%d, must-revalidate' % N
            else: url['cc'] = 'max-age=%d, proxy-revalidate' % N
            if rng.random() < 0.15:
                url['age'] = rng.choice([1, 10, 1000])
            urls.append(url)
        plan['urls'] = urls
        # one sequential client visiting URLs at scripted gaps
        clock = 0
        visits = []
        for u, url in enumerate(urls):
            t = rng.randint(0, 3)
            N = url['N']
            for k in range(rng.randint(3, 8) if N < 3600 else rng.randint(2, 4)):   # keeps the whole timeline inside the simulated-time limit
                gap = rng.choice([0.2, N * 0.5, max(N - 3, 0.1), N + 3, N + 10, 2 * N + 5] + ([N * 5 + 5] if N < 3600 else []))
                t += gap
                d = rng.random()
                hd = []
                if d < 0.1: hd = [('Cache-Control', 'max-age=0')]
                elif d < 0.2: hd = [('Cache-Control', 'no-cache')]
                elif d < 0.3: hd = [('Cache-Control', 'max-age=%d' % rng.choice([1, N, 2 * N]))]
                elif d < 0.4: hd = [('Cache-Control', rng.choice(['max-stale', 'max-stale=%d' % (N + 20)]))]
                elif d < 0.48: hd = [('Cache-Control', 'min-fresh=%d' % rng.choice([1, N]))]
                elif d < 0.52: hd = [('Pragma', 'no-cache')]
                visits.append((t, u, hd))
        visits.sort(key=lambda x: x[0])
        now = 0.0
        for (t, u, hd) in visits:
            rid += 1
            steps.append({'id': rid, 'u': u, 'wait': int(max(0, t - now) * 1000000), 'hdrs': hd, 'new_conn': True})
            now = max(now, t)
        plan['clients'] = [{'name': 'c0', 'steps': steps}]
        plan['_lists'] = ['clients.0.steps']
        return plan

    def build(self, plan):
        scn, srv = cf.build_world(self, plan)
        return scn, None

    def judge(self, plan, expect, hist, o):
        V = o.violations
        recs, sent = cf.analyse(hist, plan)
        stats = {'stale_requests_judged': 0, 'fresh_hits': 0, 'forced_revalidations_judged': 0, 'hits_total': 0}
        for r in recs:
            if r.u is None or hc.is_squid_error(r.resp):
                continue
            url = plan['urls'][r.u]
            life = cf.explicit_lifetime(url)
            cc = ' '.join(v.lower() for k, v in r.step['hdrs'] if k.lower() == 'cache-control')
            pragma = any(k.lower() == 'pragma' for k, v in r.step['hdrs'])
            own = set(c['seq'] for c in r.contacts)
            prior = [s for s in sent if s[2] == r.u and s[0] < r.seq_end and s[0] not in own]
            hit = not r.contacts
            if hit:
                stats['hits_total'] += 1
            if not prior:
                continue
            receipt = prior[-1][1]
            age_s = (r.t_send - receipt) / 1e6
            # RFC 9111 4.2.3: the response was already this old when squid received it. Only the unambiguous part is enforced: a Date in the past
            # by less than a day (squid documents that it distrusts older or future Dates and uses its own clock then) and the Age header
            skew = url.get('date_skew', 0)
            age_s += max(-skew if -86400 < skew < 0 else 0, url.get('age') or 0)
            forced = 'max-age=0' in cc or 'no-cache' in cc or pragma
            if forced:
                stats['forced_revalidations_judged'] += 1
                if hit:
                    V.append(Violation('C12:forced-revalidation-ignored', 'request %s (%r) for url %d was answered from cache without contacting the origin' % (r.id, r.step['hdrs'], r.u)))
                continue
            if life is None:
                continue
            stale = age_s > life + 2
            if stale:
                stats['stale_requests_judged'] += 1
                strict = re.search(r'must-revalidate|proxy-revalidate|s-maxage', (url.get('cc') or '').lower())
                if hit and ('max-stale' not in cc or strict):
                    V.append(Violation('C12:stale-served:%s' % ('must-revalidate' if strict else 'plain'), 'request %s for url %d (response %r expires=%r) was served from cache %.1f s after squid last heard from the origin; explicit lifetime %d s; request headers %r' % (r.id, r.u, url.get('cc'), url.get('expires'), age_s, life, r.step['hdrs'])))
            else:
                if hit:
                    stats['fresh_hits'] += 1
            m = re.search(r'(?<![\w-])max-age=(\d+)', cc)
            if m and hit and age_s > int(m.group(1)) + 2:
                V.append(Violation('C12:request-max-age-ignored', 'request %s with max-age=%s for url %d was served from cache at age %.1f s' % (r.id, m.group(1), r.u, age_s)))
            m = re.search(r'min-fresh=(\d+)', cc)
            if m and hit and age_s + int(m.group(1)) > life + 2:
                V.append(Violation('C12:min-fresh-ignored', 'request %s with min-fresh=%s for url %d was served from cache at age %.1f s (lifetime %d)' % (r.id, m.group(1), r.u, age_s, life)))
        o.stats = stats
        o.nontrivial = stats['stale_requests_judged'] > 0
        o.sample = {'urls': [[u.get('cc'), u.get('expires'), u['date_skew'], u.get('age')] for u in plan['urls']], 'first_steps': [[s['wait'], s['u'], s['hdrs']] for s in plan['clients'][0]['steps'][:6]]}
