"""C33 Error pages never reflect client input unescaped. DESIGN.md §4."""
import random, re, base64
import simlib
from simlib import Payload, tok
from framework import Violation
from props import register
from props import httpcommon as hc

CANARIES = ['<sCrIpT/q="\'>&x', '<ScRiPt>alert(1)</ScRiPt>', '"><sCrIpT>', '\'><sCrIpT x=y>', '<sCrIpT%20src=//e>',
            # (latin-1 view of raw bytes) markup right behind UTF-8 lead bytes, behind truncated and behind complete multi-byte sequences
            '\xc3<sCrIpT\xc3>', '\xe2\x80<sCrIpT x=\xf0\x9f\x98"y\xc3>', '\xc3\xa9<sCrIpT>\xe2\x82\xac', '\xf0<sCrIpT>', '\xa3<sCrIpT>\xff']

def triggers(rng):
    """list of (name, function(canary, rid) -> (request bytes, needs))"""
    return ['denied_path', 'denied_query', 'invalid_url_host', 'invalid_url_scheme', 'dns_fail', 'connect_fail', 'read_timeout', 'too_big', 'unsup_method', 'auth_required_user',
            'zero_size', 'cannot_forward', 'invalid_req_version', 'invalid_req_method', 'denied_header_host', 'conn_timeout', 'bad_port', 'ftp_url', 'urn_url', 'long_header_name', 'unsup_version', 'expect_unsupported', 'bad_port_plain', 'denied_hdr_value', 'denied_hdr_value', 'denied_host_markup']

@register
class C33(hc.PProp):
    id = 'C33'
    rule = ('each run = 8-24 requests that each provoke a squid-generated error page (access denied, invalid URL/request, DNS failure via the scripted '
            'DNS peer, connect refused/timeout, read timeout, request too big, unsupported method/protocol, proxy authentication required, zero-size '
            'reply, cannot forward) while carrying a markup canary in the URI path, query, host, scheme, method, header values or Basic user name; '
            'non-trivial = at least one squid-generated HTML body was scanned; distinct = history fingerprint')
    quick_runs = 160
    thorough_runs = 4000
    quick_wall = 50
    thorough_wall = 900
    assumptions = ['"unescaped" = the raw canary markup (<sCrIpT ...) appears in a squid-generated text/html body; entity-escaped or URL-encoded forms are accepted']
    expected_probes = ['error_pages_scanned', 'tpl.ERR_ACCESS_DENIED', 'tpl.ERR_INVALID_URL', 'tpl.ERR_DNS_FAIL', 'tpl.ERR_CONNECT_FAIL', 'tpl.ERR_INVALID_REQ']
    sim_limit_s = 2000

    def plan(self, rng, tier, index):
        plan = hc.std_plan(rng, {'cache': 'none', 'no_default_access': True, 'lines': [
            'acl denyme urlpath_regex -i denyme', 'acl denyq url_regex -i denyq', 'acl badhost req_header Host -i evil', 'acl needauth urlpath_regex needauth',
            'auth_param basic program /bin/true sim=auth', 'auth_param basic children 2', 'auth_param basic realm sim', 'acl authed proxy_auth REQUIRED',
            'acl nofwd dstdomain nofwd.test', 'never_direct allow nofwd',
            'http_access deny denyme', 'http_access deny denyq', 'http_access deny badhost', 'http_access deny needauth !authed', 'http_access allow all',
            'read_timeout 5 seconds', 'connect_timeout 3 seconds', 'request_body_max_size 1 KB', 'dns_timeout 5 seconds', 'forward_timeout 10 seconds',
            'error_default_language en' if rng.random() < 0.5 else 'email_err_data on']}, hostile=False)
        if rng.random() < 0.3:
            # a site-specific deny_info page: a template of our own in a private error_directory (a copy of the stock templates plus ours)
            plan['custom_tpl'] = True
            plan['conf']['lines'] = ['error_directory @RUN@', 'deny_info ERR_SIM_CUSTOM denyme', 'deny_info ERR_SIM_CUSTOM badhost'] + plan['conf']['lines']
        names = triggers(rng)
        plan['txns'] = [{'id': index * 100 + k, 'trig': rng.choice(names), 'canary': rng.choice(CANARIES)} for k in range(rng.randint(8, 24))]
        plan['_lists'] = ['txns']
        return plan

    def build(self, plan):
        scn = self.new_scn(plan)
        scn.knob('peer.expect_timeout_us', 40000000)
        if plan.get('custom_tpl'):
            import os
            tdir = '/repo/errors/templates'
            for fn in sorted(os.listdir(tdir)):
                if fn.startswith('ERR_') or fn == 'error-details.txt':
                    scn.extra_files[fn] = open(os.path.join(tdir, fn), 'rb').read()
            scn.extra_files['ERR_SIM_CUSTOM'] = (b'<html><head><title>blocked</title></head><body><h1>Blocked</h1><p>URL: <a href="%U">%U</a> (%u)</p><p>Host %H, method %M, client %a, '
                                                 b'protocol %P</p><pre>%R</pre><address>%S</address></body></html>\n')
        scn.hosts = '10.0.0.1 ok.test\n10.0.0.3 refuse.test\n10.0.0.4 timeout.test\n10.0.0.1 nofwd.test\n'
        srv = scn.server('o1', '10.0.0.1', 80)
        srv.sub('rule stall has %s' % tok(b'/stall')).add('stall')
        srv.sub('rule zero has %s' % tok(b'/zero')).add('close')
        srv.sub('rule any').add('send %s' % tok(hc.response_head(200, [(b'Content-Length', b'2')]) + b'ok'))
        scn.server('ref', '10.0.0.3', 80).add('connect * refuse')
        scn.server('tmo', '10.0.0.4', 80).add('connect * timeout')
        d = scn.dns()
        h = scn.helper('auth', 0)
        h.add('rule deny reply %s' % tok(b'ERR'))
        cl_i = 0
        for t in plan['txns']:
            c = t['canary'].encode('latin-1'); rid = b'%d' % t['id']
            H = lambda host, extra=[]: [(b'Host', host), (b'X-Sim-Req', rid)] + extra
            k = t['trig']
            if k == 'denied_path': req = hc.request_head(b'GET', b'http://ok.test/denyme/' + c, H(b'ok.test'))
            elif k == 'denied_query': req = hc.request_head(b'GET', b'http://ok.test/x?denyq=' + c, H(b'ok.test'))
            elif k == 'invalid_url_host': req = hc.request_head(b'GET', b'http://bad' + c + b'.test/x', H(b'ok.test'))
            elif k == 'invalid_url_scheme': req = hc.request_head(b'GET', b'ht' + c + b'tp://ok.test/x', H(b'ok.test'))
            elif k == 'dns_fail': req = hc.request_head(b'GET', b'http://nx%d.test/' % t['id'] + c, H(b'nx%d.test' % t['id']))
            elif k == 'connect_fail': req = hc.request_head(b'GET', b'http://refuse.test/' + c, H(b'refuse.test'))
            elif k == 'conn_timeout': req = hc.request_head(b'GET', b'http://timeout.test/' + c, H(b'timeout.test'))
            elif k == 'read_timeout': req = hc.request_head(b'GET', b'http://ok.test/stall/' + c, H(b'ok.test'))
            elif k == 'too_big': req = hc.request_head(b'POST', b'http://ok.test/big/' + c, H(b'ok.test', [(b'Content-Length', b'5000')])) + b'z' * 5000
            elif k == 'unsup_method': req = hc.request_head(b'BREW', b'coffee://ok.test/' + c, H(b'ok.test'))
            elif k == 'auth_required_user':
                cred = base64.b64encode(c + b':pw')
                req = hc.request_head(b'GET', b'http://ok.test/needauth/' + c, H(b'ok.test', [(b'Proxy-Authorization', b'Basic ' + cred)]))
            elif k == 'zero_size': req = hc.request_head(b'GET', b'http://ok.test/zero/' + c, H(b'ok.test'))
            elif k == 'cannot_forward': req = hc.request_head(b'GET', b'http://nofwd.test/' + c, H(b'nofwd.test'))
            elif k == 'invalid_req_version': req = b'GET http://ok.test/' + c + b' HTTP/' + c + b'\r\nHost: ok.test\r\n\r\n'
            elif k == 'invalid_req_method': req = b'G' + c + b'T http://ok.test/x HTTP/1.1\r\nHost: ok.test\r\n\r\n'
            elif k == 'denied_header_host': req = hc.request_head(b'GET', b'/local/' + c, H(b'evil' + c))
            elif k == 'bad_port': req = hc.request_head(b'GET', b'http://ok.test:99999' + c + b'/x', H(b'ok.test'))
            elif k == 'bad_port_plain': req = hc.request_head(b'GET', b'http://ok.test:99999/' + c, H(b'ok.test'))
            elif k == 'unsup_version': req = b'GET http://ok.test/' + c + b' HTTP/3.0\r\nHost: ok.test\r\nX-Sim-Req: ' + rid + b'\r\n\r\n'
            elif k == 'expect_unsupported': req = hc.request_head(b'GET', b'http://ok.test/e', H(b'ok.test', [(b'Expect', b'x' + c.replace(b' ', b'')), (b'X-Note', c)]))
            elif k == 'denied_hdr_value': req = hc.request_head(b'GET', b'http://ok.test/denyme/h', H(b'ok.test', [(b'X-Note', c), (b'User-Agent', b'ua ' + c)]))     # a custom deny_info page may dump the request (%R)
            elif k == 'denied_host_markup': req = hc.request_head(b'GET', b'http://ok' + c.replace(b' ', b'').replace(b'/', b'') + b'.test/denyme/x', H(b'ok.test'))
            elif k == 'ftp_url': req = hc.request_head(b'GET', b'ftp://refuse.test/' + c, H(b'refuse.test'))
            elif k == 'urn_url': req = hc.request_head(b'GET', b'urn:' + c, H(b'ok.test'))
            else: req = hc.request_head(b'GET', b'http://ok.test/denyme', H(b'ok.test', [(b'X-' + c.replace(b' ', b''), b'v')]))
            cl = scn.client('c%d' % cl_i, start=cl_i * 2000); cl_i += 1
            cl.add('connect %s %d' % (hc.SQUID_IP, hc.SQUID_PORT))
            cl.add('send %s' % tok(req))
            cl.add('expect response timeout 40000000 soft')
        return scn, None

    def judge(self, plan, expect, hist, o):
        V = o.violations
        stats = {'error_pages_scanned': 0}
        for cv in hc.client_views(hist):
            for m in cv.resps:
                if getattr(m, 'partial_head', False):
                    continue
                err = m.get(b'x-squid-error')
                ct = (m.get(b'content-type') or b'').lower()
                if err is None and not (400 <= m.status < 600 and b'text/html' in ct):
                    continue
                stats['error_pages_scanned'] += 1
                name = (err or b'?').split()[0].decode()
                stats['tpl.' + name] = stats.get('tpl.' + name, 0) + 1
                if b'text/html' not in ct:
                    continue
                mm = re.search(rb'<sCrIpT|<ScRiPt', m.body)
                if mm:
                    ctx = m.body[max(0, mm.start() - 80):mm.end() + 40]
                    V.append(Violation('C33:unescaped-markup:%s' % name, 'error page %s (status %d) contains client-supplied markup unescaped: ...%r...; request %r' % (name, m.status, ctx, cv.sent_raw[:160])))
        o.stats = stats
        o.nontrivial = stats['error_pages_scanned'] > 0
        o.sample = {'txns': [[t['trig'], t['canary']] for t in plan['txns'][:8]]}
