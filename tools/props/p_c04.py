"""C04 Hop-by-hop and proxy credential headers are not relayed. DESIGN.md §4."""
import random
import simlib
from simlib import Payload, G, tok
from framework import Violation
from props import register
from props import httpcommon as hc

STD_HOP = ['keep-alive', 'te', 'trailer', 'upgrade', 'proxy-connection', 'proxy-authenticate', 'proxy-authorization']
# end-to-end request fields a client may (legally) nominate in Connection; fields the proxy regenerates itself
# (Host, Content-Length, Via, Max-Forwards, Cache-Control, X-Forwarded-For) are not nominated: see DESIGN.md C04
REQ_E2E = ['Authorization', 'If-None-Match', 'If-Modified-Since', 'Range', 'If-Range', 'Cookie', 'Accept-Language', 'Referer', 'User-Agent', 'From', 'Accept', 'Pragma']
RESP_E2E = ['ETag', 'Set-Cookie', 'Content-Language', 'Last-Modified', 'Server', 'X-Powered-By', 'Accept-Ranges', 'Content-Location']

def marked_value(name, mark, rng):
    n = name.lower()
    if n == 'authorization':
        return 'Basic ' + mark
    if n in ('if-none-match', 'etag', 'if-range'):
        return '"%s"' % mark
    if n in ('if-modified-since', 'last-modified'):
        return 'Tue, 14 Nov 2023 %02d:%02d:%02d GMT' % (int(mark[-6:-4]) % 24, int(mark[-4:-2]) % 60, int(mark[-2:]) % 60)
    if n == 'range':
        return 'bytes=%d-' % (1000000 + int(mark[-6:]))
    if n == 'keep-alive':
        return 'timeout=5, max=%d' % (1000000 + int(mark[-6:]))
    if n == 'te':
        return 'trailers, %s;q=0.5' % mark
    if n == 'upgrade':
        return mark + '/1.0'
    if n in ('proxy-authorization',):
        return 'Basic ' + mark
    if n == 'proxy-authenticate':
        return 'Basic realm="%s"' % mark
    if n == 'trailer':
        return 'X-' + mark
    return mark

def mark_of(value):
    return value

@register
class C04(hc.PProp):
    id = 'C04'
    rule = ('each run = 2-8 requests (GET, some POST with chunked body) whose header sets mix extension fields, registered end-to-end fields, '
            'the standard hop-by-hop fields and Proxy-Authorization, each value carrying a per-field marker; one or several Connection headers '
            'nominate a random subset (random case, OWS, empty list elements); origin responses are built the same way. non-trivial = a request or '
            'response with at least one nominated or standard hop-by-hop field was relayed and judged; distinct = history fingerprint')
    quick_runs = 300
    thorough_runs = 6000
    quick_wall = 50
    thorough_wall = 900
    assumptions = ['fields that a proxy regenerates itself (Host, Content-Length, Via, Max-Forwards, Cache-Control, X-Forwarded-For) are not nominated by the generator',
                   'a relayed field is recognised by its marker value; fields squid emits itself carry no marker']
    expected_probes = ['req_fields_judged', 'resp_fields_judged', 'reval_responses_judged']

    def hdrset(self, rng, tid, side):
        """-> (list of (name, value)), set of lower-case forbidden names (nominated or standard hop-by-hop)"""
        hdrs = []
        names = []
        mk = lambda i: 'MK%s%d%06d' % (side, tid % 100000, i)
        n = 0
        for i in range(rng.randint(0, 4)):
            n += 1; names.append('X-Ext-%d' % i)
        pool = REQ_E2E if side == 'q' else RESP_E2E
        for nm in rng.sample(pool, rng.randint(0, 4)):
            names.append(nm)
        std = []
        for nm in (['Keep-Alive', 'TE', 'Upgrade', 'Proxy-Connection', 'Trailer'] + (['Proxy-Authorization'] if side == 'q' else ['Proxy-Authenticate'])):
            if rng.random() < 0.35:
                std.append(nm)
        nominated = [nm for nm in names if rng.random() < 0.5]
        conn_tokens = list(nominated) + [s for s in std if s not in ('Proxy-Authorization', 'Proxy-Authenticate') and rng.random() < 0.6]
        rng.shuffle(conn_tokens)
        def style(t):
            r = rng.random()
            t2 = t.upper() if r < 0.2 else (t.lower() if r < 0.5 else t)
            return t2
        conn_lines = []
        if conn_tokens:
            k = rng.randint(1, min(3, len(conn_tokens)))
            groups = [conn_tokens[i::k] for i in range(k)]
            for g in groups:
                sep = rng.choice([',', ', ', ' , ', ',,', ', ,', ',\t', '\t,\t', ', \t', ',\t '])   # OWS = SP / HTAB (RFC 9110 5.6.3)
                conn_lines.append(sep.join(style(t) for t in g))
        if side == 'q' and rng.random() < 0.5:
            conn_lines.append(rng.choice(['keep-alive', 'Keep-Alive', 'close']))
        i = 0
        values = {}
        for nm in names + std:
            i += 1
            v = marked_value(nm, mk(i), rng)
            hdrs.append((nm, v)); values[nm.lower()] = v
        rng.shuffle(hdrs)
        for cl in conn_lines:
            hdrs.insert(rng.randint(0, len(hdrs)), ('Connection', cl))
        forbidden = set(x.lower() for x in nominated) | set(x.lower() for x in std)
        return hdrs, forbidden, values

    def plan(self, rng, tier, index):
        plan = hc.std_plan(rng, {'cache': 'none'})
        txns = []
        for k in range(rng.randint(2, 8)):
            tid = index * 100 + k
            q, qf, qv = self.hdrset(rng, tid, 'q')
            r, rf, rv = self.hdrset(rng, tid, 'r')
            txns.append({'id': tid, 'method': rng.choice(['GET', 'GET', 'POST']), 'req_hdrs': q, 'req_forbidden': sorted(qf), 'req_values': qv,
                         'resp_hdrs': r, 'resp_forbidden': sorted(rf), 'resp_values': rv, 'new_conn': rng.random() < 0.4})
        plan['txns'] = txns
        # cached objects whose 304 revalidation carries its own hop-by-hop fields: the stored header is updated from the 304 and later hits are built from it
        revals = []
        for k in range(rng.choice([0, 1, 1, 2])):
            tid = index * 100 + 50 + k
            r1, f1, v1 = self.hdrset(rng, tid, 'r')
            r2, f2, v2 = self.hdrset(rng, tid + 10, 'r')
            revals.append({'id': tid, 'h200': r1, 'f200': sorted(f1), 'v200': v1, 'h304': r2, 'f304': sorted(f2), 'v304': v2, 'gets': rng.randint(2, 4)})
        plan['revals'] = revals
        plan['conf']['cache'] = 'mem'
        plan['_lists'] = ['txns', 'revals']
        return plan

    def build(self, plan):
        scn = self.new_scn(plan)
        srv = scn.server('o1', '10.0.0.1', 80)
        cl = scn.client('c0')
        need = True
        for t in plan['txns']:
            hdrs = [(b'Host', b'10.0.0.1'), (b'X-Sim-Req', str(t['id']).encode())] + [(a.encode(), b.encode()) for a, b in t['req_hdrs']]
            body = b''
            if t['method'] == 'POST':
                hdrs.append((b'Transfer-Encoding', b'chunked')); body = b'5\r\nhello\r\n0\r\n\r\n'
            req = hc.request_head(t['method'].encode(), b'http://10.0.0.1/h%d' % t['id'], hdrs) + body
            rh = [(b'Content-Length', b'4'), (b'X-Sim-Ver', b'h%d' % t['id'])] + [(a.encode(), b.encode()) for a, b in t['resp_hdrs']]
            r = srv.sub('rule t%d has %s' % (t['id'], tok(b' /h%d ' % t['id'])))
            r.add('expect body')
            r.add('send %s' % tok(hc.response_head(200, rh) + b'body'))
            if need or t['new_conn']:
                if not need:
                    cl.add('close')
                cl.add('connect %s %d' % (hc.SQUID_IP, hc.SQUID_PORT)); need = False
            cl.add('send %s' % tok(req))
            cl.add('expect response timeout 30000000')
            if any(a.lower() == 'connection' and 'close' in b.lower() for a, b in t['req_hdrs']):
                cl.add('close'); need = True
        for rv in plan.get('revals', []):
            tid = rv['id']
            base = [(b'ETag', b'"hv%d"' % tid), (b'Cache-Control', b'max-age=1'), (b'Last-Modified', b'Tue, 14 Nov 2023 00:00:00 GMT')]
            h200 = base + [(b'Content-Length', b'4'), (b'X-Sim-Ver', b'hv%d' % tid)] + [(a.encode(), b.encode()) for a, b in rv['h200']]
            h304 = base + [(a.encode(), b.encode()) for a, b in rv['h304']]
            r = srv.sub('rule hvc%d when hv%d=1 has %s has %s' % (tid, tid, tok(b' /hv%d ' % tid), tok(b'If-None-Match:')))
            r.add('send %s' % tok(hc.response_head(304, h304)))
            r = srv.sub('rule hvf%d has %s' % (tid, tok(b' /hv%d ' % tid)))
            r.add('set hv%d 1' % tid); r.add('send %s' % tok(hc.response_head(200, h200) + b'body'))
            c2 = scn.client('rv%d' % tid, start=5000)
            c2.add('connect %s %d' % (hc.SQUID_IP, hc.SQUID_PORT))
            for g in range(rv['gets']):
                c2.add('send %s' % tok(hc.request_head(b'GET', b'http://10.0.0.1/hv%d' % tid, [(b'Host', b'10.0.0.1'), (b'X-Sim-Req', b'%d' % (tid * 10 + g))])))
                c2.add('expect response timeout 30000000')
                c2.add('wait %d' % (2500000 if g % 2 == 0 else 200000))
        return scn, None

    def judge(self, plan, expect, hist, o):
        V = o.violations
        stats = {'req_fields_judged': 0, 'resp_fields_judged': 0, 'reval_responses_judged': 0}
        for rv in plan.get('revals', []):
            for cv in hc.client_views(hist, 'rv%d' % rv['id']):
                for k, m in enumerate(cv.finals):
                    if hc.is_squid_error(m):
                        continue
                    stats['reval_responses_judged'] += 1
                    for name, value in m.headers:
                        n = name.decode('latin-1').lower(); v = value.decode('latin-1')
                        for which, other in (('200', '304'), ('304', '200')):
                            if n not in rv['f' + other] and rv['v' + other].get(n) == v:
                                continue      # the same field value is a legitimate end-to-end field of the other response
                            if n in rv['f' + which] and rv['v' + which].get(n) == v:
                                kind = 'hopbyhop' if n in STD_HOP else 'nominated'
                                V.append(Violation('C04:response:%s-from-%s:%s' % (kind, which, n), 'GET %d of the revalidated object /hv%d: field %r (value %r), hop-by-hop in the origin\'s %s response, reached the client (cache status %r)' % (k + 1, rv['id'], name, v, which, m.get(b'cache-status'))))
        by_id = {str(t['id']): t for t in plan['txns']}
        up = hc.upstream_requests_by_id(hist)
        nontrivial = 0
        for rid, lst in up.items():
            t = by_id.get(rid.decode())
            if not t:
                continue
            for sv, r in lst:
                for name, value in r.headers:
                    n = name.decode('latin-1').lower()
                    v = value.decode('latin-1')
                    if n in t['req_forbidden']:
                        stats['req_fields_judged'] += 1
                        if t['req_values'].get(n) == v:
                            kind = 'hopbyhop' if n in STD_HOP else 'nominated'
                            V.append(Violation('C04:request:%s:%s' % (kind, n), 'request %s: field %r (value %r) named %s reached the origin' % (rid.decode(), name, v, 'in Connection' if kind == 'nominated' else 'hop-by-hop by definition')))
                    if n == 'transfer-encoding' and v.strip().lower() != 'chunked':
                        V.append(Violation('C04:request:transfer-encoding', 'request %s: upstream Transfer-Encoding %r' % (rid.decode(), v)))
                if t['req_forbidden']:
                    nontrivial += 1
        for cv in hc.client_views(hist):
            ids = [x.decode() for x in cv.req_ids() if x is not None]
            for k, m in enumerate(cv.finals[:len(ids)]):
                t = by_id.get(ids[k])
                if not t or hc.is_squid_error(m):
                    continue
                for name, value in m.headers:
                    n = name.decode('latin-1').lower(); v = value.decode('latin-1')
                    if n in t['resp_forbidden']:
                        stats['resp_fields_judged'] += 1
                        if t['resp_values'].get(n) == v:
                            kind = 'hopbyhop' if n in STD_HOP else 'nominated'
                            V.append(Violation('C04:response:%s:%s' % (kind, n), 'response to %s: field %r (value %r) named %s reached the client' % (ids[k], name, v, 'in Connection' if kind == 'nominated' else 'hop-by-hop by definition')))
                if t['resp_forbidden']:
                    nontrivial += 1
        o.stats = stats
        o.nontrivial = nontrivial > 0 or stats['reval_responses_judged'] > 0
        o.sample = {'txns': [{'req': t['req_hdrs'], 'resp': t['resp_hdrs']} for t in plan['txns'][:2]]}
