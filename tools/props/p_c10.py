"""C10 Cache hits reproduce one complete stored response. DESIGN.md §4."""
import random
import simlib
from framework import Violation
from props import register
from props import httpcommon as hc
from props import cachefam as cf

SIZES = [0, 1, 100, 4095, 4096, 4097, 8192, 16383, 16384, 16385, 32767, 32768, 32769, 40000, 65535, 65536, 65537, 100000, 200000]

def cache_conf(rng):
    kind = rng.choice(['mem', 'mem', 'shared', 'ufs', 'rock', 'both'])
    conf = {'cache': kind, 'cache_mem_mb': rng.choice([1, 1, 4, 32]), 'lines': []}
    if rng.random() < 0.5:
        conf['max_obj_mem_kb'] = rng.choice([8, 64, 512])
    if kind in ('ufs', 'both'):
        conf['ufs_mb'] = rng.choice([1, 2, 64])
    if kind in ('rock', 'both'):
        conf['rock_mb'] = rng.choice([1, 2, 64]); conf['rock_slot'] = rng.choice([4096, 16384, 32768])
    if rng.random() < 0.3:
        conf['max_obj_kb'] = rng.choice([64, 150, 4096])
    return conf

@register
class C10(hc.PProp):
    id = 'C10'
    rule = ('each run = 4-10 versioned URLs (sizes around page/slot boundaries, Content-Length or chunked, max-age 1 s .. 3 h or validators only, '
            '0-3 version changes at scripted times, optional slow body delivery) on one origin; 2-5 clients issue 3-12 GETs each at simulated '
            'times spread over minutes (some with no-cache / max-age=0 so that entries are replaced while others read them); cache = memory (1-32 MB), '
            'shared memory, ufs, rock or both with sizes from ample to forcing eviction; every 3rd disk-cache run injects disk read/write EIO and '
            'short writes. non-trivial = at least one response served without contacting the origin was attributed and compared; distinct = fingerprint')
    quick_runs = 260
    thorough_runs = 6000
    quick_wall = 55
    thorough_wall = 1500
    assumptions = ['single worker; aufs/diskd are represented by ufs (same UFSSwapDir code, blocking I/O strategy)',
                   'a version counts as available once the origin started sending it before the client response ended']
    expected_probes = ['hits_judged', 'responses_judged', 'fault.disk.eio', 'fault.disk.short']
    sim_limit_s = 3000

    def plan_update_churn(self, rng, tier, index):
        """entries refreshed by 304 (header update) under heavy slot reuse, hits served from the store rather than from local memory"""
        kind = rng.choice(['rock', 'rock', 'shared'])
        conf = {'cache': kind, 'cache_mem_mb': 1 if kind == 'shared' else rng.choice([0, 0, 1]), 'lines': []}
        if kind == 'rock':
            conf['rock_mb'] = rng.choice([1, 2]); conf['rock_slot'] = rng.choice([4096, 16384]); conf['max_obj_mem_kb'] = 0
        plan = hc.std_plan(rng, conf, hostile=False)
        plan['knobs'] = {'net.seg.max': [16384], 'clock.tick_us': [1, 20]}
        nreval = rng.randint(2, 4); nfill = rng.randint(6, 14)
        urls = [{'sizes': [rng.choice([9000, 20000, 40000, 60000])], 'framing': 'cl', 'cc': rng.choice(['max-age=1', 'no-cache', 'max-age=1, must-revalidate']), 'lm': True} for _ in range(nreval)]
        urls += [{'sizes': [rng.choice([30000, 60000, 100000, 130000])], 'framing': rng.choice(['cl', 'chunked']), 'cc': 'max-age=100000', 'lm': True, 'bump_on_serve': True, 'nver': 12} for _ in range(nfill)]
        plan['urls'] = urls
        steps = []
        rid = index * 1000
        for k in range(rng.randint(25, 60)):
            rid += 1
            if rng.random() < 0.5:
                steps.append({'id': rid, 'u': rng.randrange(nreval), 'wait': rng.choice([1500000, 2000000, 300000]), 'hdrs': []})
            else:
                steps.append({'id': rid, 'u': nreval + rng.randrange(nfill), 'wait': rng.choice([0, 1000, 100000]), 'hdrs': [('Cache-Control', 'no-cache')] if rng.random() < 0.5 else []})
        plan['clients'] = [{'name': 'c0', 'start': 0, 'steps': steps}]
        plan['disk_faults'] = []
        plan['_lists'] = ['clients.0.steps']
        return plan

    def plan(self, rng, tier, index):
        if index % 4 == 3:
            return self.plan_update_churn(rng, tier, index)
        plan = hc.std_plan(rng, cache_conf(rng), hostile=rng.random() < 0.5)
        plan['conf']['lines'].append('collapsed_forwarding %s' % rng.choice(['off', 'off', 'on']))
        if plan['conf']['cache'] in ('ufs', 'rock', 'both') and rng.random() < 0.3:
            plan['conf']['lines'].append('memory_cache_mode disk')   # only what was read from disk is kept in memory: the first hit of an object is a disk hit
        nurl = rng.randint(4, 10)
        urls = []
        for u in range(nurl):
            url = {'sizes': [rng.choice(SIZES) for _ in range(rng.randint(1, 3))], 'framing': rng.choice(['cl', 'cl', 'chunked']),
                   'cc': rng.choice(['max-age=1', 'max-age=5', 'max-age=60', 'max-age=10000', 'max-age=10000', 'public, max-age=300', None]),
                   'lm': rng.random() < 0.6, 'bumps': sorted(rng.randint(1, 200) * 1000000 for _ in range(rng.choice([0, 0, 1, 2, 3])))}
            if rng.random() < 0.25:
                url['body_pace'] = rng.choice([200, 2000]); url['sizes'] = [min(s, 70000) for s in url['sizes']]
            if rng.random() < 0.25:
                # response headers of 3.5-9 KB: swap metadata plus stored headers then span more than one 4 KB disk read when the entry is swapped in
                url['extra'] = [('X-Pad-%d' % i, 'p' * rng.choice([150, 180, 220])) for i in range(rng.choice([18, 25, 40]))]
            urls.append(url)
        plan['urls'] = urls
        clients = []
        rid = index * 1000
        for ci in range(rng.randint(2, 5)):
            steps = []
            for _ in range(rng.randint(3, 12)):
                rid += 1
                st = {'id': rid, 'u': rng.randrange(nurl), 'wait': rng.choice([0, 0, 10000, 1000000, 3000000, 10000000, 70000000]), 'hdrs': []}
                r = rng.random()
                if r < 0.12:
                    st['hdrs'].append(('Cache-Control', rng.choice(['no-cache', 'max-age=0'])))
                if rng.random() < 0.2:
                    st['new_conn'] = True
                steps.append(st)
            clients.append({'name': 'c%d' % ci, 'start': rng.choice([0, 0, 5000, 2000000]), 'steps': steps})
        plan['clients'] = clients
        plan['disk_faults'] = []
        if index % 3 == 2 and plan['conf']['cache'] in ('ufs', 'rock', 'both'):
            plan['disk_faults'] = rng.sample(['eio op read p 0.03', 'eio op pwrite p 0.03', 'eio op write p 0.03', 'short op pwrite p 0.05', 'short op write p 0.05', 'enospc op pwrite p 0.02'], rng.randint(1, 3))
        plan['_lists'] = ['clients', 'disk_faults'] + ['clients.%d.steps' % i for i in range(len(clients))]
        return plan

    def build(self, plan):
        scn, srv = cf.build_world(self, plan)
        for f in plan.get('disk_faults', []):
            scn.line('disk ' + f)
        return scn, None

    def judge(self, plan, expect, hist, o):
        V = o.violations
        recs, sent = cf.analyse(hist, plan)
        stats = {'hits_judged': 0, 'responses_judged': 0, 'bytes_compared': 0, 'errors_seen': 0}
        faulty = bool(plan.get('disk_faults'))
        for r in recs:
            m = r.resp
            if r.u is None:
                continue
            if hc.is_squid_error(m):
                stats['errors_seen'] += 1
                continue
            if m.status != 200:
                V.append(Violation('C10:unexpected-status', 'request %s for url %d got status %d' % (r.id, r.u, m.status))); continue
            stats['responses_judged'] += 1
            if r.ver is None or r.ver_u != r.u:
                V.append(Violation('C10:unattributable-response', 'request %s for url %d: X-Sim-Ver %r does not name a version of that url' % (r.id, r.u, m.get(b'x-sim-ver')))); continue
            started = [s for s in sent if s[2] == r.u and s[3] == r.ver and s[4] == 'full' and s[0] < r.seq_end]
            if not started:
                V.append(Violation('C10:version-never-sent', 'request %s: response claims version %d of url %d, which the origin had not sent before the response ended' % (r.id, r.ver, r.u))); continue
            exp = cf.version_body(plan, r.u, r.ver)
            et = m.get(b'etag')
            if et is not None and et.decode() not in (cf.etag(r.u, r.ver), cf.etag(r.u, r.ver, True)):
                V.append(Violation('C10:headers-of-other-version', 'request %s: X-Sim-Ver names version %d of url %d but ETag is %r' % (r.id, r.ver, r.u, et)))
            if m.complete:
                stats['bytes_compared'] += len(m.body)
                if m.body != exp:
                    # does the body belong to another version? then it is a mixture of two origin versions
                    ident = simlib.body_identify(m.body)
                    cls = 'C10:truncated-served-as-complete' if exp.startswith(m.body) else ('C10:mixed-versions' if ident and ident[0] != cf.vkey(r.u, r.ver) else 'C10:body-altered')
                    V.append(Violation(cls, 'request %s (%s): headers of version %d of url %d, body: %s; body identifies as %s' % (r.id, 'hit' if not r.contacts else 'origin contacted', r.ver, r.u, hc.diff_desc(m.body, exp), ident)))
                elif not r.contacts:
                    stats['hits_judged'] += 1
            else:
                if not exp.startswith(m.body):
                    V.append(Violation('C10:body-altered', 'request %s: partial body is not a prefix of version %d of url %d: %s' % (r.id, r.ver, r.u, hc.diff_desc(m.body, exp))))
        o.stats = stats
        o.nontrivial = stats['hits_judged'] > 0
        o.sample = {'conf': plan['conf'], 'urls': [[u['sizes'], u.get('cc'), u.get('bumps')] for u in plan['urls']][:4], 'disk_faults': plan.get('disk_faults'),
                    'client0': [[s['wait'], s['u'], s['hdrs']] for s in plan['clients'][0]['steps']][:6]}
