"""C18 Collapsed forwarding: one upstream fetch, identical copies (single worker). DESIGN.md §4."""
import random, re
from simlib import tok
from framework import Violation
from props import register
from props import httpcommon as hc
from props import cachefam as cf

@register
class C18(hc.PProp):
    id = 'C18'
    rule = ('each run = collapsed_forwarding on, 1-3 cacheable URLs (sizes 0..300 KB, Content-Length or chunked) on a slow origin (0-300 ms before the head, '
            'paced body), bursts of 2-20 identical GETs per URL from separate clients with arrival offsets spread from before squid connects upstream to '
            'after the origin finished; every 3rd run the origin closes or resets mid-body. non-trivial = at least two requests arrived while the fetch '
            'was in progress and were judged; distinct = history fingerprint')
    quick_runs = 240
    thorough_runs = 5000
    quick_wall = 50
    thorough_wall = 900
    assumptions = ['single worker only: collapsing across SMP workers (Transients, CollapsedForwarding notifications) is not simulated',
                   '"while a fetch is in progress" = the request was sent after the origin received squid\'s first request for the URL and before the origin sent its last byte']
    expected_probes = ['collapsed_judged', 'bursts_judged', 'reval_collapsed_judged']
    sim_limit_s = 1200

    def plan(self, rng, tier, index):
        plan = hc.std_plan(rng, {'cache': rng.choice(['mem', 'mem', 'rock', 'ufs', 'shared']), 'cache_mem_mb': 32, 'lines': ['collapsed_forwarding on', 'read_timeout 15 seconds']}, hostile=rng.random() < 0.5)
        faulty = index % 3 == 2
        plan['faulty'] = faulty
        urls = []
        clients = []
        rid = index * 1000
        for u in range(rng.randint(1, 3)):
            size = rng.choice([0, 100, 5000, 40000, 65536, 100000, 300000])
            delay = rng.choice([0, 10000, 100000, 300000])
            pace = rng.choice([0, 100, 1000])
            url = {'sizes': [size], 'lm': True, 'cc': rng.choice(['max-age=100000', 'public, max-age=100000']), 'framing': rng.choice(['cl', 'cl', 'chunked']),
                   'origin_delay': delay, 'body_pace': pace, 'bump_on_serve': True, 'nver': 25}
            bt = hc.bound_transfer({'size': size, 'pace': pace}, plan['knobs'])
            size, pace = bt['size'], bt['pace']
            url['sizes'] = [size]; url['body_pace'] = pace
            if faulty and rng.random() < 0.7:
                url['abort'] = rng.choice(['close', 'reset']); url['abort_frac'] = rng.random()
            if not faulty and rng.random() < 0.25:
                # shareable but already stale on arrival, delivered in one segment: the collapsed clients are called back for a finished entry
                size = min(size, 3000)
                url.update({'sizes': [size], 'framing': 'cl', 'body_pace': 0, 'one_write': True, 'cc': rng.choice(['public, max-age=0, must-revalidate', 'no-cache', 'max-age=0'])})
                url.pop('abort', None)
            reval = not faulty and not url.get('one_write') and rng.random() < 0.4
            if reval:
                # second stratum: the cached object goes stale and a burst arrives while its revalidation (answered 304 after a delay) is in progress
                size = min(size, 5000); pace = 0
                url.update({'sizes': [size], 'body_pace': 0, 'cc': 'max-age=2', 'bump_on_serve': False, 'nver': 1, 'cond_delay': rng.choice([100000, 300000, 1000000]), 'reval': True})
                url.pop('abort', None)
            urls.append(url)
            span = delay + 200000 + (size // 1000) * (pace + 50)
            for k in range(rng.randint(2, 20)):
                rid += 1
                clients.append({'name': 'c%d' % rid, 'start': rng.choice([0, 0, 100, 2000]) + int(rng.random() ** 2 * span * 1.3), 'steps': [{'id': rid, 'u': u, 'hdrs': []}]})
            if reval:
                t2 = int(span * 1.3) + 5000000
                for k in range(rng.randint(2, 12)):
                    rid += 1
                    clients.append({'name': 'c%d' % rid, 'start': t2 + rng.choice([0, 0, 100, 2000]) + int(rng.random() ** 2 * url['cond_delay'] * 1.3), 'steps': [{'id': rid, 'u': u, 'hdrs': [], 'phase': 2}]})
        plan['urls'] = urls
        plan['clients'] = clients
        plan['_lists'] = ['clients']
        return plan

    def build(self, plan):
        scn, srv = cf.build_world(self, plan)
        # fault stratum: cut the first version's body short
        for u, url in enumerate(plan['urls']):
            if not url.get('abort'):
                continue
            for b in srv.lines:
                if hasattr(b, 'head') and b.head.startswith('rule full_%d_1 ' % u):
                    sends = [i for i, l in enumerate(b.lines) if isinstance(l, str) and l.startswith('send ')]
                    body_i = sends[-1]
                    parts = b.lines[body_i].split(' ')
                    from simlib import Payload
                    import simlib
                    # rebuild the body payload token truncated
                    full = simlib.Payload()
                    for piece in parts[1].split('+'):
                        if piece.startswith('x:'):
                            full.add(bytes.fromhex(piece[2:]))
                        elif piece.startswith('gen:'):
                            _, k, o_, n_ = piece.split(':'); full.add(('gen', k, int(o_), int(n_)))
                    cut = int(url['abort_frac'] * max(len(full) - 1, 0))
                    parts[1] = full.slice(0, cut).token()
                    b.lines[body_i] = ' '.join(parts)
                    b.lines[body_i + 1:] = [url['abort'], 'set cur%d 2' % u]
        return scn, None

    def judge(self, plan, expect, hist, o):
        V = o.violations
        recs, sent = cf.analyse(hist, plan)
        stats = {'collapsed_judged': 0, 'bursts_judged': 0, 'extra_fetches': 0}
        for u, url in enumerate(plan['urls']):
            rs = sorted([r for r in recs if r.u == u], key=lambda r: r.seq_send)
            fulls = [s for s in sent if s[2] == u and s[4] == 'full']
            if not fulls or len(rs) < 2:
                continue
            c1 = fulls[0]
            # end of the origin's transmission for that first fetch: last PSND on the connection that served it
            end_seq = None
            for sc in hist.server_conns():
                if any(x[0] == c1[0] for x in sc.rules):
                    nxt = [x[0] for x in sc.rules if x[0] > c1[0]]
                    limit = nxt[0] if nxt else 1 << 62
                    ps = [p[0] for p in sc.psnd if c1[0] < p[0] < limit]
                    end_seq = ps[-1] if ps else c1[0]
            def fetch_read_end(rule_seq):
                # seq at which squid had read the last byte the origin sent in answer to the rule triggered at rule_seq
                for sc in hist.server_conns():
                    if any(x[0] == rule_seq for x in sc.rules):
                        nxt = [x[0] for x in sc.rules if x[0] > rule_seq]
                        limit = nxt[0] if nxt else 1 << 62
                        upto = sum(p[3] for p in sc.psnd if p[0] < limit)
                        got = hist.squid_read_seq(sc, upto)
                        return got[0] if got else 1 << 62
                return 0
            aborted = bool(url.get('abort'))
            rd_end = fetch_read_end(c1[0])
            # in the window = squid had read the whole request after the origin got the first one and before squid had read the end of the origin's answer
            inwin = [r for r in rs if r.arrived and c1[0] < r.seq_send and r.arrived[0] < min(end_seq or 0, rd_end) and not (r.step and r.step.get('phase') == 2)]
            first = [r for r in rs if any(c['seq'] == c1[0] for c in r.contacts)]
            if len(inwin) >= 1:
                stats['bursts_judged'] += 1
            for r in inwin:
                stats['collapsed_judged'] += 1
                if r.contacts and not aborted:
                    stats['extra_fetches'] += 1
                    V.append(Violation('C18:not-collapsed:%s' % plan['conf']['cache'], 'GET %s for url %d was sent while the fetch started by request %s was in progress, yet caused its own origin request (%s)' % (r.id, u, first[0].id if first else '?', [c['rule'] for c in r.contacts])))
            # ---- revalidation stratum: requests that arrive while squid's own conditional request for the stale object is being answered
            rs2 = [r for r in rs if r.step and r.step.get('phase') == 2]
            if url.get('reval') and len(rs2) >= 2:
                boundary = min(r.seq_send for r in rs2)
                later = [x for x in sent if x[2] == u and x[0] > boundary]
                if later:
                    c2 = later[0]
                    end2 = c2[0]
                    for sc in hist.server_conns():
                        if any(x[0] == c2[0] for x in sc.rules):
                            nxt = [x[0] for x in sc.rules if x[0] > c2[0]]
                            limit = nxt[0] if nxt else 1 << 62
                            ps = [p[0] for p in sc.psnd if c2[0] < p[0] < limit]
                            end2 = ps[-1] if ps else c2[0]
                    rd_end2 = fetch_read_end(c2[0])
                    inwin2 = [r for r in rs2 if r.arrived and c2[0] < r.seq_send and r.arrived[0] < min(end2, rd_end2)]
                    if inwin2:
                        stats['reval_bursts_judged'] = stats.get('reval_bursts_judged', 0) + 1
                    for r in inwin2:
                        stats['collapsed_judged'] += 1
                        stats['reval_collapsed_judged'] = stats.get('reval_collapsed_judged', 0) + 1
                        if r.contacts:
                            V.append(Violation('C18:not-collapsed-revalidation:%s' % plan['conf']['cache'], 'GET %s for url %d was sent while the revalidation of the stale cached object (origin rule %s_%d) was in progress, yet caused its own origin request (%s)' % (r.id, u, c2[4], c2[3], [c['rule'] for c in r.contacts])))
            for r in rs:
                m = r.resp
                if hc.is_squid_error(m) or m.status != 200 or r.ver is None:
                    continue
                exp = cf.version_body(plan, u, r.ver)
                if m.complete and m.body != exp:
                    cls = 'C18:truncated-presented-complete' if exp.startswith(m.body) else 'C18:body-differs'
                    V.append(Violation(cls, 'GET %s for url %d (version %d, origin %s): %s' % (r.id, u, r.ver, 'aborted mid-body' if aborted and r.ver == 1 else 'complete', hc.diff_desc(m.body, exp))))
                if not m.complete and not aborted and not r.conn.client_gave_up:
                    V.append(Violation('C18:truncated-without-fault', 'GET %s for url %d got %d of %d body bytes although the origin sent everything' % (r.id, u, len(m.body), len(exp))))
                if r in inwin and not aborted and not r.contacts and r.ver != c1[3]:   # (a request that did its own fetch is reported as not-collapsed above)
                    V.append(Violation('C18:collapsed-client-got-other-version', 'GET %s was sent during the fetch of version %d of url %d but received version %d' % (r.id, c1[3], u, r.ver)))
        o.stats = stats
        o.nontrivial = stats['collapsed_judged'] >= 2
        o.sample = {'conf': plan['conf']['cache'], 'faulty': plan['faulty'], 'urls': [[u['sizes'][0], u['origin_delay'], u['body_pace'], u.get('abort')] for u in plan['urls']],
                    'starts': sorted(c['start'] for c in plan['clients'])[:20]}
