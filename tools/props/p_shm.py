"""Engine S checks (DESIGN.md §3.4, §4): C53 page allocator, C54 read/write lock, C55 store index, C56 queues.

One plan = one simsquid process that runs N generated cases (sim/shm_engine.cc, mode `shm:run <structure> cases.txt`).
A case = explicit operation lists per task + scheduling policy + schedule seed + capacities + optional kid-crash fault, one text
line of <rundir>/cases.txt:

    <id> key=value ... pol=R|P<d>|C seed=<n> [crash=<task>@<yield#>] [reps=<k>] | op op ... | op op ... [| ...]

pol=R: uniform random choice at every atomic; pol=P<d>: PCT (random priorities, d-1 random priority-change points); pol=C: run one
task to completion, then the next (order drawn from the seed). reps=k runs the same case under the k seeds seed..seed+k-1.
The schedule is a pure function of (case line); a failing case is replayed alone and shrunk by deleting tasks/operations.
"""
import copy, hashlib, os, random, re
import simlib
from framework import Prop, Outcome, Violation
from props import register
from props import httpcommon as hc

COMPONENTS = {
    'real_code': 'the real Ipc::Mem::PageStack / Ipc::ReadWriteLock / Ipc::StoreMap (+StoreMapAnchor, slices, file-number table on real POSIX '
                 'shared segments created by StoreMap::Init) / Ipc::OneToOneUniQueue + Ipc::QueueReader objects compiled from /repo inside the full '
                 'squid binary (squid is started normally and fully initialised before the harness takes over)',
    'simulated_stubs': 'the "processes" are cooperative coroutines inside one process, pre-empted by a seeded scheduler before every std::atomic '
                       'operation (atomic_shim.h); the notification channel of the queues (UDS message in squid) is a counter; the harness plays '
                       'the slice allocator client and the StoreMapCleaner',
    'not_run': 'real process boundaries, hardware memory ordering weaker than sequential consistency, MemStore/Rock/Transients callers of these structures',
}

ASSUME = ['interleavings are sequentially consistent at atomic-operation granularity: plain (non-atomic) code between two atomic operations of a '
          'task executes as one step; weaker memory orders are not modelled',
          'seeded sampling of schedules (uniform random, PCT, run-to-completion), not exhaustive enumeration',
          'holder bookkeeping is conservative: an acquisition counts from the return of the acquiring call, a release from the invocation of the '
          'releasing call']


def pick_policy(rng):
    x = rng.random()
    if x < 0.50:
        return 'R'
    if x < 0.88:
        return 'P%d' % rng.choice([1, 2, 2, 3, 3, 4, 5])
    return 'C'


def render_case(c):
    parts = [c['id']]
    for k in sorted(c['params']):
        parts.append('%s=%s' % (k, c['params'][k]))
    parts.append('pol=%s' % c['pol'])
    parts.append('seed=%d' % c['seed'])
    if c.get('crash'):
        parts.append('crash=%d@%d' % (c['crash'][0], c['crash'][1]))
    if c.get('reps', 1) != 1:
        parts.append('reps=%d' % c['reps'])
    for t in c['tasks']:
        parts.append('|')
        parts.extend(t)
    return ' '.join(parts)


class ShmProp(Prop):
    engine = 'S'
    variant = 'plain'
    structure = ''
    components = COMPONENTS
    technique = ('deterministic simulation of shared-memory "kids": real squid structures driven by coroutine tasks that a seeded scheduler '
                 'pre-empts before every atomic operation, with kid-crash faults; invariants after every step, histories against a sequential model')
    level_text = ('seeded sampling of task interleavings (three scheduling policies) x operation lists x capacities x kid-crash faults over the real '
                  'structure; every failure is gated for reproducibility, minimised to one case and replayable from one file; a clean batch is '
                  'evidence, not proof')
    level_note = 'trusts: the atomic shim (every std::atomic operation is a scheduling point); sequential consistency; the harness bookkeeping'
    assumptions = ASSUME
    # one plan = one process = cases_per_plan cases x reps schedule seeds; measured here (4 workers, loaded machine): 12-16 k case runs/s
    quick_runs = 32
    thorough_runs = 6000
    quick_wall = 22
    thorough_wall = 540
    cases_per_plan = 3000
    reps = 3
    crash_share = 0.15
    min_tasks, max_tasks = 2, 4

    # ---- generation -------------------------------------------------------------------------------------------------
    def plan(self, rng, tier, index):
        return {'gen': {'seed': rng.getrandbits(48), 'n': self.cases_per_plan, 'index': index}, 'sim_seed': rng.getrandbits(40)}

    def gen_case(self, rng, cid):
        raise NotImplementedError

    def conf(self, plan):
        return hc.make_conf({'cache': 'none'})

    def common(self, rng, c, ntasks, est_yields):
        c['pol'] = pick_policy(rng)
        c['seed'] = rng.getrandbits(40)
        c['reps'] = self.reps
        c['crash'] = None
        if rng.random() < self.crash_share:
            c['crash'] = [rng.randrange(ntasks), rng.randint(1, max(2, est_yields))]
        return c

    def cases_of(self, plan):
        if 'cases' in plan:
            return plan['cases']
        g = plan['gen']
        rng = random.Random(g['seed'])
        return [self.gen_case(rng, 'p%dc%d' % (g['index'], i)) for i in range(g['n'])]

    # ---- execution --------------------------------------------------------------------------------------------------
    def execute(self, plan, workdir):
        cases = self.cases_of(plan)
        lines = [render_case(c) for c in cases]
        scn = simlib.Scn(plan.get('sim_seed', 1))
        scn.conf = self.conf(plan)
        scn.line('mode shm:run %s cases.txt' % self.structure)
        scn.extra_files['cases.txt'] = ('\n'.join(lines) + '\n').encode()
        hist = simlib.run_squid(scn, workdir)
        return self.judge(plan, cases, lines, hist)

    def judge(self, plan, cases, lines, hist):
        o = Outcome()
        o.fp = hist.fingerprint()
        o.probes = dict(hist.probes)
        done = {}
        viols = []
        died = None
        errors = []
        for (seq, t, kind, rest) in hist.events:
            if kind == 'CASE':
                done[rest[0]] = rest
            elif kind == 'VIOL':
                viols.append(rest)
            elif kind == 'DIED':
                died = rest
            elif kind == 'ERROR':
                errors.append(' '.join(rest))
        by_id = dict((c['id'], i) for i, c in enumerate(cases))
        failed = []
        for v in viols:
            cid, cls, detail = v[0], v[1], v[2] if len(v) > 2 else ''
            i = by_id.get(cid)
            o.violations.append(Violation('%s:%s' % (self.id, cls), 'case %s: %s || %s' % (cid, detail, lines[i][:500] if i is not None else '?')))
            if cid not in failed:
                failed.append(cid)
        if died is not None or (hist.end != 'harness-done' and not errors and hist.life_has('abort')):
            # the structure's own assertion (or a wild access) fired under a legal operation sequence
            cid = died[0] if died else (cases[len(done)]['id'] if len(done) < len(cases) else '?')
            log = hist.cache_log()
            m = re.findall(r'assertion failed: ([^\n]*)', log)
            what = ('assertion failed: ' + m[-1]) if m else ('died: ' + ' '.join(died[1:]) if died else 'abort')
            what = re.sub(r'^.*?/src/', 'src/', what) if '/src/' in what else what
            cls = 'structure-assertion' if m else 'structure-crash'
            i = by_id.get(cid)
            if self.id == 'C19' and i is not None and re.search(r'[| ]U( |$)', lines[i]):
                cls = 'upd-' + cls     # same convention as the harness uses for cases that update headers
            o.violations.append(Violation('%s:%s' % (self.id, cls), 'case %s (rep %s): %s while the tasks performed only legal operations || %s' %
                                          (cid, died[1] if died else '?', what, lines[i][:500] if i is not None else '?')))
            if cid not in failed:
                failed.append(cid)
        elif errors:
            o.infra = 'harness error: ' + '; '.join(errors)[:400]
        elif hist.end != 'harness-done' or hist.rc != 0:
            o.infra = 'run did not complete: rc=%s end=%s out=%s log=%s' % (hist.rc, hist.end, hist.output[-300:], hist.cache_log()[-300:])
        elif len(done) != len(cases):
            o.infra = 'only %d of %d cases reported' % (len(done), len(cases))
        plan['_failed'] = failed
        steps = sum(int(r[1]) for r in done.values())
        nontriv = [r for r in done.values() if int(r[4]) > 0]
        scheds = set(r[2] for r in done.values())
        h = hashlib.sha1()
        for c in cases:
            r = done.get(c['id'])
            if r:
                h.update((r[2] + '|').encode())
        o.sig = h.hexdigest()[:16]
        reps = sum(c.get('reps', 1) for c in cases if c['id'] in done)
        o.stats = {'cases': len(done), 'case_runs': reps, 'distinct_cases': len(set(l.split(' ', 1)[1] for l, c in zip(lines, cases) if c['id'] in done and int(done[c['id']][4]) > 0)),
                   'steps': steps, 'preemptions': sum(int(r[4]) for r in done.values()), 'distinct_schedules': len(scheds),
                   'cases_with_crash_fault_fired': sum(1 for r in done.values() if 'K' in r[5]),
                   'cases_all_tasks_completed': sum(1 for r in done.values() if 'D' in r[5]), 'violating_cases': len(failed)}
        o.nontrivial = len(nontriv) > 0
        o.sample = {'structure': self.structure, 'cases': lines[:2]}
        return o

    # ---- shrinking --------------------------------------------------------------------------------------------------
    REPS_SHRINK = 16

    def _single(self, plan, case):
        p = {'cases': [copy.deepcopy(case)], 'sim_seed': plan.get('sim_seed', 1)}
        return p

    def shrink_steps(self, plan):
        cases = self.cases_of(plan)
        if len(cases) > 1 or 'cases' not in plan:
            failed = plan.get('_failed') or []
            by_id = dict((c['id'], c) for c in cases)
            cands = [by_id[i] for i in failed if i in by_id][:4] or cases[:8]
            for c in cands:
                yield self._single(plan, c), ('only-case', c['id'])
            return
        c = cases[0]
        keep0 = self.structure == 'queue'   # task 0 (the consumer) must stay
        def variant(mod):
            c2 = copy.deepcopy(c)
            mod(c2)
            c2['reps'] = max(c2.get('reps', 1), self.REPS_SHRINK)
            if c2.get('crash') and c2['crash'][0] >= len(c2['tasks']):
                c2['crash'] = None
            return self._single(plan, c2)
        # drop whole tasks
        if len(c['tasks']) > (2 if keep0 else 1):
            for t in range(len(c['tasks']) - 1, 0 if keep0 else -1, -1):
                def mod(c2, t=t):
                    del c2['tasks'][t]
                    if c2.get('crash'):
                        if c2['crash'][0] == t:
                            c2['crash'] = None
                        elif c2['crash'][0] > t:
                            c2['crash'][0] -= 1
                yield variant(mod), ('drop-task', t)
        # drop the crash fault
        if c.get('crash'):
            yield variant(lambda c2: c2.update(crash=None)), ('drop-crash',)
        # delete chunks of operations
        for t in range(len(c['tasks'])):
            if keep0 and t == 0:
                continue
            n = len(c['tasks'][t])
            chunk = n // 2
            while chunk >= 1:
                for i in range(0, n, chunk):
                    def mod(c2, t=t, i=i, chunk=chunk):
                        del c2['tasks'][t][i:i + chunk]
                    yield variant(mod), ('del-ops', t, i, chunk)
                chunk //= 2
        # simpler scheduling policy
        if c['pol'] != 'C':
            yield variant(lambda c2: c2.update(pol='C')), ('pol', 'C')
        # finally: one seed
        if c.get('reps', 1) > 1:
            for k in range(c['reps']):
                c2 = copy.deepcopy(c)
                c2['seed'] = c['seed'] + k
                c2['reps'] = 1
                yield self._single(plan, c2), ('seed', k)


def weighted(rng, table):
    """table: list of (weight, value)"""
    tot = sum(w for w, _ in table)
    x = rng.random() * tot
    for w, v in table:
        x -= w
        if x < 0:
            return v
    return table[-1][1]


# ======================================================================================================================= C53
@register
class C53(ShmProp):
    id = 'C53'
    structure = 'pagestack'
    rule = ('case = 2-4 tasks with 3-30 pop/push operations each on a real Ipc::Mem::PageStack of 2-8 pages (sometimes 65-70 or 129-200 pages so '
            'that the counting tree has two used leaves / three levels), 0-5 pages free at start, 0-3 pages owned by each task, one of three '
            'scheduling policies, optional kid crash; every case runs under 3 schedule seeds. non-trivial = at least one pre-emption happened; '
            'distinct = distinct case text (operations, capacities, policy, seed)')
    expected_probes = ['c53.pop_ok', 'c53.pop_fail', 'c53.push', 'c53.pop_of_page_being_pushed', 'c53.quiescent_checks', 'fault.shm.kid_crash']
    assumptions = ASSUME + ['"a page was free" is read as token counting: pages free at start + push() calls returned - pop() calls that returned a page - '
                            'other pop() calls in flight; a failed pop() is flagged only if that number stayed >= 1 during the whole call. (The literal '
                            'per-page reading does not hold for the unchanged tree: see PageStack.h "A pushed page may not become available immediately")']

    def gen_case(self, rng, cid):
        nt = weighted(rng, [(5, 2), (4, 3), (2, 4)])
        x = rng.random()
        if x < 0.72:
            cap = rng.randint(2, 8)
        elif x < 0.86:
            cap = rng.randint(65, 70)
        else:
            cap = rng.choice([129, 130, 135, 192, 200])
        free = rng.randint(0, min(cap, 5))
        own = rng.randint(0, 3)
        ppop = rng.choice([0.3, 0.5, 0.5, 0.7])
        tasks = []
        for t in range(nt):
            ops = []
            for k in range(rng.randint(3, 30)):
                ops.append('o' if rng.random() < ppop else 'u%d' % rng.randint(0, 5))
            tasks.append(ops)
        c = {'id': cid, 'params': {'cap': cap, 'free': free, 'own': own}, 'tasks': tasks}
        return self.common(rng, c, nt, 60)


# ======================================================================================================================= C54
@register
class C54(ShmProp):
    id = 'C54'
    structure = 'rwlock'
    rule = ('case = 2-4 tasks with 3-30 operations each (lockShared, lockExclusive, lockHeaders, the three unlocks, switchExclusiveToShared, '
            'unlockSharedAndSwitchToExclusive, startAppending, stopAppendingAndRestoreExclusive) on 1-3 real Ipc::ReadWriteLock objects, one of three '
            'scheduling policies, optional kid crash, 3 schedule seeds per case. non-trivial = at least one pre-emption; distinct = distinct case text')
    expected_probes = ['c54.shared_ok', 'c54.exclusive_ok', 'c54.headers_ok', 'c54.trylock_failed', 'c54.appending', 'c54.stop_appending_false',
                       'c54.stop_appending_true', 'c54.switched_to_exclusive', 'c54.switched_to_shared', 'c54.quiescent_checks', 'fault.shm.kid_crash']

    def gen_case(self, rng, cid):
        nt = weighted(rng, [(5, 2), (4, 3), (2, 4)])
        nl = weighted(rng, [(7, 1), (2, 2), (1, 3)])
        tasks = []
        for t in range(nt):
            ops = []
            # optimistic local model: what the task would hold if every attempt succeeded
            mode = [0] * nl      # 0 none, 1 exclusive, 2 appending
            shared = [0] * nl
            hdr = [False] * nl
            for k in range(rng.randint(3, 30)):
                l = rng.randrange(nl)
                if rng.random() < 0.25:
                    op = rng.choice('SXHsxhDUAZ')
                else:
                    cand = [(3, 'S'), (3, 'X'), (1, 'H')]
                    if shared[l] - (1 if hdr[l] else 0) > 0:
                        cand += [(4, 's'), (2, 'U')]
                    if hdr[l]:
                        cand.append((3, 'h'))
                    if mode[l] == 1:
                        cand += [(3, 'x'), (2, 'D'), (3, 'A')]
                    if mode[l] == 2:
                        cand += [(2, 'x'), (3, 'Z'), (1, 'D')]
                    op = weighted(rng, cand)
                ops.append('%s%d' % (op, l))
                if op == 'S':
                    shared[l] += 1
                elif op == 'X' and mode[l] == 0 and shared[l] == 0:
                    mode[l] = 1
                elif op == 'H' and not hdr[l]:
                    hdr[l] = True; shared[l] += 1
                elif op == 's' and shared[l] - (1 if hdr[l] else 0) > 0:
                    shared[l] -= 1
                elif op == 'x':
                    mode[l] = 0
                elif op == 'h' and hdr[l]:
                    hdr[l] = False; shared[l] -= 1
                elif op == 'D' and mode[l]:
                    mode[l] = 0; shared[l] += 1
                elif op == 'U' and shared[l] - (1 if hdr[l] else 0) > 0:
                    shared[l] -= 1; mode[l] = 1
                elif op == 'A' and mode[l] == 1:
                    mode[l] = 2
                elif op == 'Z' and mode[l] == 2:
                    mode[l] = 1
            tasks.append(ops)
        c = {'id': cid, 'params': {'locks': nl}, 'tasks': tasks}
        return self.common(rng, c, nt, 40)


# ======================================================================================================================= C55
@register
class C55(ShmProp):
    id = 'C55'
    structure = 'storemap'
    cases_per_plan = 1500
    quick_runs = 44
    rule = ('case = 2-4 tasks with 3-30 operations each on a real Ipc::StoreMap with 3-8 anchors/slices on the shared segments created by '
            'StoreMap::Init, 1-4 keys (colliding anchor positions included), a real PageStack as slice allocator and the harness as StoreMapCleaner. '
            'Operations: openForWriting+setKey, append slice, startAppending, closeForWriting, abortWriting, switchWritingToReading, openForReading, walk '
            'the chain, closeForReading, closeForReadingAndFreeIdle, freeEntry (by a holder / by position), freeEntryByKey, purgeOne; three scheduling '
            'policies, optional kid crash, 3 schedule seeds per case. A third of the cases also contain openForUpdating/closeForUpdating/abortUpdating '
            '(violation classes prefixed "upd-"; the unchanged tree has two known findings there, see known_findings.json; VERIF_C55_UPDATES=0 leaves them out). '
            'non-trivial = at least one pre-emption; distinct = distinct case text')
    _base_probes = ['c55.write_open_ok', 'c55.write_open_failed', 'c55.read_open_ok', 'c55.read_open_failed', 'c55.read_open_of_appending_entry',
                    'c55.slices_visited', 'c55.full_chains_verified', 'c55.slices_freed', 'c55.certain_deletions', 'c55.purged',
                    'c55.read_closed_free_idle', 'c55.write_aborted', 'c55.quiescent_checks', 'fault.shm.kid_crash']
    # share of cases that contain openForUpdating/closeForUpdating/abortUpdating. On the unchanged tree those cases expose
    # what look like genuine defects of the update code (see the report / VERIF_C55_UPDATES=1 to reproduce); their violation classes
    # carry the prefix "upd-" so that they can be matched separately. Minimal cases (mode shm:run storemap):
    #   A  keys=0 slots=5 pol=C seed=10 | W0 a a a c | R0 n | G0 F0
    #      sequential: reader holds the 3-slice entry, closeForUpdating() splices the stale suffix into the fresh entry, freeEntryByKey() frees
    #      the fresh entry and with it the suffix slices the stale reader still holds a read lock on
    #   B  keys=0 slots=6 pol=P3 seed=25 | W0 a a a c G0 G0 | G0 G0 G0 G0 G0 G0 G0 G0 G0 G0
    #      openForUpdating() read-opens, stalls, later gets the headers lock of an anchor that another updater superseded meanwhile
    #      (waitingToBeFreed is not re-checked) and updates the stale version
    with_updates = float(os.environ.get('VERIF_C55_UPDATES', '1') or 0) and 0.33
    expected_probes = _base_probes + (['c55.update_committed', 'c55.update_aborted'] if with_updates else [])

    def gen_case(self, rng, cid):
        nt = weighted(rng, [(5, 2), (4, 3), (2, 4)])
        slots = rng.randint(3, 8)
        nk = weighted(rng, [(3, 1), (4, 2), (2, 3), (1, 4)])
        pos = []
        for j in range(nk):
            pos.append(rng.choice(pos) if pos and rng.random() < 0.3 else rng.randrange(slots))
        upd = rng.random() < self.with_updates
        tasks = []
        for t in range(nt):
            ops = []
            want = rng.randint(3, 30)
            role = weighted(rng, [(4, 'w'), (4, 'r'), (2, 'd'), (3, 'mix')] + ([(3, 'u')] if upd else []))
            writing = False
            reading = 0
            while len(ops) < want:
                r = role if role != 'mix' else rng.choice('wrd' + ('u' if upd else ''))
                j = rng.randrange(nk)
                if r == 'w':
                    if not writing:
                        ops.append('W%d' % j); writing = True
                        for _ in range(rng.randint(0, 4)):
                            ops.append(weighted(rng, [(6, 'a'), (2, 'p')]))
                    else:
                        ops.append(weighted(rng, [(4, 'a'), (1, 'p')]))
                        if rng.random() < 0.45:
                            e = weighted(rng, [(6, 'c'), (2, 'b'), (1, 'w')])
                            ops.append(e); writing = False
                            if e == 'w':
                                reading += 1
                elif r == 'r':
                    if reading == 0 or (reading < 2 and rng.random() < 0.2):
                        ops.append('R%d' % j); reading += 1
                    else:
                        x = weighted(rng, [(6, 'n'), (2, 'm'), (3, 'r'), (2, 'f'), (1, 'e')])
                        ops.append(x)
                        if x in 'rf':
                            reading -= 1
                elif r == 'd':
                    ops.append(weighted(rng, [(4, 'F%d' % j), (3, 'E%d' % rng.randrange(slots)), (2, 'P'), (1, 'e')]))
                else:
                    ops.append(weighted(rng, [(5, 'G%d' % j), (1, 'g%d' % j)]))
            tasks.append(ops[:30])
        c = {'id': cid, 'params': {'slots': slots, 'keys': ','.join(str(p) for p in pos)}, 'tasks': tasks}
        return self.common(rng, c, nt, 150)


# ======================================================================================================================= C56
@register
class C56(ShmProp):
    id = 'C56'
    structure = 'queue'
    min_tasks = 2
    quick_runs = 26
    rule = ('case = one consumer task and 1-3 producer tasks, every producer with its own real Ipc::OneToOneUniQueue (capacity 1-4) and all of them '
            'sharing one real Ipc::QueueReader as the queues of one BaseMultiQueue reader do; a producer pushes 3-30 unique items (retrying later when '
            'the queue is full) and notifies the consumer iff push() says so; the consumer pops until all queues are empty, idles until a notification '
            'arrives, clears the signal and repeats; three scheduling policies, optional kid crash, 3 schedule seeds per case. non-trivial = at least '
            'one pre-emption; distinct = distinct case text. 60% of the cases are the exact one-producer/one-consumer setting of the statement')
    expected_probes = ['c56.push_ok', 'c56.push_full', 'c56.pop_ok', 'c56.pop_empty', 'c56.notifications', 'c56.wakeups', 'c56.consumer_idle',
                       'c56.quiescent_checks', 'fault.shm.kid_crash']
    assumptions = ASSUME + ['lost wake-ups are judged as bounded liveness on finite runs: when every producer has finished, every notification it was '
                            'asked to send has been handled and the consumer is idle, all queues must be empty',
                            'the consumer starts by popping (QueueReader starts unblocked, so a consumer that idled first would not be notified)']

    def gen_case(self, rng, cid):
        npr = weighted(rng, [(6, 1), (3, 2), (1, 3)])
        qcap = rng.randint(1, 4)
        tasks = [['consume']]
        for t in range(npr):
            ops = []
            for k in range(rng.randint(3, 30)):
                ops.append('p' if rng.random() < 0.85 else 'y')
            tasks.append(ops)
        c = {'id': cid, 'params': {'qcap': qcap}, 'tasks': tasks}
        return self.common(rng, c, npr + 1, 120)


# ======================================================================================================================= C19
@register
class C19(ShmProp):
    """SMP workers share cache entries (component level, DESIGN.md §4): N real MemStore objects on one set of segments."""
    id = 'C19'
    structure = 'memstore'
    cases_per_plan = 600
    quick_runs = 84
    quick_wall = 50
    rule = ('case = 2-4 worker tasks, each with its own real MemStore object attached to the one set of shared segments squid created for '
            '`memory_cache_shared on` (map, slice stack, extras, 4-12 pages of 32 KB), each owning private StoreEntry objects; operations: start a '
            'response for one of 1-3 keys (body 3-90 KB, so up to three pages), grow it chunk by chunk through MemStore::write() until '
            'completeWriting(), abort it, MemStore::get() + byte comparison, updateAnchored() on a still-appending hit, evictIfFound(), evictCached() through an entry the worker loaded (attached or detached); three '
            'scheduling policies, optional kid crash, 3 schedule seeds per case. non-trivial = at least one pre-emption; distinct = distinct case text')
    expected_probes = ['c19.responses_cached', 'c19.responses_not_cached', 'c19.get_hit', 'c19.get_miss', 'c19.complete_hits_verified',
                       'c19.partial_hits_verified', 'c19.update_anchored_ok', 'c19.evictions', 'c19.certain_evictions', 'c19.quiescent_checks',
                       'fault.shm.kid_crash']
    assumptions = ASSUME + ['component level: workers are tasks inside one process; Transients/CollapsedForwarding notifications, rock/diskers and real '
                            'process boundaries are not covered; the harness plays Store::Controller (hands private StoreEntry objects to MemStore)',
                            'updateHeaders() is not exercised (see the C55 update findings)']

    def plan(self, rng, tier, index):
        p = ShmProp.plan(self, rng, tier, index)
        p['pages'] = rng.choice([4, 6, 8, 12])
        return p

    def cases_of(self, plan):
        if 'cases' in plan:
            return plan['cases']
        g = plan['gen']
        rng = random.Random(g['seed'])
        return [self.gen_case(rng, 'p%dc%d' % (g['index'], i), plan.get('pages', 6)) for i in range(g['n'])]

    def _single(self, plan, case):
        p = ShmProp._single(self, plan, case)
        p['pages'] = plan.get('pages', 6)
        return p

    def conf(self, plan):
        return hc.make_conf({'cache': 'shared', 'cache_mem_mb': 1, 'lines': ['cache_mem %d KB' % (32 * plan.get('pages', 6))]})

    def gen_case(self, rng, cid, pages=6):
        nt = weighted(rng, [(4, 2), (4, 3), (2, 4)])
        nk = weighted(rng, [(4, 1), (4, 2), (2, 3)])
        sizes = [rng.choice([3000, 9000, 20000, 31000, 33000, 40000, 64000, 70000, 90000]) for _ in range(rng.randint(1, 3))]
        chunk = rng.choice([4000, 16000, 30000, 50000])
        upd = rng.random() < 0.3      # a third of the cases also update headers of completely loaded entries (what a 304 does to an IN_MEMORY entry)
        tasks = []
        for t in range(nt):
            ops = []
            want = rng.randint(3, 30)
            role = weighted(rng, [(4, 'w'), (4, 'r'), (1, 'e'), (3, 'mix')])
            while len(ops) < want:
                r = role if role != 'mix' else rng.choice('wwrre')
                j = rng.randrange(nk)
                if r == 'w':
                    ops.append('N%d:%d' % (j, rng.randrange(len(sizes))))
                    for _ in range(rng.randint(1, 6)):
                        ops.append(weighted(rng, [(12, 'w'), (1, 'x'), (1, 'G%d' % j)]))
                elif r == 'r':
                    ops.append(weighted(rng, [(5, 'G%d' % j), (3, 'g'), (3, 'd'), (1, 'V')] + ([(4, 'U')] if upd else [])))
                else:
                    ops.append(weighted(rng, [(3, 'E%d' % j), (2, 'G%d' % j), (2, 'V')]))     # V: release through an entry this worker loaded (MemStore::evictCached)
            tasks.append(ops[:30])
        c = {'id': cid, 'params': {'keys': nk, 'sizes': ','.join(str(x) for x in sizes), 'chunk': chunk}, 'tasks': tasks}
        return self.common(rng, c, nt, 400)
