"""C61 Cache manager enforces access rules and passwords. DESIGN.md §4."""
import random, re, base64
import simlib
from simlib import tok
from framework import Violation
from props import register
from props import httpcommon as hc

ACTIONS = ['info', 'menu', 'counters', 'ipcache', 'fqdncache', 'mem', 'config', 'offline_toggle', 'shutdown', 'events', 'idns']
PW_REQUIRED = {'config', 'offline_toggle', 'shutdown'}
CLIENTS = ['10.1.0.1', '10.1.0.2', '10.7.7.7']

def passwd_for(passwd_lines, action):
    for pw, acts in passwd_lines:
        if action in acts or 'all' in acts:
            return pw
    return None

def password_ok(passwd_lines, action, given):
    pw = passwd_for(passwd_lines, action)
    if pw is None:
        return action not in PW_REQUIRED
    if pw == 'disable':
        return False
    if pw == 'none':
        return True
    return bool(given) and given == pw

@register
class C61(hc.PProp):
    id = 'C61'
    rule = ('each run = random cache manager protection: http_access rules combining the built-in manager ACL with src ACLs (allow admin net / deny manager / allow all ...), 0-3 '
            'cachemgr_passwd lines (password, disable, none, all, several actions per line); 8-30 manager requests (/squid-internal-mgr/<action>) for 11 actions from 3 client '
            'addresses with no, wrong or right password in Authorization: Basic; an allowed shutdown, if any, is the last request. non-trivial = both an '
            'answered report and a refused request were judged; distinct = history fingerprint')
    quick_runs = 240
    thorough_runs = 5000
    quick_wall = 50
    thorough_wall = 900
    assumptions = ['reference = http_access first-match over (manager, src) ACLs, then CacheManager password rule: first cachemgr_passwd line naming the action or all; '
                   'no line: only config/offline_toggle/shutdown/reconfigure/rotate need a password (and are refused)']
    expected_probes = ['reports_judged', 'refusals_judged', 'shutdown_attempts']

    def plan(self, rng, tier, index):
        style = rng.choice(['admin_only', 'deny_all_mgr', 'allow_all', 'admin_or_second', 'deny_second'])
        acl = ['acl adminnet src 10.1.0.1/32', 'acl second src 10.1.0.2/32']
        rules = {'admin_only': ['http_access allow manager adminnet', 'http_access deny manager'],
                 'deny_all_mgr': ['http_access deny manager'],
                 'allow_all': [],
                 'admin_or_second': ['http_access allow manager adminnet', 'http_access allow manager second', 'http_access deny manager'],
                 'deny_second': ['http_access deny manager second']}[style]
        pwl = []
        for _ in range(rng.choice([0, 1, 2, 3])):
            pw = rng.choice(['secret1', 'Secret2', 'disable', 'none', 'p w'.replace(' ', '_')])
            acts = rng.sample(ACTIONS + ['all'], rng.randint(1, 3))
            pwl.append([pw, acts])
        lines = acl + rules + ['http_access allow all'] + ['cachemgr_passwd %s %s' % (pw, ' '.join(a)) for pw, a in pwl]
        plan = hc.std_plan(rng, {'cache': 'none', 'no_default_access': True, 'lines': lines}, hostile=False)
        plan['style'] = style; plan['pwl'] = pwl
        reqs = []
        for k in range(rng.randint(8, 30)):
            a = rng.choice(ACTIONS)
            pw = passwd_for(pwl, a)
            given = rng.choice([None, None, 'wrong', pw if pw not in (None, 'disable', 'none') else 'guess', pw if pw not in (None, 'disable', 'none') else None])
            # query strings and fragments, also with malformed percent-encodings: the request must be recognised (and access-checked) as the same manager request
            suffix = rng.choice(['', '', '', '', '?x=1', '?x=%41', '?x=%zz', '?x=100%', '#%g1', '?a=%4', '?%', '#frag', '?x=%00'])
            reqs.append({'id': index * 100 + k, 'action': a, 'src': rng.choice(CLIENTS), 'given': given, 'user': rng.choice(['admin', '', 'x']), 'suffix': suffix})
        plan['reqs'] = reqs
        plan['_lists'] = ['reqs']
        return plan

    def allowed_by_access(self, plan, src):
        st = plan['style']
        if st == 'admin_only': return src == '10.1.0.1'
        if st == 'deny_all_mgr': return False
        if st == 'allow_all': return True
        if st == 'admin_or_second': return src in ('10.1.0.1', '10.1.0.2')
        return src != '10.1.0.2'

    def build(self, plan):
        scn = self.new_scn(plan)
        scn.knob('peer.expect_timeout_us', 30000000)
        # an allowed shutdown must come last: it ends the squid process
        reqs = list(plan['reqs'])
        def is_live_shutdown(q):
            return q['action'] == 'shutdown' and self.allowed_by_access(plan, q['src']) and password_ok(plan['pwl'], 'shutdown', q['given'])
        live = [q for q in reqs if is_live_shutdown(q)]
        reqs = [q for q in reqs if not is_live_shutdown(q)] + live[:1]
        plan['_order'] = [q['id'] for q in reqs]
        for i, q in enumerate(reqs):
            cl = scn.client('c%d' % i, start=i * 3000, **{'from': q['src']})
            cl.add('connect %s %d' % (hc.SQUID_IP, hc.SQUID_PORT))
            hd = [(b'Host', b'simsquid:3128'), (b'X-Sim-Req', b'%d' % q['id'])]
            if q['given'] is not None:
                hd.append((b'Authorization', b'Basic ' + base64.b64encode(('%s:%s' % (q['user'], q['given'])).encode())))
            cl.add('send %s' % tok(hc.request_head(b'GET', b'http://simsquid:3128/squid-internal-mgr/' + q['action'].encode() + q.get('suffix', '').encode(), hd)))
            cl.add('expect response timeout 20000000 soft')
        return scn, None

    def execute(self, plan, workdir):
        scn, expect = self.build(plan)
        hist = simlib.run_squid(scn, workdir)
        o = hc.base_outcome(hist)
        if o.infra:
            return o
        self.judge(plan, expect, hist, o)
        return o

    def judge(self, plan, expect, hist, o):
        V = o.violations
        stats = {'reports_judged': 0, 'refusals_judged': 0, 'shutdown_attempts': 0}
        resp = {}
        for cv in hc.client_views(hist):
            ids = [x.decode() for x in cv.req_ids() if x is not None]
            for k, m in enumerate(cv.finals[:len(ids)]):
                resp[ids[k]] = m
        shutdown_ok_expected = False
        for q in plan['reqs']:
            rid = str(q['id'])
            acc = self.allowed_by_access(plan, q['src'])
            pwok = password_ok(plan['pwl'], q['action'], q['given'])
            allow = acc and pwok
            if q['action'] == 'shutdown':
                stats['shutdown_attempts'] += 1
                if allow:
                    shutdown_ok_expected = True
            if rid not in resp:
                continue
            m = resp[rid]
            served = m.status == 200 and not hc.is_squid_error(m)
            desc = 'action %s from %s with password %r (http_access: %s, cachemgr_passwd %s, config %s)' % (q['action'], q['src'], q['given'], plan['style'], plan['pwl'], 'allows' if allow else 'refuses')
            if allow:
                stats['reports_judged'] += 1
            else:
                stats['refusals_judged'] += 1
                if served:
                    V.append(Violation('C61:report-served-without-authority:%s' % ('access' if not acc else 'password'), 'manager %s was answered with a report (status 200, %d bytes)' % (desc, len(m.body))))
                elif m.status not in (401, 403, 404):
                    V.append(Violation('C61:odd-refusal-status', 'manager %s refused with status %d' % (desc, m.status)))
        exited = hist.life_has('exit') or hist.life_has('sigterm')
        log = hist.cache_log()
        if ('Shutdown: Cache Manager' in log or 'Preparing for shutdown' in log) and not shutdown_ok_expected:
            V.append(Violation('C61:shutdown-performed-without-authority', 'squid began shutting down although no manager request was entitled to request it'))
        o.stats = stats
        o.nontrivial = stats['reports_judged'] > 0 and stats['refusals_judged'] > 0
        o.sample = {'style': plan['style'], 'pwl': plan['pwl'], 'reqs': [[q['action'], q['src'], q['given']] for q in plan['reqs'][:6]]}
