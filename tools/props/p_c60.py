"""C60 ICAP adaptation delivers exactly the virgin or the adapted message. DESIGN.md §4."""
import random, re
import simlib
from simlib import Payload, G, tok, chunk_encode
from framework import Violation
from props import register
from props import httpcommon as hc

BEHAVIOURS = ['204', '204', '200', '200', '200_early', '204_in_preview', '100_then_204', '100_then_200', 'icap500', 'close_before_head', 'close_mid_head', 'close_mid_body',
              'reset_mid_body', 'stall', 'stall_mid_body', '200_chunked_nocl', 'close_mid_adapted_head']

def icap_head(status, extra):
    return b'ICAP/1.0 ' + status + b'\r\nISTag: "sim-1"\r\nServer: sim\r\n' + extra + b'\r\n'

@register
class C60(hc.PProp):
    id = 'C60'
    rule = ('each run = one ICAP service (RESPMOD or REQMOD, bypass on or off, Preview 0-4096 offered in OPTIONS, persistent ICAP connections on/off) and 4-12 sequential '
            'transactions with virgin bodies of 0..70 KB; per transaction the scripted ICAP server answers 204, 204 inside the preview, 100-continue then 204/200, 200 with an '
            'adapted message (different tagged body, Content-Length or chunked), 200 before reading the whole virgin body, ICAP 500, or fails: close before/mid ICAP head, '
            'close/reset/stall inside the adapted body, stall before answering. non-trivial = at least one adapted (200) and one failing ICAP transaction were judged; '
            'distinct = history fingerprint')
    quick_runs = 200
    thorough_runs = 5000
    quick_wall = 55
    thorough_wall = 1200
    assumptions = ['the ICAP server never offers Allow: 206 (partial-content echo is a service-requested mixture)', 'bypass is required to yield the virgin message only for virgin bodies '
                   '<= 32 KB (beyond the body pipe squid consumes virgin bytes and documents that bypass is then impossible)', 'the ICAP reaction for a transaction is selected by an X-Sim-Req ICAP header that squid adds through adaptation_meta']
    expected_probes = ['adapted_judged', 'virgin_judged', 'failures_judged', 'bypass_required_judged']
    sim_limit_s = 3000

    def plan(self, rng, tier, index):
        mode = rng.choice(['respmod', 'respmod', 'reqmod'])
        bypass = rng.choice([0, 1])
        preview = rng.choice([0, 10, 1024, 4096])
        lines = ['icap_enable on', 'icap_service svc %s_precache bypass=%d icap://10.0.0.5:1344/%s' % (mode, bypass, mode), 'adaptation_access svc allow all',
                 'icap_preview_enable %s' % rng.choice(['on', 'on', 'off']), 'icap_persistent_connections %s' % rng.choice(['on', 'off']), 'icap_service_failure_limit -1',
                 'icap_io_timeout 5 seconds', 'adaptation_meta X-Sim-Req "%{X-Sim-Req}>h"', 'icap_connect_timeout 3 seconds', 'adaptation_send_client_ip on', 'read_timeout 20 seconds']
        plan = hc.std_plan(rng, {'cache': 'none', 'lines': lines}, hostile=rng.random() < 0.4)
        plan['mode'] = mode; plan['bypass'] = bypass; plan['preview'] = preview
        plan['txns'] = [{'id': index * 100 + k, 'vsize': rng.choice([0, 10, max(preview - 1, 0), preview, preview + 1, 5000, 30000, 40000, 70000]), 'asize': rng.choice([0, 7, 3000, 50000]),
                         'beh': rng.choice(BEHAVIOURS), 'frac': rng.random(), 'seg': rng.choice(['rand', 'whole', 'rand', 'byte'])} for k in range(rng.randint(4, 12))]
        for t in plan['txns']:
            if rng.random() < 0.25:
                # a virgin body larger than squid's 64 KB body pipes towards a slow receiver, so the pipe that echoes the virgin body after a 204 fills up
                t['vsize'] = rng.choice([100000, 300000, 1000000]); t['slow'] = rng.choice([[4096, 2000], [16384, 3000], [1024, 300]])
                if rng.random() < 0.6:
                    t['beh'] = rng.choice(['204_in_preview', '204_in_preview', '204', '100_then_204'])
            if t['beh'] in ('close_mid_body', 'reset_mid_body', 'stall_mid_body') and rng.random() < 0.5:
                t['nocl'] = True     # adapted message without Content-Length: only squid's own framing can tell the client that the body was cut short
                t['asize'] = max(t['asize'], 3000)
            hc.bound_transfer({'size': t['asize'], 'seg': t['seg'], 'pace': 0}, plan['knobs'])
            if t['seg'] == 'byte' and t['asize'] > 3000:
                t['seg'] = 'rand'
        plan['_lists'] = ['txns']
        return plan

    def build(self, plan):
        scn = self.new_scn(plan)
        scn.knob('peer.expect_timeout_us', 60000000)
        mode = plan['mode']; P = plan['preview']
        icap = scn.server('icap', '10.0.0.5', 1344)
        opt = icap.sub('rule options has %s' % tok(b'OPTIONS icap://'))
        opt.add('send %s seg whole' % tok(icap_head(b'200 OK', b'Methods: ' + mode.upper().encode() + b'\r\nAllow: 204\r\nPreview: %d\r\nTransfer-Preview: *\r\nOptions-TTL: 36000\r\nMax-Connections: 100\r\n' % P)))
        srv = scn.server('o1', '10.0.0.1', 80)
        cl = scn.client('c0')
        expect = {}
        preview_on = 'icap_preview_enable on' in plan['conf']['lines']
        for t in plan['txns']:
            rid = str(t['id'])
            vkey, akey = 'v%07d' % (t['id'] % 10000000), 'a%07d' % (t['id'] % 10000000)
            vbody = Payload(G(vkey, 0, t['vsize'])); abody = Payload(G(akey, 0, t['asize']))
            expect[rid] = {'v': vbody, 'a': abody, 'beh': t['beh'], 'vsize': t['vsize']}
            # ---- HTTP side
            if mode == 'respmod':
                req = hc.request_head(b'GET', b'http://10.0.0.1/i%d' % t['id'], [(b'Host', b'10.0.0.1'), (b'X-Sim-Req', rid.encode())])
                r = srv.sub('rule t%d has %s' % (t['id'], tok(b' /i%d ' % t['id'])))
                r.add('send %s' % Payload(hc.response_head(200, [(b'Content-Length', b'%d' % t['vsize']), (b'X-Sim-Ver', vkey.encode())]), vbody).token())
            else:
                req = Payload(hc.request_head(b'POST', b'http://10.0.0.1/i%d' % t['id'], [(b'Host', b'10.0.0.1'), (b'X-Sim-Req', rid.encode()), (b'Content-Length', b'%d' % t['vsize'])]), vbody)
                r = srv.sub('rule t%d has %s' % (t['id'], tok(b' /i%d ' % t['id'])))
                if t.get('slow'):
                    r.add('readpace %d %d' % tuple(t['slow']))
                r.add('expect body timeout 40000000 soft')
                r.add('send %s' % tok(hc.response_head(200, [(b'Content-Length', b'2')]) + b'ok'))
            # ---- ICAP side: one rule per transaction, consumed in order
            has_body = t['vsize'] > 0 or mode == 'respmod'   # a GET in reqmod has a null-body; a 0-length response body is still a body
            in_preview = preview_on and has_body and (t['vsize'] > P)
            if mode == 'respmod':
                ahead = hc.response_head(200, [(b'X-Adapted', b'1'), (b'X-Sim-Ver', akey.encode())] + ([(b'Content-Length', b'%d' % t['asize'])] if t['beh'] != '200_chunked_nocl' and not t.get('nocl') else []))
                enc = b'res-hdr=0, res-body=%d' % len(ahead)
            else:
                ahead = hc.request_head(b'POST', b'http://10.0.0.1/i%d' % t['id'], [(b'Host', b'10.0.0.1'), (b'X-Sim-Req', rid.encode()), (b'X-Adapted', b'1'), (b'Content-Length', b'%d' % t['asize'])])
                enc = b'req-hdr=0, req-body=%d' % len(ahead)
            adapted = Payload(icap_head(b'200 OK', b'Encapsulated: ' + enc + b'\r\n'), ahead, chunk_encode(abody, random.Random(t['id'])))
            r = icap.sub('rule i%d has %s has %s' % (t['id'], tok(mode.upper().encode() + b' icap://'), tok(b'X-Sim-Req: %d\r\n' % t['id'])))
            beh = t['beh']
            seg = ' seg %s' % t['seg']
            def read_rest():
                if in_preview:
                    r.add('send %s seg whole' % tok(b'ICAP/1.0 100 Continue\r\n\r\n'))
                    r.add('expect chunked timeout 20000000 soft')
            if beh == 'close_before_head':
                r.add('close'); continue_ = False
            else:
                r.add('expect icap timeout 20000000 soft')
            if beh in ('204', '100_then_204'):
                if beh == '100_then_204' or not in_preview:
                    read_rest()
                r.add('send %s seg whole' % tok(icap_head(b'204 No Content', b'')))
            elif beh == '204_in_preview':
                r.add('send %s seg whole' % tok(icap_head(b'204 No Content', b'')))
            elif beh in ('200', '100_then_200', '200_chunked_nocl'):
                read_rest()
                r.add('send %s%s' % (adapted.token(), seg))
            elif beh == '200_early':
                r.add('send %s%s' % (adapted.token(), seg))
            elif beh == 'icap500':
                r.add('send %s seg whole' % tok(icap_head(b'500 Server Error', b''))); r.add('close')
            elif beh == 'close_mid_head':
                r.add('send %s seg whole' % tok(adapted.bytes()[:max(5, int(t['frac'] * 40))])); r.add('close')
            elif beh == 'close_mid_adapted_head':
                # the ICAP head is complete, the encapsulated HTTP header of the adapted message is cut short: no adapted byte can have been used
                ih = len(icap_head(b'200 OK', b'Encapsulated: ' + enc + b'\r\n'))
                r.add('send %s seg whole' % tok(adapted.bytes()[:ih + max(1, int(t['frac'] * (len(ahead) - 2)))])); r.add('close')
            elif beh in ('close_mid_body', 'reset_mid_body', 'stall_mid_body'):
                read_rest()
                hl = len(icap_head(b'200 OK', b'Encapsulated: ' + enc + b'\r\n')) + len(ahead)
                cut = hl + int(t['frac'] * max(len(adapted) - hl - 1, 0))
                r.add('send %s%s' % (adapted.slice(0, cut).token(), seg))
                r.add({'close_mid_body': 'close', 'reset_mid_body': 'reset', 'stall_mid_body': 'stall'}[beh])
            elif beh == 'stall':
                r.add('stall')
            if beh in ('icap500', 'close_before_head', 'close_mid_head', 'close_mid_body', 'reset_mid_body', 'stall', 'stall_mid_body'):
                pass
            cl.add('connect %s %d' % (hc.SQUID_IP, hc.SQUID_PORT))
            cl.add('readpace %d %d' % (tuple(t['slow']) if t.get('slow') and mode == 'respmod' else (0, 0)))
            cl.add('send %s' % (req.token() if isinstance(req, Payload) else tok(req)))
            cl.add('expect response timeout 60000000 soft')
            cl.add('close')
            cl.add('wait 200000')
        return scn, expect

    def judge(self, plan, expect, hist, o):
        V = o.violations
        stats = {'adapted_judged': 0, 'virgin_judged': 0, 'failures_judged': 0, 'bypass_required_judged': 0, 'errors_seen': 0, 'icap_transactions': 0}
        stats['icap_transactions'] = sum(len(sc.rules) for sc in hist.server_conns('icap'))
        mode = plan['mode']
        FAIL = ('icap500', 'close_before_head', 'close_mid_head', 'close_mid_adapted_head', 'close_mid_body', 'reset_mid_body', 'stall', 'stall_mid_body')
        EARLY_FAIL = ('icap500', 'close_before_head', 'close_mid_head', 'close_mid_adapted_head', 'stall')     # no adapted byte can have been used
        # an ICAP error *status* is an answer of the service, not a failure to get one: squid deliberately does not bypass it
        # (ModXact::handleUnknownScode: disableBypass("unknown ICAP response code")), so bypass is demanded for transport-level failures only
        BYPASSABLE = ('close_before_head', 'close_mid_head', 'close_mid_adapted_head', 'stall')
        def judge_body(rid, e, got, complete, where, errored):
            v, a = e['v'].bytes(), e['a'].bytes()
            beh = e['beh']
            if beh in FAIL:
                stats['failures_judged'] += 1
            if errored:
                stats['errors_seen'] += 1
                if plan['bypass'] and beh in BYPASSABLE and e['vsize'] <= 32768:
                    stats['bypass_required_judged'] += 1
                    V.append(Violation('C60:bypass-not-honoured:%s' % (beh + (':body' if e['vsize'] > 0 or mode == 'respmod' else ':nobody') if beh == 'close_mid_adapted_head' else beh), 'transaction %s (%s, bypass=on, virgin %d bytes): the ICAP service failed (%s) before any adapted content existed, yet %s got an error instead of the virgin message' % (rid, mode, e['vsize'], beh, where)))
                return
            if not complete:
                if not (v.startswith(got) or a.startswith(got)):
                    V.append(Violation('C60:mixed-content', 'transaction %s (%s, %s): partial body at %s is a prefix of neither the virgin nor the adapted body: %s | %s' % (rid, mode, beh, where, hc.diff_desc(got, v), hc.diff_desc(got, a))))
                return
            if got == v and got == a:
                return
            if got == a and a != v:
                stats['adapted_judged'] += 1
                if beh in ('204', '204_in_preview', '100_then_204') + EARLY_FAIL:
                    V.append(Violation('C60:adapted-content-without-adaptation', 'transaction %s (%s, %s): %s got the adapted body although the service never returned it completely' % (rid, mode, beh, where)))
            elif got == v:
                stats['virgin_judged'] += 1
                if plan['bypass'] and beh in BYPASSABLE and e['vsize'] <= 32768:
                    stats['bypass_required_judged'] += 1
                if beh in ('200', '100_then_200', '200_early', '200_chunked_nocl') and a != v:
                    V.append(Violation('C60:virgin-delivered-despite-adaptation', 'transaction %s (%s, %s): %s got the virgin body although the service returned a complete adapted message' % (rid, mode, beh, where)))
            else:
                cls = 'C60:truncated-presented-complete' if (a.startswith(got) or v.startswith(got)) else 'C60:mixed-content'
                V.append(Violation(cls, 'transaction %s (%s, %s): complete message at %s is neither the virgin (%d bytes) nor the adapted (%d bytes) body: vs virgin %s | vs adapted %s' % (rid, mode, beh, where, len(v), len(a), hc.diff_desc(got, v), hc.diff_desc(got, a))))
        if mode == 'respmod':
            for cv in hc.client_views(hist):
                ids = [x.decode() for x in cv.req_ids() if x is not None]
                for k, m in enumerate(cv.finals[:len(ids)]):
                    e = expect.get(ids[k])
                    if e:
                        judge_body(ids[k], e, m.body, m.complete, 'the client', hc.is_squid_error(m))
        else:
            seen = set()
            for sv in hc.server_views(hist, 'o1'):
                for r in sv.reqs:
                    rid = (r.get(b'x-sim-req') or b'').decode()
                    e = expect.get(rid)
                    if e and not getattr(r, 'partial_head', False):
                        seen.add(rid)
                        judge_body(rid, e, r.body, r.complete, 'the origin', False)
            for cv in hc.client_views(hist):
                ids = [x.decode() for x in cv.req_ids() if x is not None]
                for k, m in enumerate(cv.finals[:len(ids)]):
                    e = expect.get(ids[k])
                    if e and ids[k] not in seen and hc.is_squid_error(m):
                        judge_body(ids[k], e, b'', False, 'the origin', True)
        o.stats = stats
        o.nontrivial = stats['adapted_judged'] > 0 and stats['failures_judged'] > 0
        o.sample = {'mode': mode, 'bypass': plan['bypass'], 'preview': plan['preview'], 'conf': plan['conf']['lines'][3:5], 'txns': [[t['vsize'], t['asize'], t['beh']] for t in plan['txns']]}
