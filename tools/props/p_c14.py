"""C14 Conditional requests are answered according to their validators. DESIGN.md §4."""
import random, re, time, calendar
from framework import Violation
from props import register
from props import httpcommon as hc
from props import cachefam as cf
import simlib

def parse_date(s):
    try:
        return calendar.timegm(time.strptime(s, '%a, %d %b %Y %H:%M:%S GMT'))
    except ValueError:
        return None

def inm_matches(value, u, v):
    value = value.strip()
    if value == '*':
        return True
    tags = [t.strip() for t in value.split(',')]
    mine = '"e-%d-%d"' % (u, v)
    return any((t[2:] if t.startswith('W/') else t) == mine for t in tags)

def im_matches(value, u, v, weak_origin):
    value = value.strip()
    if value == '*':
        return True
    if weak_origin:
        return False
    return '"e-%d-%d"' % (u, v) in [t.strip() for t in value.split(',')]

def not_modified(step_hdrs, url, u, v):
    """reference: would a conditional GET with these headers be 'not modified' against version v?  None = no (usable) validator"""
    h = {k.lower(): val for k, val in step_hdrs}
    if 'if-none-match' in h:
        return inm_matches(h['if-none-match'], u, v) if url.get('etag', True) else False
    if 'if-modified-since' in h and url.get('lm'):
        d = parse_date(h['if-modified-since'])
        if d is None:
            return None
        return cf.LM_BASE + v * 1000 <= d
    return None

@register
class C14(hc.PProp):
    id = 'C14'
    rule = ('each run = 3-6 URLs with ETag and Last-Modified, long or short max-age, 0-3 version changes; 10-30 requests, two thirds conditional: '
            'If-None-Match (strong, weak, lists, *, current/old/unknown tags), If-Modified-Since (equal, later, earlier than Last-Modified), If-Match; '
            'the origin answers its own conditionals correctly (304 with an extra header when the validator names its current version, else 200). '
            'non-trivial = a conditional request answered 304, or answered from cache, was judged; distinct = history fingerprint')
    quick_runs = 240
    thorough_runs = 5000
    quick_wall = 50
    thorough_wall = 900
    assumptions = ['"the response that would otherwise be sent" is not observable: a 304 is accepted if ANY version of the URL that the origin had sent before the '
                   'response ended matches the validators; If-Match is judged on cache hits only (the scripted origin does not evaluate If-Match)']
    expected_probes = ['n304_judged', 'cond_hits_judged', 'post304_hits_judged']
    sim_limit_s = 3000

    def plan(self, rng, tier, index):
        plan = hc.std_plan(rng, {'cache': rng.choice(['mem', 'mem', 'rock', 'shared', 'ufs']), 'cache_mem_mb': 16, 'lines': []}, hostile=False)
        urls = []
        for u in range(rng.randint(3, 6)):
            urls.append({'sizes': [rng.choice([10, 3000, 40000])], 'lm': rng.random() < 0.8, 'etag': rng.random() < 0.85, 'weak_etag': rng.random() < 0.25,
                         'cc': rng.choice(['max-age=100000', 'max-age=100000', 'max-age=2', 'max-age=20', 'no-cache']),
                         'bumps': sorted(rng.randint(1, 120) * 1000000 for _ in range(rng.choice([0, 1, 2, 3])))})
        plan['urls'] = urls
        steps = []
        rid = index * 1000
        for k in range(rng.randint(10, 30)):
            rid += 1
            u = rng.randrange(len(urls)); url = urls[u]
            nver = len(url['bumps']) + 1
            hd = []
            r = rng.random()
            v = rng.randint(1, nver + 1)
            if r < 0.3 and url['etag']:
                form = rng.choice(['strong', 'weak', 'list', 'star', 'list2'])
                tag = '"e-%d-%d"' % (u, v)
                hd.append(('If-None-Match', {'strong': tag, 'weak': 'W/' + tag, 'list': '"zzz", ' + tag, 'star': '*', 'list2': 'W/"q", W/' + tag + ' , "r"'}[form]))
            elif r < 0.5 and url['lm']:
                hd.append(('If-Modified-Since', time.strftime('%a, %d %b %Y %H:%M:%S GMT', time.gmtime(cf.LM_BASE + v * 1000 + rng.choice([0, 0, 500, -500, 100000])))))
            elif r < 0.58 and url['etag'] and url['lm']:
                hd.append(('If-None-Match', '"e-%d-%d"' % (u, v))); hd.append(('If-Modified-Since', cf.lm_date(rng.randint(1, nver))))
            elif r < 0.68 and url['etag']:
                hd.append(('If-Match', rng.choice(['"e-%d-%d"' % (u, v), '"nomatch"', '*', '"x", "e-%d-%d"' % (u, v)])))
            steps.append({'id': rid, 'u': u, 'wait': rng.choice([0, 1000, 500000, 3000000, 15000000]), 'hdrs': hd, 'new_conn': rng.random() < 0.3})
        plan['clients'] = [{'name': 'c0', 'steps': steps}]
        plan['_lists'] = ['clients.0.steps']
        return plan

    def build(self, plan):
        scn, srv = cf.build_world(self, plan)
        return scn, None

    def judge(self, plan, expect, hist, o):
        V = o.violations
        recs, sent = cf.analyse(hist, plan)
        stats = {'n304_judged': 0, 'cond_hits_judged': 0, 'post304_hits_judged': 0, 'n412': 0}
        for r in recs:
            if r.u is None or (hc.is_squid_error(r.resp) and r.resp.status != 412):     # squid's own 412 page is an answer to judge, other error pages are not
                continue
            url = plan['urls'][r.u]; m = r.resp
            hd = {k.lower(): v for k, v in r.step['hdrs']}
            avail = sorted(set(s[3] for s in sent if s[2] == r.u and s[0] < r.seq_end))
            if m.status == 304:
                stats['n304_judged'] += 1
                if not any(k in hd for k in ('if-none-match', 'if-modified-since')):
                    V.append(Violation('C14:304-to-unconditional', 'request %s without validators got 304' % r.id)); continue
                if not any(not_modified(r.step['hdrs'], url, r.u, v) for v in avail):
                    V.append(Violation('C14:304-without-matching-validator', 'request %s (%r) for url %d got 304 but matches none of the versions %s the origin had sent (etag=%s weak=%s lm=%s)' % (r.id, r.step['hdrs'], r.u, avail, url['etag'], url.get('weak_etag'), url['lm'])))
                if m.body:
                    V.append(Violation('C14:304-with-body', 'request %s: 304 carried %d body bytes' % (r.id, len(m.body))))
                continue
            if m.status == 412:
                stats['n412'] += 1
                if 'if-match' not in hd:
                    V.append(Violation('C14:412-without-if-match', 'request %s got 412 without If-Match' % r.id))
                elif avail and all(im_matches(hd['if-match'], r.u, v, url.get('weak_etag')) for v in avail) and url['etag']:
                    V.append(Violation('C14:412-despite-match', 'request %s If-Match %r matches every version %s yet got 412' % (r.id, hd['if-match'], avail)))
                elif not r.contacts and url['etag']:
                    # a 412 produced without contacting the origin was evaluated against the cached response, i.e. the version squid fetched last
                    last = [s for s in sent if s[2] == r.u and s[0] < r.seq_send]
                    if last and im_matches(hd['if-match'], r.u, last[-1][3], url.get('weak_etag')):
                        V.append(Violation('C14:412-despite-match', 'request %s If-Match %r matches the cached version %d of url %d yet got 412 from the cache' % (r.id, hd['if-match'], last[-1][3], r.u)))
                continue
            if m.status != 200 or r.ver is None:
                continue
            hit = not r.contacts
            if hit and m.complete:
                if 'if-match' in hd and url['etag'] and 'if-none-match' not in hd:
                    stats['cond_hits_judged'] += 1
                    if not im_matches(hd['if-match'], r.u, r.ver, url.get('weak_etag')):
                        V.append(Violation('C14:if-match-ignored', 'request %s If-Match %r does not match cached version %d of url %d (etag weak=%s) but got 200 from cache' % (r.id, hd['if-match'], r.ver, r.u, url.get('weak_etag'))))
                nm = not_modified(r.step['hdrs'], url, r.u, r.ver)
                if nm is not None and 'if-match' not in hd:
                    stats['cond_hits_judged'] += 1
                # after a 304 revalidation of this version, hits carry the 304's updated header and the unchanged body
                prior = [s for s in sent if s[2] == r.u and s[0] < r.seq_send]
                if prior and prior[-1][4] in ('inm', 'ims') and prior[-1][3] == r.ver:
                    stats['post304_hits_judged'] += 1
                    if m.body != cf.version_body(plan, r.u, r.ver):
                        V.append(Violation('C14:body-changed-after-304', 'request %s: body of version %d differs after a 304 revalidation: %s' % (r.id, r.ver, hc.diff_desc(m.body, cf.version_body(plan, r.u, r.ver)))))
                    if m.get(b'x-sim-upd') != b'r%d' % r.ver:
                        V.append(Violation('C14:headers-not-updated-after-304', 'request %s: hit on version %d of url %d after the origin revalidated it with 304 lacks the 304\'s X-Sim-Upd header (got %r); cache=%s' % (r.id, r.ver, r.u, m.get(b'x-sim-upd'), plan['conf']['cache'])))
        o.stats = stats
        o.nontrivial = stats['n304_judged'] + stats['cond_hits_judged'] > 0
        o.sample = {'cache': plan['conf']['cache'], 'urls': [[u['cc'], u['etag'], u.get('weak_etag'), u['lm'], u['bumps']] for u in plan['urls']], 'first_steps': [[s['u'], s['hdrs']] for s in plan['clients'][0]['steps'][:5]]}
