"""C09 Adversarial HTTP peers cannot cause memory errors or crashes (ASan build). DESIGN.md §4."""
import random, re
import simlib
from simlib import Payload, G, tok
from framework import Violation
from props import register
from props import httpcommon as hc

NASTY = [b'\x00', b'\r', b'\n', b'\r\n', b'\r\n\r\n', b' ', b'\t', b':', b';', b',', b'"', b'\\', b'%', b'%00', b'%zz', b'\xff', b'\x80', b'\x7f', b'(', b')',
         b'0x', b'-1', b'+1', b'99999999999999999999', b'18446744073709551616', b'9223372036854775807', b'4294967296', b'2147483648', b'chunked', b'HTTP/1.1',
         b'HTTP/9.9', b'HTTP/1.', b'HTTP/', b'ICY 200 OK', b'Content-Length: ', b'Transfer-Encoding: chunked\r\n', b'Host: ', b'@', b'//', b'[::1]', b'[', b']:', b'#', b'?']

def mutate(data, rng, rounds):
    b = bytearray(data)
    for _ in range(rounds):
        op = rng.random()
        n = len(b)
        if n == 0:
            b += rng.choice(NASTY); continue
        i = rng.randrange(n)
        if op < 0.2:
            b[i] = rng.getrandbits(8)
        elif op < 0.45:
            b[i:i] = rng.choice(NASTY)
        elif op < 0.55:
            j = min(n, i + rng.randint(1, 20)); del b[i:j]
        elif op < 0.65:
            j = min(n, i + rng.randint(1, 40)); b[i:i] = b[i:j] * rng.randint(1, 3)
        elif op < 0.72:
            b[i:i] = bytes([rng.choice(b'aA0 \t:')]) * rng.choice([100, 1000, 5000, 70000])
        elif op < 0.8:
            # corrupt a digit run (lengths, chunk sizes, status codes, versions)
            m = list(re.finditer(rb'[0-9a-fA-F]+', bytes(b)))
            if m:
                x = rng.choice(m); b[x.start():x.end()] = rng.choice([b'0', b'-1', b'ffffffffffffffff', b'7fffffffffffffff', b'99999999999', b'1e9', b'00000000000000000001', b''])
        elif op < 0.9:
            del b[i:]          # premature end
        else:
            b[i:i] = bytes(rng.getrandbits(8) for _ in range(rng.randint(1, 64)))
    return bytes(b)

def base_request(rng, rid):
    url = rng.choice([b'http://10.0.0.1/h%d', b'http://10.0.0.1:80/h%d?q=1&r=%%41', b'/h%d', b'http://user:pw@10.0.0.1/h%d', b'http://[::ffff:10.0.0.1]/h%d', b'HTTP://10.0.0.1/h%d#frag']) % rid
    m = rng.choice([b'GET', b'GET', b'POST', b'PUT', b'HEAD', b'OPTIONS', b'TRACE', b'CONNECT', b'PROPFIND', b'PURGE'])
    if m == b'CONNECT':
        url = b'10.0.0.1:%d' % rng.choice([443, 80, 0, 65536])
    hd = [(b'Host', b'10.0.0.1'), (b'X-Sim-Req', b'%d' % rid)]
    for k, v in rng.sample([(b'Accept', b'*/*'), (b'Range', b'bytes=0-10,20-30,-5'), (b'If-None-Match', b'"a", W/"b"'), (b'If-Modified-Since', b'Tue, 14 Nov 2023 22:13:20 GMT'),
                            (b'Cache-Control', b'max-age=0, no-cache="x", max-stale'), (b'Authorization', b'Basic dXNlcjpwYXNz'), (b'Proxy-Authorization', b'Basic dTpw'),
                            (b'Connection', b'keep-alive, X-Foo'), (b'Expect', b'100-continue'), (b'Cookie', b'a=b; c=d'), (b'Via', b'1.1 x (c), 1.0 y'), (b'X-Forwarded-For', b'1.2.3.4, unknown'),
                            (b'Max-Forwards', b'3'), (b'Pragma', b'no-cache'), (b'Accept-Encoding', b'gzip;q=1.0, identity; q=0.5, *;q=0'), (b'Upgrade', b'websocket'), (b'TE', b'trailers')], rng.randint(0, 6)):
        hd.append((k, v))
    body = b''
    if m in (b'POST', b'PUT', b'PROPFIND'):
        if rng.random() < 0.5:
            body = b'b' * rng.randint(0, 200); hd.append((b'Content-Length', b'%d' % len(body)))
        else:
            hd.append((b'Transfer-Encoding', b'chunked')); body = b'5;ext=1\r\nhello\r\n1a\r\n' + b'x' * 26 + b'\r\n0\r\nTr: 1\r\n\r\n'
    return hc.request_head(m, url, hd, rng.choice([b'HTTP/1.1', b'HTTP/1.1', b'HTTP/1.0'])) + body

def base_response(rng, rid):
    st = rng.choice([200, 200, 206, 301, 304, 404, 100, 101, 204, 500, 407, 401])
    hd = [(b'X-Sim-Ver', b'h%d' % rid)]
    for k, v in rng.sample([(b'Date', b'Tue, 14 Nov 2023 22:13:20 GMT'), (b'Expires', b'Tue, 14 Nov 2033 22:13:20 GMT'), (b'Last-Modified', b'Tue, 14 Nov 2013 22:13:20 GMT'), (b'ETag', b'W/"e1"'),
                            (b'Cache-Control', b'max-age=100, s-maxage=5, private="x", no-cache="Set-Cookie"'), (b'Vary', b'Accept-Encoding, User-Agent'), (b'Content-Range', b'bytes 0-9/100'),
                            (b'Content-Type', b'multipart/byteranges; boundary=zz'), (b'Connection', b'close, X-Bar'), (b'Keep-Alive', b'timeout=5'), (b'Location', b'http://10.0.0.1/other'),
                            (b'Age', b'10'), (b'Warning', b'110 - "stale"'), (b'Set-Cookie', b'a=b'), (b'WWW-Authenticate', b'Basic realm="r"'), (b'Proxy-Authenticate', b'Basic realm="p"'),
                            (b'Content-Encoding', b'gzip'), (b'Surrogate-Control', b'max-age=10'), (b'Upgrade', b'websocket')], rng.randint(0, 7)):
        hd.append((k, v))
    body = b'r' * rng.choice([0, 1, 10, 1000])
    f = rng.random()
    if f < 0.4:
        hd.append((b'Content-Length', b'%d' % len(body)))
    elif f < 0.8:
        hd.append((b'Transfer-Encoding', b'chunked')); body = b'%x\r\n' % len(body) + body + b'\r\n0\r\n\r\n' if body else b'0\r\n\r\n'
    return hc.response_head(st, hd, rng.choice([b'HTTP/1.1', b'HTTP/1.1', b'HTTP/1.0'])) + body

@register
class C09(hc.PProp):
    id = 'C09'
    variant = 'asan'
    rule = ('each run (AddressSanitizer build) = 8-24 hostile connections: grammar-aware mutations (byte flips, nasty-token insertion, deletions, '
            'duplication, long runs, numeric corruption, truncation, random bytes; 1-8 rounds) of valid request streams sent by clients and of valid '
            'response streams sent by origins, under seeded segmentation, plus 2-4 well-behaved bystander transactions and a final probe request '
            'after all hostile peers are gone. non-trivial = at least one mutated request and one mutated response were delivered; distinct = '
            'history fingerprint')
    quick_runs = 150
    thorough_runs = 4000
    quick_wall = 55
    thorough_wall = 1500
    assumptions = ['memory errors are those AddressSanitizer detects in this build (-O1); allocation failure is not injected (xmalloc aborts by design)']
    expected_probes = ['hostile_requests', 'hostile_responses', 'bystanders_ok', 'probes_ok']
    sim_limit_s = 600

    def plan(self, rng, tier, index):
        reqlim = rng.choice([8, 64])
        plan = hc.std_plan(rng, {'cache': rng.choice(['none', 'mem', 'mem', 'rock', 'ufs']), 'lines': ['request_timeout 5 seconds', 'read_timeout 8 seconds', 'client_lifetime 20 seconds',
                                 'connect_timeout 3 seconds', 'relaxed_header_parser %s' % rng.choice(['on', 'on', 'off']), 'pipeline_prefetch %d' % rng.choice([0, 1, 3]),
                                 'request_header_max_size %d KB' % reqlim, 'reply_header_max_size %d KB' % rng.choice([8, 64])]})
        plan['reqlim_kb'] = reqlim
        n = rng.randint(8, 24)
        plan['victims'] = [{'id': index * 100 + k, 'side': rng.choice(['req', 'req', 'resp', 'req', 'resp', 'reqlimit']), 'rounds': rng.randint(1, 8), 'seed': rng.getrandbits(32),
                            'seg': rng.choice(['rand', 'whole', 'byte']), 'n': rng.randint(1, 3), 'after': rng.choice(['close', 'wait', 'reset'])} for k in range(n)]
        plan['bystanders'] = [{'id': index * 100 + 50 + k, 'size': hc.pick_size(rng, big_ok=False, max_size=30000), 'start': rng.choice([0, 1000, 100000])} for k in range(rng.randint(2, 4))]
        plan['probe_id'] = index * 100 + 99
        plan['_lists'] = ['victims', 'bystanders']
        return plan

    def build(self, plan):
        scn = self.new_scn(plan)
        scn.knob('peer.expect_timeout_us', 60000000)
        scn.drain_us = 3000000
        srv = scn.server('o1', '10.0.0.1', 80)
        names = []
        for v in plan['victims']:
            rng = random.Random(v['seed'])
            name = 'v%d' % v['id']; names.append(name)
            cl = scn.client(name, start=rng.choice([0, 0, 500, 20000]))
            cl.add('connect %s %d' % (hc.SQUID_IP, hc.SQUID_PORT))
            if v['side'] == 'reqlimit':
                # a complete, well-formed request head whose size is at / just around request_header_max_size, delivered so that the segment which
                # crosses the limit is also the one that carries the terminating empty line (possibly followed by nothing at all)
                limit = plan.get('reqlim_kb', 64) * 1024
                total = limit + rng.choice([-600, -2, -1, 0, 1, 2, 300, 600, 5000])
                line = b'GET http://10.0.0.1/h%d HTTP/1.1\r\nHost: 10.0.0.1\r\nX-Sim-Req: %d\r\n' % (v['id'], v['id'])
                pad = b''
                while len(line) + len(pad) + 2 < total - 30:
                    n = min(rng.choice([60, 200, 900]), total - 30 - len(line) - len(pad) - 2)
                    pad += b'X-P%d: ' % (len(pad) % 997) + b'p' * max(1, n - 12) + b'\r\n'
                head = line + pad
                head += b'X-End: ' + b'e' * max(1, total - len(head) - 11) + b'\r\n\r\n'
                cut = len(head) - rng.choice([4, 5, 100, 600, 1500])
                cl.add('send %s seg whole' % tok(head[:cut])); cl.add('wait %d' % rng.choice([1000, 50000, 300000])); cl.add('send %s seg whole' % tok(head[cut:]))
            elif v['side'] == 'req':
                stream = b''.join(base_request(rng, v['id']) for _ in range(v['n']))
                stream = mutate(stream, rng, v['rounds'])
                if len(stream) > 3000:
                    v['seg'] = 'rand' if v['seg'] == 'byte' else v['seg']
                cl.add('send %s seg %s' % (tok(stream), v['seg']))
                # whatever of it reaches the origin gets a plain answer
            else:
                req = hc.request_head(b'GET', b'http://10.0.0.1/h%d' % v['id'], [(b'Host', b'10.0.0.1'), (b'X-Sim-Req', b'%d' % v['id'])])
                cl.add('send %s seg whole' % tok(req))
                resp = b''.join(base_response(rng, v['id']) for _ in range(v['n']))
                resp = mutate(resp, rng, v['rounds'])
                if len(resp) > 3000 and v['seg'] == 'byte':
                    v['seg'] = 'rand'
                r = srv.sub('rule hv%d has %s' % (v['id'], tok(b'/h%d ' % v['id'])))
                r.add('send %s seg %s' % (tok(resp), v['seg']))
                r.add({'close': 'close', 'wait': 'wait 2000000', 'reset': 'reset'}[v['after']])
                if v['after'] == 'wait':
                    r.add('close')
            cl.add('expect eof timeout 40000000 soft')
        r = srv.sub('rule hany has %s' % tok(b'/h'))
        r.add('expect body timeout 3000000 soft')
        r.add('send %s' % tok(hc.response_head(200, [(b'Content-Length', b'2')]) + b'ok'))
        good = scn.server('o2', '10.0.0.2', 80)   # bystanders talk to a well-behaved origin: a hostile origin may legitimately poison its own connections
        for b in plan['bystanders'] + [{'id': plan['probe_id'], 'size': 1234, 'start': 0, 'probe': True}]:
            key = hc.obj_key(b['id'])
            r = good.sub('rule by%d has %s' % (b['id'], tok(b' /by%d ' % b['id'])))
            r.add('send %s' % Payload(hc.response_head(200, [(b'Content-Length', b'%d' % b['size']), (b'X-Sim-Ver', key.encode())]), G(key, 0, b['size'])).token())
            cl = scn.client('b%d' % b['id'], start=b['start'])
            if b.get('probe'):
                for n in names:
                    cl.add('await done:%s' % n)
            cl.add('connect %s %d' % (hc.SQUID_IP, hc.SQUID_PORT))
            cl.add('send %s' % tok(hc.request_head(b'GET', b'http://10.0.0.2/by%d' % b['id'], [(b'Host', b'10.0.0.2'), (b'X-Sim-Req', b'%d' % b['id'])])))
            cl.add('expect response timeout 30000000')
        srv.sub('rule junk').add('close')
        return scn, None

    def execute(self, plan, workdir):
        scn, expect = self.build(plan)
        hist = simlib.run_squid(scn, workdir)
        o = hc.base_outcome(hist, allow_norule=True)
        if o.infra:
            # a squid that died before becoming ready is only an infrastructure problem if no peer ever ran
            if hist.health_problems() and hist.life_has('first_idle'):
                o.infra = None
            else:
                return o
        self.judge(plan, expect, hist, o)
        if o.violations:
            rep = hist.asan_report()
            if rep:
                o.violations[0].detail += ' | ' + rep[:1500].replace('\n', ' / ')
        return o

    def judge(self, plan, expect, hist, o):
        V = o.violations
        stats = {'hostile_requests': 0, 'hostile_responses': 0, 'bystanders_ok': 0, 'probes_ok': 0, 'hostile_conns_closed_or_answered': 0}
        for p in hist.health_problems():
            cls = 'C09:' + re.sub(r'[^a-zA-Z0-9:._-]+', '-', p)[:80]
            V.append(Violation(cls, p))
        stats['hostile_requests'] = sum(1 for v in plan['victims'] if v['side'] == 'req')
        stats['hostile_responses'] = sum(1 for v in plan['victims'] if v['side'] == 'resp')
        ids = {str(b['id']): b for b in plan['bystanders']}
        ids[str(plan['probe_id'])] = {'id': plan['probe_id'], 'size': 1234, 'probe': True}
        done = set()
        for cv in hc.client_views(hist):
            rid = (cv.req_ids() or [None])[0]
            if cv.conn.peer.startswith('v'):
                answered = len(cv.recv_raw) > 0
                closed = cv.squid_fin or cv.squid_rst or cv.client_gave_up
                if answered or closed:
                    stats['hostile_conns_closed_or_answered'] += 1
                elif not hist.health_problems():
                    V.append(Violation('C09:hostile-connection-ignored', 'connection of %s got neither a response byte nor a close within 40 s (client_lifetime 20 s); sent %r' % (cv.conn.peer, cv.sent_raw[:120])))
                continue
            b = ids.get(rid.decode()) if rid else None
            if not b:
                continue
            exp = simlib.gen_bytes(hc.obj_key(b['id']), 0, b['size'])
            ok = cv.finals and cv.finals[0].complete and cv.finals[0].status == 200 and cv.finals[0].body == exp
            done.add(str(b['id']))
            if ok:
                stats['probes_ok' if b.get('probe') else 'bystanders_ok'] += 1
            elif not hist.health_problems():
                V.append(Violation('C09:%s-not-served' % ('probe' if b.get('probe') else 'bystander'), 'well-behaved request %s was not served correctly while hostile peers were active: %s' % (b['id'], (cv.finals[0].start if cv.finals else cv.recv_raw[:80]))))
        if str(plan['probe_id']) not in done and not hist.health_problems():
            V.append(Violation('C09:probe-not-served', 'the final probe request was never answered'))
        o.stats = stats
        o.nontrivial = stats['hostile_requests'] > 0 and stats['hostile_responses'] > 0
        o.sample = {'conf': plan['conf'], 'victims': [[v['side'], v['rounds'], v['seg'], v['n']] for v in plan['victims'][:6]]}
