"""C06 CONNECT tunnels relay both directions unchanged. DESIGN.md §4."""
import random
import simlib
from simlib import Payload, G, tok
from framework import Violation
from props import register
from props import httpcommon as hc

def rand_bytes(rng, n):
    # binary, with HTTP look-alikes sprinkled in
    if n <= 0:
        return b''
    b = bytearray(rng.getrandbits(8) for _ in range(min(n, 4096)))
    while len(b) < n:
        b += b[:min(len(b), n - len(b))]
    for frag in (b'\r\n\r\n', b'HTTP/1.1 200 OK\r\n', b'0\r\n\r\n', b'GET / HTTP/1.1\r\n'):
        if n > 64 and rng.random() < 0.5:
            i = rng.randrange(0, n - len(frag))
            b[i:i + len(frag)] = frag
    return bytes(b[:n])

def side_payload(rng, key, total):
    """binary prefix (<= 4 KB literal) + generated remainder"""
    lit = rand_bytes(rng, min(total, rng.choice([0, 17, 600, 4096])))
    return Payload(lit, G(key, 0, total - len(lit)))

@register
class C06(hc.PProp):
    id = 'C06'
    rule = ('each run = 1-4 concurrent CONNECT tunnels; per direction 0..1 MB of binary data (with HTTP look-alike fragments) in 1-4 bursts, '
            'seeded segmentation/pacing/windows and read pacing on both sides, optional early client bytes in the CONNECT segment; close order '
            '(client FIN first, server FIN first, abrupt close, RST) drawn per tunnel. non-trivial = a tunnel carried >0 bytes in both directions '
            'and was judged; distinct = history fingerprint')
    quick_runs = 300
    thorough_runs = 8000
    quick_wall = 50
    thorough_wall = 1200
    assumptions = ['TCP semantics inside a stream; scripted peers', 'squid does not support half-closed tunnels: only the side that closes first is promised full delivery']
    expected_probes = ['tunnels_judged', 'first_closer_full_delivery_checked']

    def plan(self, rng, tier, index):
        plan = hc.std_plan(rng, {'cache': 'none', 'lines': ['read_timeout 30 seconds']})
        tunnels = []
        for i in range(rng.randint(1, 4)):
            def side():
                total = hc.pick_size(rng, big_ok=tier == 'thorough' or rng.random() < 0.2, max_size=1000000)
                nb = rng.randint(1, 4)
                t = {'total': total, 'bursts': nb, 'seg': rng.choice(['rand', 'rand', 'whole', 'byte']), 'pace': rng.choice([0, 0, 200, 2000]),
                     'gap': rng.choice([0, 100, 5000]), 'readpace': rng.choice([None, None, [1000, 500], [200, 300]]),
                     'window': rng.choice([2048, 16384, 65536, 262144]), 'size': total}
                hc.bound_transfer(t, plan['knobs'])
                t['total'] = t['size']
                return t
            tn = {'id': index * 10 + i, 'c': side(), 's': side(), 'early': rng.random() < 0.3,
                  'end': rng.choice(['client_fin', 'client_fin', 'server_fin', 'server_fin', 'client_close', 'server_close', 'client_rst', 'server_rst', 'both_fin', 'late_client_data']),
                  'http10': rng.random() < 0.2, 'start': rng.choice([0, 0, 3000])}
            if rng.random() < 0.2:
                tn['cl_hdr'] = rng.choice([1, 8, 1000, 100000])
            if tn['end'] == 'late_client_data':
                # a non-reading client, a server that sends more than squid can buffer and closes, then client data towards the closed server
                tn['s']['total'] = rng.choice([150000, 400000, 1000000]); tn['s']['seg'] = 'rand'; tn['s']['pace'] = 0; tn['s']['gap'] = 0; tn['s']['bursts'] = 1; tn['s']['window'] = 2000000
                tn['c']['window'] = rng.choice([2048, 8192, 16384]); tn['c']['total'] = 128; tn['c']['bursts'] = rng.choice([2, 3, 4]); tn['c']['readpace'] = None; tn['early'] = False
            tunnels.append(tn)
        plan['tunnels'] = tunnels
        plan['_lists'] = ['tunnels']
        return plan

    def build(self, plan):
        scn = self.new_scn(plan)
        scn.knob('peer.expect_timeout_us', 100000000)
        expect = {}
        for n, tn in enumerate(plan['tunnels']):
            rng = random.Random(tn['id'])
            port = 4430 + n
            cdata = side_payload(rng, 'c%07d' % tn['id'], tn['c']['total'])
            sdata = side_payload(rng, 's%07d' % tn['id'], tn['s']['total'])
            expect[str(port)] = {'c': cdata, 's': sdata, 'end': tn['end']}
            def bursts(pl, side):
                total = len(pl); nb = side['bursts']
                cuts = sorted(rng.randint(0, total) for _ in range(nb - 1)) if total else []
                edges = [0] + cuts + [total]
                out = []
                for a, b in zip(edges, edges[1:]):
                    if b > a:
                        out.append(pl.slice(a, b))
                return out
            segc = ' seg %s' % tn['c']['seg'] + (' pace 0 %d' % tn['c']['pace'] if tn['c']['pace'] else '')
            segs = ' seg %s' % tn['s']['seg'] + (' pace 0 %d' % tn['s']['pace'] if tn['s']['pace'] else '')
            # ---- server
            srv = scn.server('tun%d' % n, '10.0.0.2', port, window=tn['s']['window'])
            a = srv.sub('onaccept *')
            if tn['s']['readpace']:
                a.add('readpace %d %d' % tuple(tn['s']['readpace']))
            for b in bursts(sdata, tn['s']):
                a.add('send %s%s' % (b.token(), segs))
                if tn['s']['gap']:
                    a.add('wait %d' % tn['s']['gap'])
            e = tn['end']
            if e == 'late_client_data':
                a.add('close')
            elif e in ('server_fin', 'both_fin'):
                a.add('shutdown'); a.add('expect eof timeout 90000000')
            elif e == 'server_close':
                a.add('close')
            elif e == 'server_rst':
                a.add('reset')
            else:
                a.add('expect eof timeout 90000000')
            # ---- client
            cl = scn.client('c%d' % n, start=tn['start'], window=tn['c']['window'])
            cl.add('connect %s %d' % (hc.SQUID_IP, hc.SQUID_PORT))
            if tn['c']['readpace']:
                cl.add('readpace %d %d' % tuple(tn['c']['readpace']))
            ver = b'HTTP/1.0' if tn['http10'] else b'HTTP/1.1'
            # some CONNECT requests carry a (meaningless) Content-Length: squid must not take early tunnel bytes for a request body
            extra = b'Content-Length: %d\r\n' % tn['cl_hdr'] if tn.get('cl_hdr') else b''
            head = b'CONNECT 10.0.0.2:%d %s\r\nHost: 10.0.0.2:%d\r\nX-Sim-Req: %d\r\n' % (port, ver, port, tn['id']) + extra + b'\r\n'
            bs = bursts(cdata, tn['c'])
            if tn['early'] and bs:
                cl.add('send %s seg whole' % Payload(head, bs[0]).token()); bs = bs[1:]
            else:
                cl.add('send %s seg whole' % tok(head))
            cl.add('expect head timeout 60000000')
            if e == 'late_client_data':
                cl.add('readstop'); cl.add('wait %d' % rng.choice([300000, 1000000, 3000000]))
                for b in bs:
                    cl.add('send %s seg whole' % b.token()); cl.add('wait %d' % rng.choice([20000, 200000]))
                cl.add('readresume'); cl.add('expect eof timeout 90000000')
                continue
            for b in bs:
                cl.add('send %s%s' % (b.token(), segc))
                if tn['c']['gap']:
                    cl.add('wait %d' % tn['c']['gap'])
            if e in ('client_fin', 'both_fin'):
                cl.add('shutdown'); cl.add('expect eof timeout 90000000')
            elif e == 'client_close':
                cl.add('close')
            elif e == 'client_rst':
                cl.add('reset')
            else:
                cl.add('expect eof timeout 90000000')
        return scn, expect

    def judge(self, plan, expect, hist, o):
        V = o.violations
        stats = {'tunnels_judged': 0, 'first_closer_full_delivery_checked': 0, 'bytes_compared': 0}
        nontrivial = 0
        servers = {}
        for sc in hist.server_conns():
            port = sc.peeraddr.rsplit(':', 1)[-1]
            servers.setdefault(port, []).append(sc)
        for cv in hc.client_views(hist):
            if not cv.reqs or cv.reqs[0].method != b'CONNECT':
                continue
            port = cv.reqs[0].target.rsplit(b':', 1)[-1].decode()
            e = expect.get(port)
            if e is None:
                continue
            cbytes, sbytes = e['c'].bytes(), e['s'].bytes()
            head_len = cv.reqs[0].head_len
            client_sent = cv.sent_raw[head_len:]           # what the client really put on the wire after the CONNECT head
            if not cbytes.startswith(client_sent):
                o.infra = 'client script sent unexpected bytes'; return
            # --- what the client received: squid's 200 head then server bytes only
            recv = cv.recv_raw
            hend = recv.find(b'\r\n\r\n')
            if hend < 0:
                if recv and not recv.startswith(b'HTTP/1.'):
                    V.append(Violation('C06:garbage-before-200', 'client of tunnel %s got %r' % (port, recv[:60])))
                continue
            status = recv[9:12]
            got_from_server = recv[hend + 4:]
            scs = [s for s in servers.get(port, []) if s.established]
            if status != b'200':
                continue
            stats['tunnels_judged'] += 1
            if not scs:
                V.append(Violation('C06:200-without-server', 'tunnel %s answered 200 but no server connection was established' % port)); continue
            sc = scs[0]
            server_sent = hist.to_squid(sc)
            server_got = hist.peer_received(sc)
            stats['bytes_compared'] += len(got_from_server) + len(server_got)
            if not server_sent.startswith(got_from_server):
                V.append(Violation('C06:server-to-client-altered', 'tunnel %s: client received bytes that are not a prefix of what the server sent: %s' % (port, hc.diff_desc(got_from_server, server_sent))))
            if not client_sent.startswith(server_got):
                V.append(Violation('C06:client-to-server-altered', 'tunnel %s: server received bytes that are not a prefix of what the client sent: %s' % (port, hc.diff_desc(server_got, client_sent))))
            if got_from_server and server_got:
                nontrivial += 1
            # --- a side that ends with an orderly FIN after sending N bytes is promised that the other side receives all N bytes before it is closed,
            #     provided the other side was still fully open (had sent neither FIN nor RST nor closed) when it got its EOF; squid does not support
            #     half-closed tunnels, so a side that itself closed first is promised nothing about the bytes still coming its way
            def ev(c, kinds):
                for x in c.events:
                    if x[2] in kinds:
                        return x
                return None
            c_end = ev(cv.conn, ('PFIN', 'PCLOSE', 'PRSTSND')); s_end = ev(sc, ('PFIN', 'PCLOSE', 'PRSTSND'))
            c_got_end = ev(cv.conn, ('PEOF', 'PRST')); s_got_end = ev(sc, ('PEOF', 'PRST'))
            server_orderly = s_end is not None and s_end[2] in ('PFIN', 'PCLOSE') and not ev(sc, ('PRSTSND',))
            client_orderly = c_end is not None and c_end[2] in ('PFIN', 'PCLOSE') and not ev(cv.conn, ('PRSTSND',))
            if server_orderly and c_got_end is not None and (c_end is None or c_end[0] > c_got_end[0]) and not cv.client_gave_up:
                stats['first_closer_full_delivery_checked'] += 1
                server_arrived = hist.arrived_at_squid(sc)   # an RST provoked by client data reaching the closed server discards what was still in flight: TCP's loss, not squid's
                if got_from_server != server_arrived:
                    # bytes squid had already read from the server and then dropped are one thing; bytes it never read because it tore the tunnel
                    # down after a failed write towards the (closed) server are another (see known_findings.json)
                    cls = 'C06:closer-bytes-lost:read-by-squid' if len(got_from_server) < sc.sqrd_app else 'C06:closer-bytes-lost:never-read'
                    V.append(Violation(cls, 'tunnel %s: the server closed after sending %d bytes that reached the socket of squid and the client stayed open until its EOF, but it received only %d of them; squid had read %d bytes from the server before any failed write to it (end mode %s)' % (port, len(server_arrived), len(got_from_server), sc.sqrd_app, e['end'])))
            if client_orderly and s_got_end is not None and (s_end is None or s_end[0] > s_got_end[0]):
                stats['first_closer_full_delivery_checked'] += 1
                client_arrived = client_sent[:len(client_sent) - cv.conn.p2s_dropped] if cv.conn.p2s_dropped else client_sent
                if server_got != client_arrived:
                    cls = 'C06:closer-bytes-lost:read-by-squid' if len(server_got) < cv.conn.sqrd_app - head_len else 'C06:closer-bytes-lost:never-read'
                    V.append(Violation(cls, 'tunnel %s: the client closed after sending %d bytes that reached the socket of squid and the server stayed open until its EOF, but it received only %d of them; squid had read %d tunnel bytes from the client (end mode %s)' % (port, len(client_arrived), len(server_got), cv.conn.sqrd - head_len, e['end'])))
        o.stats = stats
        o.nontrivial = nontrivial > 0
        o.sample = {'knobs': plan['knobs'], 'tunnels': [[t['c']['total'], t['s']['total'], t['end'], t['early']] for t in plan['tunnels']]}
