"""C20 Successful unsafe requests invalidate cached responses. DESIGN.md §4."""
import random, re
from simlib import tok
from framework import Violation
from props import register
from props import httpcommon as hc
from props import cachefam as cf

@register
class C20(hc.PProp):
    id = 'C20'
    rule = ('each run = 4-8 cacheable URLs (max-age large) warmed by GETs, then POST/PUT/DELETE/PATCH requests on some of them whose origin responses have a '
            'random status (2xx/3xx/4xx/5xx) and optionally Location / Content-Location naming another cached URL (relative, absolute same-host, other '
            'host), followed by GETs of the target and of the named URLs. non-trivial = a GET issued after a successful unsafe request on a cached '
            'URL (or on a same-host URL it named) was judged; distinct = history fingerprint')
    quick_runs = 240
    thorough_runs = 5000
    quick_wall = 50
    thorough_wall = 900
    assumptions = ['a GET answered from cache is judged by when the version it carries was fetched: fetched before the unsafe request was sent and served '
                   'after that request completed = violation; URLs named on another host are not judged']
    expected_probes = ['post_unsafe_gets_judged', 'named_url_gets_judged', 'control_hits']
    sim_limit_s = 3000

    def plan(self, rng, tier, index):
        plan = hc.std_plan(rng, {'cache': rng.choice(['mem', 'mem', 'rock', 'ufs', 'shared']), 'cache_mem_mb': 16, 'lines': []}, hostile=False)
        n = rng.randint(4, 8)
        plan['urls'] = [{'sizes': [rng.choice([10, 3000, 40000])], 'lm': True, 'cc': 'max-age=100000', 'bump_on_serve': True, 'nver': 30} for u in range(n)]
        steps = []
        rid = index * 1000
        def add(st):
            nonlocal rid
            rid += 1; st['id'] = rid; st.setdefault('hdrs', []); st.setdefault('wait', rng.choice([0, 1000, 200000])); steps.append(st)
        for u in range(n):
            add({'u': u})                       # warm
        unsafe = []
        for k in range(rng.randint(2, 6)):
            u = rng.randrange(n)
            named = rng.choice([None, None, 'loc', 'cloc', 'both'])
            w = rng.randrange(n)
            form = rng.choice(['rel', 'abs', 'other', 'relseg', 'reldot'])
            st = {'u': u, 'method': rng.choice(['POST', 'PUT', 'DELETE', 'PATCH']), 'status': rng.choice([200, 201, 204, 303, 302, 400, 404, 500, 503]),
                  'named': named, 'w': w, 'form': form}
            if st['method'] != 'DELETE':
                st['body'] = 'x' * rng.choice([0, 5, 2000])
            add(st)
            unsafe.append(st)
            for _ in range(rng.randint(1, 3)):
                add({'u': rng.choice([u, u, w, rng.randrange(n)]), 'wait': rng.choice([0, 1000, 2000000])})
        plan['clients'] = [{'name': 'c0', 'steps': steps}]
        plan['_lists'] = ['clients.0.steps']
        return plan

    def build(self, plan):
        scn, srv = cf.build_world(self, plan)
        front = []
        for st in plan['clients'][0]['steps']:
            if 'status' not in st:
                continue
            hs = [(b'Content-Length', b'0' if st['status'] == 204 else b'4'), (b'X-Sim-Unsafe', b'%d' % st['id'])]
            target = {'rel': b'/c%d' % st['w'], 'abs': b'http://10.0.0.1/c%d' % st['w'], 'other': b'http://10.0.0.9/c%d' % st['w'],
                      'relseg': b'c%d' % st['w'], 'reldot': b'./c%d' % st['w']}[st['form']]   # relative references without a leading slash resolve against /c<u> to /c<w> (RFC 3986 5.2)
            if st['named'] in ('loc', 'both'):
                hs.append((b'Location', target))
            if st['named'] in ('cloc', 'both'):
                hs.append((b'Content-Location', target))
            from simlib import Block
            r = Block('rule unsafe%d has %s' % (st['id'], tok(b'X-Sim-Req: %d\r\n' % st['id'])))
            r.add('expect body')
            r.add('send %s' % tok(hc.response_head(st['status'], hs) + (b'' if st['status'] == 204 else b'done')))
            front.append(r)
        srv.lines[0:0] = front
        return scn, None

    def judge(self, plan, expect, hist, o):
        V = o.violations
        recs, sent = cf.analyse(hist, plan)
        stats = {'post_unsafe_gets_judged': 0, 'named_url_gets_judged': 0, 'control_hits': 0, 'unsafe_success': 0}
        recs.sort(key=lambda r: r.seq_send)
        # invalidation events: (seq_send of unsafe request, seq_end of its response, url, why)
        inval = []
        for r in recs:
            st = r.step
            if st and 'status' in st and r.resp.get(b'x-sim-unsafe') is not None and 200 <= r.resp.status < 400:
                stats['unsafe_success'] += 1
                inval.append((r.seq_send, r.seq_end, st['u'], 'target of %s request %s (status %d)' % (st['method'], r.id, r.resp.status), False))
                if st['named'] and st['form'] in ('rel', 'abs', 'relseg', 'reldot'):
                    inval.append((r.seq_send, r.seq_end, st['w'], '%s of %s request %s (status %d)' % ({'loc': 'Location', 'cloc': 'Content-Location', 'both': 'Location/Content-Location'}[st['named']], st['method'], r.id, r.resp.status), st['form']))
        for r in recs:
            if r.step is None or 'status' in r.step or r.resp.status != 200 or r.ver is None:
                continue
            if r.contacts:
                continue
            fetched = [s for s in sent if s[2] == r.u and s[3] == r.ver and s[4] == 'full']
            if not fetched:
                continue
            f_seq = fetched[0][0]
            hit_judged = False
            for (s_send, s_end, u, why, named) in inval:
                if u == r.u and s_end < r.seq_send:
                    hit_judged = True
                    stats['named_url_gets_judged' if named else 'post_unsafe_gets_judged'] += 1
                    if f_seq < s_send:
                        V.append(Violation('C20:stale-after-unsafe:%s' % ('named' + ('' if named in ('rel', 'abs') else ':' + named) if named else 'target'), 'GET %s for url %d was served version %d from cache; that version was fetched before the %s, which had completed before the GET was sent' % (r.id, r.u, r.ver, why)))
                        break
            if not hit_judged:
                stats['control_hits'] += 1
        # also count GETs after invalidation that did contact the origin (they are the normal, judged-good case)
        for r in recs:
            if r.step is not None and 'status' not in r.step and r.contacts:
                for (s_send, s_end, u, why, named) in inval:
                    if u == r.u and s_end < r.seq_send:
                        stats['named_url_gets_judged' if named else 'post_unsafe_gets_judged'] += 1
                        break
        o.stats = stats
        o.nontrivial = stats['post_unsafe_gets_judged'] + stats['named_url_gets_judged'] > 0
        o.sample = {'cache': plan['conf']['cache'], 'steps': [[s.get('method', 'GET'), s['u'], s.get('status'), s.get('named'), s.get('form'), s.get('w')] for s in plan['clients'][0]['steps']][:14]}
