"""C63 Forwarding loops and Max-Forwards are honoured. DESIGN.md §4."""
import os, re, random
import simlib
from simlib import Payload, tok
from framework import Violation
from props import register
from props import httpcommon as hc

def squid_version():
    repo = os.environ.get('VERIF_REPO', '/repo')
    try:
        m = re.search(r'#define\s+VERSION\s+"([^"]+)"', open(os.path.join(repo, 'include', 'autoconf.h')).read())
        return m.group(1)
    except OSError:
        return '0'

OTHERS = ['1.0 fred', '1.1 barney.example (Apache/2.4)', '1.1 p.example.net:8080', 'HTTP/1.1 gw', '1.1 simsquidx', '1.1 notsimsquid (squid/%s)', '1.1 other (simsquid)']

@register
class C63(hc.PProp):
    id = 'C63'
    rule = ('each run = 3-10 requests; Via header lists built from other hops plus (in half of the requests) an element naming this squid '
            '(visible_hostname simsquid) in varying position, case, protocol-name form and with its own comment, another comment or none, over one '
            'or several Via lines; Max-Forwards in {absent,0,1,2,7,255} with TRACE/OPTIONS/GET. non-trivial = a request that names this squid in '
            'Via, or carries Max-Forwards, was judged; distinct = history fingerprint')
    quick_runs = 240
    thorough_runs = 5000
    quick_wall = 40
    thorough_wall = 900
    assumptions = ['"names this Squid" = a Via element whose received-by token equals the configured host name (case-insensitively, host names are '
                   'case-insensitive), whatever the comment', 'scripted peers; single worker']
    expected_probes = ['loops_judged', 'maxforwards_judged']

    def plan(self, rng, tier, index):
        plan = hc.std_plan(rng, {'cache': 'none'}, hostile=False)
        ver = squid_version()
        txns = []
        for k in range(rng.randint(3, 10)):
            t = {'id': index * 100 + k, 'method': rng.choice(['GET', 'GET', 'TRACE', 'OPTIONS']), 'mf': rng.choice([None, None, 0, 0, 1, 2, 7, 255]), 'via': None, 'loop': None}
            if rng.random() < 0.5:
                others = [o.replace('%s', ver) for o in rng.sample(OTHERS, rng.randint(0, 3))]
                kind = rng.choice(['full', 'nocomment', 'case', 'othercomment', 'proto', 'case-nocomment'])
                name = 'simsquid'
                if kind.startswith('case'):
                    name = rng.choice(['SIMSQUID', 'SimSquid', 'simSQUID'])
                proto = 'HTTP/1.1' if kind == 'proto' else rng.choice(['1.1', '1.0'])
                if kind in ('nocomment', 'case-nocomment'):
                    us = '%s %s' % (proto, name)
                elif kind == 'othercomment':
                    us = '%s %s (proxy)' % (proto, name)
                else:
                    us = '%s %s (squid/%s)' % (proto, name, ver)
                pos = rng.randint(0, len(others))
                elems = others[:pos] + [us] + others[pos:]
                t['loop'] = kind
            elif rng.random() < 0.5:
                elems = [o.replace('%s', ver) for o in rng.sample(OTHERS, rng.randint(1, 3))]
            else:
                elems = []
            if elems:
                nlines = rng.randint(1, min(2, len(elems)))
                cut = rng.randint(1, len(elems)) if nlines == 2 else len(elems)
                sep = rng.choice([', ', ',', ' , '])
                t['via'] = [sep.join(elems[:cut])] + ([sep.join(elems[cut:])] if elems[cut:] else [])
            txns.append(t)
        plan['txns'] = txns
        plan['_lists'] = ['txns']
        return plan

    def build(self, plan):
        scn = self.new_scn(plan)
        srv = scn.server('o1', '10.0.0.1', 80)
        cl = scn.client('c0')
        for t in plan['txns']:
            hdrs = [(b'Host', b'10.0.0.1'), (b'X-Sim-Req', str(t['id']).encode())]
            for v in (t['via'] or []):
                hdrs.append((b'Via', v.encode()))
            if t['mf'] is not None:
                hdrs.append((b'Max-Forwards', str(t['mf']).encode()))
            req = hc.request_head(t['method'].encode(), b'http://10.0.0.1/v%d' % t['id'], hdrs)
            r = srv.sub('rule t%d has %s' % (t['id'], tok(b' /v%d ' % t['id'])))
            r.add('send %s' % tok(hc.response_head(200, [(b'Content-Length', b'2'), (b'X-Sim-Ver', b'v%d' % t['id'])]) + b'ok'))
            cl.add('connect %s %d' % (hc.SQUID_IP, hc.SQUID_PORT))
            cl.add('send %s' % tok(req))
            cl.add('expect response timeout 30000000')
            cl.add('close')
        return scn, None

    def judge(self, plan, expect, hist, o):
        V = o.violations
        stats = {'loops_judged': 0, 'maxforwards_judged': 0, 'loops_refused': 0}
        up = hc.upstream_requests_by_id(hist)
        answered = set()
        for cv in hc.client_views(hist):
            ids = [x.decode() for x in cv.req_ids() if x is not None]
            for k, m in enumerate(cv.finals[:len(ids)]):
                answered.add(ids[k])
        nontrivial = 0
        for t in plan['txns']:
            rid = str(t['id'])
            if rid not in answered:
                continue
            forwarded = up.get(rid.encode(), [])
            if t['loop']:
                stats['loops_judged'] += 1; nontrivial += 1
                if forwarded:
                    V.append(Violation('C63:loop-forwarded:%s' % t['loop'], 'request %s with Via %r (names this squid, form %s) was forwarded to the origin' % (rid, t['via'], t['loop'])))
                else:
                    stats['loops_refused'] += 1
                continue
            if t['mf'] is not None:
                stats['maxforwards_judged'] += 1; nontrivial += 1
                if t['mf'] == 0 and t['method'] in ('TRACE', 'OPTIONS'):
                    if forwarded:
                        V.append(Violation('C63:maxforwards0-forwarded:%s' % t['method'], '%s request %s with Max-Forwards: 0 was forwarded' % (t['method'], rid)))
                elif t['mf'] > 0:
                    for sv, r in forwarded:
                        got = r.get_all(b'max-forwards')
                        # the field is defined for TRACE and OPTIONS only (RFC 9110 7.6.2); for other methods squid drops it, which a
                        # recipient MAY do; what must never happen is forwarding an un-decremented value
                        if t['method'] == 'GET' and got == []:
                            continue
                        if got != [str(t['mf'] - 1).encode()]:
                            V.append(Violation('C63:maxforwards-not-decremented', '%s request %s: received Max-Forwards %d, forwarded %r' % (t['method'], rid, t['mf'], got)))
        o.stats = stats
        o.nontrivial = nontrivial > 0
        o.sample = {'txns': [[t['method'], t['mf'], t['via'], t['loop']] for t in plan['txns'][:5]]}
