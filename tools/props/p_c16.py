"""C16 Disk cache crash consistency (fault enumeration over crash points x sampled workloads). DESIGN.md §4."""
import os, random, re, copy
import simlib
from framework import Violation, Outcome
from props import register
from props import httpcommon as hc
from props import cachefam as cf

SIZES = [0, 100, 4000, 4096, 16000, 16384, 16385, 33000, 70000, 150000]

def phase2_plan(plan, t0_us):
    p2 = copy.deepcopy(plan)
    for url in p2['urls']:
        url['first_ver'] = 500; url['bumps'] = []; url['nver'] = 1; url.pop('bump_on_serve', None)
    steps = []
    rid = 900000
    for u in range(len(p2['urls'])):
        rid += 1
        steps.append({'id': rid, 'u': u, 'hdrs': [], 'wait': 1000})
    p2['clients'] = [{'name': 'p2c', 'steps': steps}]
    p2['disk'] = []
    return p2

def last_time(hist):
    return hist.events[-1][1] if hist.events else simlib.CLOCK0

@register
class C16(hc.PProp):
    id = 'C16'
    level = 'fault_enumeration'
    technique = 'deterministic simulation: crash-point enumeration (process killed before / partway through each cache_dir file operation) over seeded workloads, restart and hit comparison'
    level_text = ('for each seeded workload the cache_dir file operations (open-create, write, pwrite, unlink, rename, ftruncate) of a fault-free run are counted, '
                  'then the identical run is repeated and killed before operation k or after a prefix of its bytes (quick: sampled k; thorough: every k), squid is '
                  'restarted on the directory and every hit is compared with the versions the origin had sent; determinism makes the runs identical up to k')
    rule = ('workload = 4-9 versioned URLs on rock or ufs cache_dirs (1-64 MB, several slot sizes) with stores, overwrites (version changes + no-cache), '
            'evictions (small caches) and PURGE requests; crash point = (file operation index k, optional partial-write length); after the kill squid restarts on '
            'the same directory with the simulated clock advanced and every URL is requested again. non-trivial = a crash point whose restart produced at least one '
            'response served without contacting the origin; distinct = (workload seed, k, partial)')
    quick_runs = 40
    thorough_runs = 300
    quick_wall = 55
    thorough_wall = 1800
    assumptions = ['kill model: every write() that returned is in the file, the interrupted one is absent or partially applied (process kill, not power loss: squid issues no fsync on cache files)',
                   'aufs/diskd are represented by ufs (same UFSSwapDir/RebuildState/swap.state code, blocking I/O strategy)']
    expected_probes = ['crash_points', 'restarts_ok', 'hits_after_restart', 'partial_write_crashes']
    sim_limit_s = 3000

    def plan_overwrite(self, rng, tier, index):
        """directed stratum: multi-slot objects overwritten by equally long new versions (no-cache refetch / version change), crash points inside the overwrite"""
        kind = rng.choice(['rock', 'rock', 'ufs', 'both'])
        conf = {'cache': kind, 'cache_mem_mb': 0, 'lines': ['maximum_object_size_in_memory 0 KB'], 'store_log': True, 'ufs_mb': 64, 'rock_mb': rng.choice([2, 16]), 'rock_slot': rng.choice([4096, 16384])}
        plan = hc.std_plan(rng, conf, hostile=False)
        plan['knobs'] = {'net.seg.max': [rng.choice([1460, 16384])], 'clock.tick_us': [1, 20]}
        n = rng.randint(1, 3)
        plan['urls'] = []
        for u in range(n):
            sz = rng.choice([33000, 70000, 150000])
            plan['urls'].append({'sizes': [sz, sz], 'lm': True, 'cc': 'max-age=100000', 'framing': rng.choice(['cl', 'chunked']), 'bumps': [rng.randint(3, 6) * 1000000]})
        steps = []
        rid = index * 1000
        for u in range(n):
            rid += 1; steps.append({'id': rid, 'u': u, 'wait': 0, 'hdrs': [], 'new_conn': False})
        for u in range(n):
            rid += 1; steps.append({'id': rid, 'u': u, 'wait': 1000000 if u == 0 else 0, 'hdrs': [], 'new_conn': False})
        for u in range(n):
            rid += 1; steps.append({'id': rid, 'u': u, 'wait': 7000000 if u == 0 else 0, 'hdrs': [('Cache-Control', 'no-cache')], 'new_conn': False})
        plan['clients'] = [{'name': 'c0', 'steps': steps}]
        ncr = 6 if tier == 'quick' else 0
        plan['crashes'] = [{'frac': 0.45 + 0.55 * rng.random(), 'partial': rng.choice([None, None, None, 0.5])} for _ in range(ncr)] if ncr else 'all'
        plan['_lists'] = ['crashes']
        return plan

    def plan(self, rng, tier, index):
        if index % 5 == 4:
            return self.plan_overwrite(rng, tier, index)
        kind = rng.choice(['rock', 'rock', 'ufs', 'ufs', 'both'])
        conf = {'cache': kind, 'cache_mem_mb': rng.choice([0, 0, 1]), 'lines': ['maximum_object_size_in_memory 0 KB'] if rng.random() < 0.5 else [], 'store_log': True}
        if kind in ('ufs', 'both'):
            conf['ufs_mb'] = rng.choice([1, 2, 64])
        if kind in ('rock', 'both'):
            conf['rock_mb'] = rng.choice([1, 2, 64]); conf['rock_slot'] = rng.choice([4096, 16384, 32768])
        plan = hc.std_plan(rng, conf, hostile=False)
        plan['knobs'] = {'net.seg.max': [rng.choice([1460, 16384])], 'clock.tick_us': [1, 20]}
        nurl = rng.randint(4, 9)
        def two_sizes():
            a = rng.choice(SIZES)
            return [a, a] if rng.random() < 0.35 else [a, rng.choice(SIZES)]    # same-size overwrites reuse exactly the slots/blocks the old version freed
        plan['directed'] = None
        plan['urls'] = [{'sizes': two_sizes(), 'lm': True, 'cc': 'max-age=100000', 'framing': rng.choice(['cl', 'cl', 'chunked']),
                         'bumps': sorted(rng.randint(1, 20) * 1000000 for _ in range(rng.choice([0, 1, 2])))} for u in range(nurl)]
        steps = []
        rid = index * 1000
        for k in range(rng.randint(8, 24)):
            rid += 1
            st = {'id': rid, 'u': rng.randrange(nurl), 'wait': rng.choice([0, 1000, 300000, 2000000]), 'hdrs': [], 'new_conn': rng.random() < 0.3}
            r = rng.random()
            if r < 0.15:
                st['hdrs'] = [('Cache-Control', 'no-cache')]
            elif r < 0.25:
                st['method'] = 'PURGE'
            steps.append(st)
        plan['clients'] = [{'name': 'c0', 'steps': steps}]
        ncr = 5 if tier == 'quick' else 0
        plan['crashes'] = [{'frac': rng.random(), 'partial': rng.choice([None, None, 0.0, 0.5, 0.99])} for _ in range(ncr)] if ncr else 'all'
        plan['_lists'] = ['crashes', 'clients.0.steps']
        return plan

    def build(self, plan):
        scn, srv = cf.build_world(self, plan)
        for d in plan.get('disk', []):
            scn.line(d)
        return scn, None

    def execute(self, plan, workdir):
        o = Outcome()
        o.stats = {'crash_points': 0, 'restarts_ok': 0, 'hits_after_restart': 0, 'partial_write_crashes': 0, 'fileops': 0}
        os.makedirs(workdir, exist_ok=True)
        # ---- dry run: count cache_dir file operations
        dry_dir = os.path.join(workdir, simlib.fixed_name('dry'))
        p1 = copy.deepcopy(plan); p1['disk'] = []
        scn, _ = self.build(p1)
        h = simlib.run_squid(scn, dry_dir)
        b = hc.base_outcome(h)
        if b.infra:
            o.infra = b.infra; return o
        ops = []
        for f in h.files:
            rest = f[2]
            if rest[0] == 'open' and len(rest) > 3 and rest[3].isdigit():
                ops.append((int(rest[3]), 'open', rest))
            elif rest[0] in ('write', 'unlink', 'rename', 'ftruncate') and rest[-1].isdigit():
                ops.append((int(rest[-1]), rest[0], rest))
        n = max([x[0] for x in ops] or [0])
        o.stats['fileops'] = n
        writes = {x[0]: int(x[2][3]) for x in ops if x[1] == 'write' and x[2][3].isdigit()}
        fps = [h.fingerprint()]
        simlib.cleanup_rundir(dry_dir)
        if n < 3:
            o.infra = None; o.nontrivial = False; o.fp = fps[0]; o.sample = {'note': 'workload made no cache_dir writes'}
            return o
        crashes = plan['crashes']
        if crashes == 'all':
            crashes = [{'k': k, 'partial': None} for k in range(1, n + 1)] + [{'k': k, 'partial': 0.5} for k in sorted(writes)[:60]]
        nontrivial = set()
        for ci, cr in enumerate(crashes):
            k = cr.get('k') or (1 + int(cr['frac'] * (n - 1)))
            part = None
            if cr.get('partial') is not None and k in writes and writes[k] > 1:
                part = max(0, min(writes[k] - 1, int(cr['partial'] * writes[k])))
            rd = os.path.join(workdir, simlib.fixed_name('c%d' % ci))
            p1 = copy.deepcopy(plan)
            p1['disk'] = ['disk crash at %d%s' % (k, ' partial %d' % part if part is not None else '')]
            scn, _ = self.build(p1)
            h1 = simlib.run_squid(scn, rd)
            o.stats['crash_points'] += 1
            if part is not None:
                o.stats['partial_write_crashes'] += 1
            if h1.end != 'crash':
                # determinism makes this impossible unless the crashed run diverged from the dry run
                o.infra = 'crash point %d of %d was not reached (end=%s): run diverged from the dry run' % (k, n, h1.end)
                simlib.cleanup_rundir(rd); return o
            recs1, sent1 = cf.analyse(h1, p1)
            # ---- phase 2: restart on the same directory
            p2 = phase2_plan(plan, last_time(h1))
            scn2, _ = self.build(p2)
            scn2.clock0 = last_time(h1) + 5000000
            h2 = simlib.run_scn(scn2.text(), rd, phase_name='p2')
            fps.append(h1.fingerprint()); fps.append(h2.fingerprint())
            tag = 'k=%d/%d%s cache=%s' % (k, n, ' partial=%d' % part if part is not None else '', plan['conf']['cache'])
            probs = h2.health_problems()
            if not h2.life_has('ready') or probs:
                o.violations.append(Violation('C16:restart-failed', 'after a kill at %s squid did not restart cleanly: ready=%s problems=%s log=%s' % (tag, h2.life_has('ready'), probs, h2.cache_log()[-300:].replace('\n', ' / '))))
                simlib.cleanup_rundir(rd); continue
            o.stats['restarts_ok'] += 1
            recs2, sent2 = cf.analyse(h2, p2)
            for r in recs2:
                m = r.resp
                if r.u is None or hc.is_squid_error(m) or m.status != 200:
                    continue
                if r.contacts:
                    continue
                o.stats['hits_after_restart'] += 1
                nontrivial.add((k, part))
                if r.ver is None or r.ver_u != r.u:
                    o.violations.append(Violation('C16:hit-for-wrong-url:%s:%s' % (plan['conf']['cache'], 'partial-write' if part is not None else 'between-operations'), 'after a kill at %s: GET for url %d served from cache carries X-Sim-Ver %r' % (tag, r.u, m.get(b'x-sim-ver')))); continue
                if not [s for s in sent1 if s[2] == r.u and s[3] == r.ver and s[4] == 'full']:
                    o.violations.append(Violation('C16:hit-names-unsent-version:%s:%s' % (plan['conf']['cache'], 'partial-write' if part is not None else 'between-operations'), 'after a kill at %s: hit for url %d names version %d, which the origin never sent before the crash' % (tag, r.u, r.ver))); continue
                exp = cf.version_body(plan, r.u, r.ver)
                if not m.complete or m.body != exp:
                    kind = 'hit-truncated' if exp.startswith(m.body) else 'hit-bytes-differ'
                    if kind == 'hit-bytes-differ':
                        # the head of this version followed by the tail of another version of the same URL (an overwrite cut short: reused slots of the new
                        # version link into slots that still hold the old one)?
                        i = next((j for j in range(min(len(exp), len(m.body))) if m.body[j] != exp[j]), min(len(exp), len(m.body)))
                        for ov in set(x[3] for x in sent1 if x[2] == r.u and x[3] != r.ver):
                            ob = cf.version_body(plan, r.u, ov)
                            if i > 0 and len(ob) == len(m.body) and m.body[i:] == ob[i:]:
                                kind = 'hit-new-head-old-tail'
                    cls = 'C16:' + kind + ':%s:%s' % (plan['conf']['cache'], 'partial-write' if part is not None else 'between-operations')
                    o.violations.append(Violation(cls, 'after a kill at %s: hit for url %d version %d: %s (complete=%s)' % (tag, r.u, r.ver, hc.diff_desc(m.body, exp), m.complete)))
            simlib.cleanup_rundir(rd)
        import hashlib
        o.fp = hashlib.sha256(''.join(fps).encode()).hexdigest()
        o.sig = o.fp[:16]
        o.nontrivial = len(nontrivial) > 0
        o.stats['distinct_cases'] = len(nontrivial)
        o.sample = {'conf': plan['conf'], 'fileops': n, 'crashes': [(c.get('k') or round(c['frac'], 2), c.get('partial')) for c in crashes[:6]],
                    'steps': [[s.get('method', 'GET'), s['u'], s['hdrs']] for s in plan['clients'][0]['steps']][:8]}
        return o
