"""C45 http_access decisions are enforced end to end. DESIGN.md §4."""
import random, re, ipaddress
import simlib
from simlib import tok
from framework import Violation
from props import register
from props import httpcommon as hc

MULTI = {'multi.test': ['10.0.3.1', '10.0.0.1']}   # resolved by the DNS peer; 10.0.3.1 refuses connections (squid then marks it bad and uses the other)
HOSTS = {'a.test': '10.0.0.1', 'b.test': '10.0.0.2', 'www.b.test': '10.0.0.2', 'c.example': '10.0.1.1', 'deep.sub.c.example': '10.0.1.1'}
CLIENTS = ['10.1.0.1', '10.1.0.2', '10.2.0.1', '192.168.5.5', '10.2.0.2', '10.1.1.0', '10.1.0.255', '11.0.0.0', '192.169.0.0']   # incl. the neighbours of every configured boundary
PORTS = [80, 8000, 8080, 79, 81, 1024, 1025, 7999, 8001, 8079, 8081]   # configured values and the ports just below and above them
METHODS = ['GET', 'POST', 'HEAD', 'PUT']

def gen_acl(rng, name):
    t = rng.choice(['src', 'dst', 'dstdomain', 'port', 'method'])
    if t == 'src':
        vals = rng.sample(['10.1.0.1', '10.1.0.0/24', '10.0.0.0/8', '192.168.0.0/16', '10.1.0.2-10.2.0.1', '10.2.0.1/32'], rng.randint(1, 2))
    elif t == 'dst':
        vals = rng.sample(['10.0.0.1', '10.0.0.0/24', '10.0.1.0/24', '10.0.0.2/32', '10.0.0.0/8', '10.0.3.0/24', '10.0.3.1'], rng.randint(1, 2))
    elif t == 'dstdomain':
        vals = rng.sample(['.test', 'a.test', '.b.test', 'c.example', '.example', 'sub.c.example', '.sub.c.example'], rng.randint(1, 2))
        if '.test' in vals: vals = [v for v in vals if not v.endswith('.test') or v == '.test']
        if '.example' in vals: vals = [v for v in vals if not v.endswith('.example') or v == '.example']
        if '.sub.c.example' in vals and 'sub.c.example' in vals: vals.remove('sub.c.example')
        if '.b.test' in vals and 'a.test' in vals and '.test' in vals: vals = ['.test']
    elif t == 'port':
        vals = rng.sample(['80', '8000', '8080', '8000-8080', '1-1024', '80-81', '8001-8079'], rng.randint(1, 2))
    else:
        vals = rng.sample(METHODS, rng.randint(1, 2))
    return {'name': name, 'type': t, 'vals': vals}

def acl_match(acl, req):
    t = acl['type']
    if t == 'src':
        ip = ipaddress.ip_address(req['src'])
        for v in acl['vals']:
            if '-' in v:
                a, b = v.split('-'); 
                if ipaddress.ip_address(a) <= ip <= ipaddress.ip_address(b): return True
            elif ip in ipaddress.ip_network(v, strict=False): return True
        return False
    if t == 'dst':
        ips = [ipaddress.ip_address(x) for x in (MULTI.get(req['host']) or [HOSTS[req['host']]])]     # dst matches when any address of the host matches
        return any(ip in ipaddress.ip_network(v, strict=False) for ip in ips for v in acl['vals'])
    if t == 'dstdomain':
        h = req['host'].lower()
        for v in acl['vals']:
            if v.startswith('.'):
                if h == v[1:] or h.endswith(v): return True
            elif h == v: return True
        return False
    if t == 'port':
        for v in acl['vals']:
            if '-' in v:
                a, b = v.split('-')
                if int(a) <= req['port'] <= int(b): return True
            elif int(v) == req['port']: return True
        return False
    return req['method'] in acl['vals']

def evaluate(rules, acls, req):
    last = None
    for r in rules:
        ok = True
        for (neg, name) in r['acls']:
            m = acl_match(acls[name], req)
            if m == neg:
                ok = False; break
        last = r['action']
        if ok:
            return r['action'] == 'allow'
    return last != 'allow'   # no rule matched: opposite of the last rule's action

@register
class C45(hc.PProp):
    id = 'C45'
    rule = ('each run = a random http_access section: 2-5 ACLs of type src (addresses, CIDR, ranges), dst, dstdomain, port, method over a small universe and '
            '1-6 allow/deny rules with 1-3 possibly negated ACLs each; 8-30 requests drawn from 4 client addresses, 5 host names (resolved through the hosts '
            'file), 11 ports (the configured values and their neighbours), 4 methods. The reference is a first-match evaluator (no match: opposite of the last rule). non-trivial = at least one allowed and '
            'one denied request were judged; distinct = history fingerprint')
    quick_runs = 240
    thorough_runs = 6000
    quick_wall = 50
    thorough_wall = 900
    assumptions = ['host names resolve through hosts_file (static) except multi.test (DNS peer, two addresses, the first one refuses connections); requests always use host names (dstdomain on IP literals needs reverse DNS)']
    expected_probes = ['allowed_judged', 'denied_judged']

    def plan(self, rng, tier, index):
        acls = [gen_acl(rng, 'A%d' % i) for i in range(rng.randint(2, 5))]
        rules = []
        for _ in range(rng.randint(1, 6)):
            picks = rng.sample(acls, rng.randint(1, min(3, len(acls))))
            rules.append({'action': rng.choice(['allow', 'deny']), 'acls': [(rng.random() < 0.3, a['name']) for a in picks]})
        lines = ['acl %s %s %s' % (a['name'], a['type'], ' '.join(a['vals'])) for a in acls]
        lines += ['http_access %s %s' % (r['action'], ' '.join(('!' if neg else '') + n for neg, n in r['acls'])) for r in rules]
        plan = hc.std_plan(rng, {'cache': 'none', 'no_default_access': True, 'lines': lines}, hostile=False)
        plan['acls'] = acls; plan['rules'] = rules
        plan['reqs'] = [{'id': index * 100 + k, 'src': rng.choice(CLIENTS), 'host': rng.choice(sorted(HOSTS) + ['multi.test', 'multi.test']), 'port': rng.choice(PORTS), 'method': rng.choice(METHODS)} for k in range(rng.randint(8, 30))]
        plan['_lists'] = ['reqs']
        return plan

    def build(self, plan):
        scn = self.new_scn(plan)
        scn.hosts = ''.join('%s %s\n' % (ip, h) for h, ip in sorted(HOSTS.items()))
        d = scn.dns()
        for h, ips in MULTI.items():
            d.add('host %s 1 addrs %s' % (h, ','.join(ips))); d.add('host %s 28 addrs -' % h)
        scn.server('refuser', '10.0.3.1', 80).add('connect * refuse')
        n = 0
        for ip in sorted(set(HOSTS.values())):
            for port in PORTS:
                s = scn.server('o%d' % n, ip, port); n += 1
                r = s.sub('rule any'); r.add('expect body'); r.add('send %s' % tok(hc.response_head(200, [(b'Content-Length', b'2')]) + b'ok'))
        for i, q in enumerate(plan['reqs']):
            cl = scn.client('c%d' % i, start=i * 1500, **{'from': q['src']})
            cl.add('connect %s %d' % (hc.SQUID_IP, hc.SQUID_PORT))
            hostport = q['host'] + ('' if q['port'] == 80 else ':%d' % q['port'])
            hd = [(b'Host', hostport.encode()), (b'X-Sim-Req', b'%d' % q['id'])]
            body = b''
            if q['method'] in ('POST', 'PUT'):
                body = b'data'; hd.append((b'Content-Length', b'4'))
            cl.add('send %s' % tok(hc.request_head(q['method'].encode(), b'http://%s/x%d' % (hostport.encode(), q['id']), hd) + body))
            cl.add('expect %s timeout 30000000 soft' % ('response-nobody' if q['method'] == 'HEAD' else 'response'))
        return scn, None

    def judge(self, plan, expect, hist, o):
        V = o.violations
        stats = {'allowed_judged': 0, 'denied_judged': 0}
        acls = {a['name']: a for a in plan['acls']}
        up = hc.upstream_requests_by_id(hist)
        resp = {}
        for cv in hc.client_views(hist):
            ids = [x.decode() for x in cv.req_ids() if x is not None]
            for k, m in enumerate(cv.finals[:len(ids)]):
                resp[ids[k]] = m
        for q in plan['reqs']:
            rid = str(q['id'])
            if rid not in resp:
                continue
            allow = evaluate(plan['rules'], acls, q)
            forwarded = rid.encode() in up
            m = resp[rid]
            desc = '%s http://%s:%d from %s under %s' % (q['method'], q['host'], q['port'], q['src'], plan['conf']['lines'])
            if allow:
                stats['allowed_judged'] += 1
                if not forwarded:
                    V.append(Violation('C45:allowed-request-not-forwarded', 'reference allows %s but it was not forwarded (status %d %s)' % (desc, m.status, m.get(b'x-squid-error'))))
            else:
                stats['denied_judged'] += 1
                if forwarded:
                    V.append(Violation('C45:denied-request-forwarded', 'reference denies %s but it reached the origin' % desc))
                elif m.status != 403:
                    V.append(Violation('C45:denied-without-403', 'reference denies %s; squid answered %d %s' % (desc, m.status, m.get(b'x-squid-error'))))
        o.stats = stats
        o.nontrivial = stats['allowed_judged'] > 0 and stats['denied_judged'] > 0
        o.sample = {'conf': plan['conf']['lines'], 'reqs': [[q['src'], q['host'], q['port'], q['method']] for q in plan['reqs'][:5]]}
