"""C46 Proxy authentication gates forwarding and never mixes identities. DESIGN.md §4."""
import os, random, re, base64
import simlib
from simlib import tok
from framework import Violation
from props import register
from props import httpcommon as hc

USERS = {'alice': 'pwAlice1', 'bob': 'pwBob22', 'carol': 'pwCarol3'}

@register
class C46(hc.PProp):
    id = 'C46'
    rule = ('each run = Basic proxy authentication with a scripted helper (concurrency 0 or 2-6, 1-3 children, per-lookup latency 0-300 ms so replies arrive out '
            'of order, OK / ERR / BH verdicts, optionally a password that stops being accepted after k lookups), credentialsttl 2 s .. 1 h; 2-5 client connections issue '
            '3-10 requests each with valid, wrong-password, unknown-user, garbled or missing credentials, switching users on the same connection, with waits up to '
            'minutes. non-trivial = both authorised and refused requests were judged; distinct = history fingerprint')
    quick_runs = 240
    thorough_runs = 6000
    quick_wall = 50
    thorough_wall = 900
    assumptions = ['a helper verdict is taken from the scripted rule that answered the lookup; a forwarded request must be covered by an OK verdict for exactly its user:password '
                   'that is the latest verdict for those credentials and not older than credentialsttl + 2 s']
    expected_probes = ['forwarded_judged', 'refused_judged', 'log_lines_judged', 'fault.helper.dup_reply']
    sim_limit_s = 8000

    def plan(self, rng, tier, index):
        conc = rng.choice([0, 0, 2, 6])
        ttl = rng.choice([2, 10, 3600])
        lines = ['logformat sim %{X-Sim-Req}>h %un %>Hs', 'auth_param basic program /bin/true sim=auth', 'auth_param basic children %d startup=1 concurrency=%d' % (rng.choice([1, 2, 3]), conc),
                 'auth_param basic realm sim', 'auth_param basic credentialsttl %d seconds' % ttl, 'auth_param basic casesensitive on',
                 'acl authed proxy_auth REQUIRED', 'http_access allow authed', 'http_access deny all']
        plan = hc.std_plan(rng, {'cache': 'none', 'no_default_access': True, 'logformat': 'sim', 'lines': lines}, hostile=rng.random() < 0.3)
        plan['conc'] = conc; plan['ttl'] = ttl
        plan['revoke'] = {u: rng.choice([None, None, 1, 2, 4]) for u in USERS}
        plan['delays'] = {u: rng.choice([0, 1000, 50000, 300000]) for u in list(USERS) + ['other']}
        plan['bh_other'] = rng.random() < 0.3
        plan['dup_reply'] = rng.random() < 0.15 and conc > 0
        conns = []
        rid = index * 1000
        for c in range(rng.randint(2, 5)):
            steps = []
            for _ in range(rng.randint(3, 10)):
                rid += 1
                kind = rng.choice(['valid', 'valid', 'valid', 'wrongpw', 'unknown', 'none', 'garbled', 'otherpw', 'pwsuffix', 'pwprefix', 'pwcase'])
                u = rng.choice(sorted(USERS))
                if kind == 'valid': cred = (u, USERS[u])
                elif kind == 'wrongpw': cred = (u, 'wrong' + USERS[u])
                elif kind == 'pwsuffix': cred = (u, USERS[u] + rng.choice(['X', ' ', '-but-wrong', USERS[u]]))   # near misses of the cached/pending password
                elif kind == 'pwprefix': cred = (u, USERS[u][:rng.randint(1, len(USERS[u]) - 1)])
                elif kind == 'pwcase': cred = (u, USERS[u].swapcase())
                elif kind == 'otherpw': cred = (u, USERS[rng.choice(sorted(USERS))])
                elif kind == 'unknown': cred = ('mallory', 'x1')
                elif kind == 'garbled': cred = ('garbled', None)
                else: cred = None
                steps.append({'id': rid, 'cred': cred, 'wait': rng.choice([0, 0, 1000, 500000, 3000000, 30000000])})
            conns.append({'name': 'c%d' % c, 'start': rng.choice([0, 500, 100000]), 'steps': steps})
        plan['conns'] = conns
        plan['_lists'] = ['conns'] + ['conns.%d.steps' % i for i in range(len(conns))]
        return plan

    def build(self, plan):
        scn = self.new_scn(plan)
        conf = scn.conf
        lf = 'logformat sim %{X-Sim-Req}>h %un %>Hs\n'
        conf = conf.replace(lf, '').replace('access_log ', lf + 'access_log ', 1)
        scn.conf = conf
        scn.knob('peer.expect_timeout_us', 60000000)
        srv = scn.server('o1', '10.0.0.1', 80)
        srv.sub('rule any').add('send %s' % tok(hc.response_head(200, [(b'Content-Length', b'2')]) + b'ok'))
        h = scn.helper('auth', plan['conc'])
        for u, pw in sorted(USERS.items()):
            mx = plan['revoke'][u]
            chan = ' chan dup' if plan['dup_reply'] and u == 'alice' else ''
            h.add('rule ok_%s%s has %s reply %s delay %d%s' % (u, ' max %d' % mx if mx else '', tok(('%s %s\n' % (u, pw)).encode()), tok(b'OK'), plan['delays'][u], chan))
            if mx:
                h.add('rule revoked_%s has %s reply %s delay %d' % (u, tok(('%s %s\n' % (u, pw)).encode()), tok(b'ERR message="revoked"'), plan['delays'][u]))
        h.add('rule other reply %s delay %d' % (tok(b'BH message="sim"' if plan['bh_other'] else b'ERR'), plan['delays']['other']))
        for c in plan['conns']:
            cl = scn.client(c['name'], start=c['start'])
            cl.add('connect %s %d' % (hc.SQUID_IP, hc.SQUID_PORT))
            for st in c['steps']:
                if st['wait']:
                    cl.add('wait %d' % st['wait'])
                hd = [(b'Host', b'10.0.0.1'), (b'X-Sim-Req', b'%d' % st['id'])]
                if st['cred']:
                    if st['cred'][1] is None:
                        hd.append((b'Proxy-Authorization', b'Basic !!!notbase64***'))
                    else:
                        hd.append((b'Proxy-Authorization', b'Basic ' + base64.b64encode(('%s:%s' % tuple(st['cred'])).encode())))
                cl.add('send %s' % tok(hc.request_head(b'GET', b'http://10.0.0.1/a%d' % st['id'], hd)))
                cl.add('expect response timeout 60000000 soft')
        return scn, None

    def judge(self, plan, expect, hist, o):
        V = o.violations
        stats = {'forwarded_judged': 0, 'refused_judged': 0, 'log_lines_judged': 0, 'helper_lookups': 0}
        # helper verdicts: (time of reply, 'user pw', verdict)
        verdicts = []
        for (seq, t, kind, rest) in hist.helpers:
            if kind != 'HREQ':
                continue
            stats['helper_lookups'] += 1
            rule = rest[2]
            off, n = rest[3].split()
            line = hist.blob(int(off), int(n)).decode('latin-1')
            if plan['conc'] > 0 and ' ' in line:
                line = line.split(' ', 1)[1]
            u = rule.split('_', 1)[1] if '_' in rule else 'other'
            delay = plan['delays'].get(u, plan['delays']['other'])
            # squid sends "<user> <password>" with each part rfc1738-escaped: compare on the decoded pair, not on the wire form
            parts = line.rstrip('\r\n').split(' ', 1)
            unesc = lambda x: re.sub(r'%([0-9a-fA-F]{2})', lambda m: chr(int(m.group(1), 16)), x)
            verdicts.append((t + delay, ' '.join(unesc(x) for x in parts), 'OK' if rule.startswith('ok_') else 'ERR'))
        steps = {}
        for c in plan['conns']:
            for st in c['steps']:
                steps[str(st['id'])] = st
        up = {}
        for sv in hc.server_views(hist):
            for r in sv.reqs:
                rid = r.get(b'x-sim-req')
                if rid:
                    first = sv.conn.events[0][1] if sv.conn.events else 0
                    up.setdefault(rid.decode(), []).append((sv, r))
                    if r.get(b'proxy-authorization') is not None:
                        V.append(Violation('C46:proxy-authorization-forwarded', 'request %s reached the origin with its Proxy-Authorization header' % rid.decode()))
        resp = {}
        for cv in hc.client_views(hist):
            ids = [x.decode() for x in cv.req_ids() if x is not None]
            for k, m in enumerate(cv.finals[:len(ids)]):
                r = type('R', (), {})(); r.m = m
                resp[ids[k]] = m
        # time at which squid wrote each upstream request: use the connection's first SQWR containing the id (approximate by conn open time)
        fwd_time = {}
        for sc in hist.server_conns():
            data = hist.from_squid(sc)
            ends = []; acc = 0
            for (seq, t, off, n, lost) in sc.sqwr:
                acc += n; ends.append((acc, t))
            for mm in re.finditer(rb'X-Sim-Req: (\d+)', data):
                t = next((tt for (e, tt) in ends if e > mm.start()), ends[-1][1] if ends else 0)
                fwd_time.setdefault(mm.group(1).decode(), t)
        for rid, st in steps.items():
            if rid not in resp and rid not in up:
                continue
            cred = st['cred']
            line = None
            if cred and cred[1] is not None:
                line = '%s %s' % tuple(cred)
            if rid in up:
                stats['forwarded_judged'] += 1
                if line is None:
                    V.append(Violation('C46:forwarded-without-credentials', 'request %s with credentials %r was forwarded' % (rid, cred))); continue
                t = fwd_time.get(rid, 0)
                mine = [v for v in verdicts if v[1] == line and v[0] <= t]   # a verdict counts once the helper has sent it (squid forwards only after reading it)
                if not mine:
                    V.append(Violation('C46:forwarded-without-helper-approval', 'request %s (%s) was forwarded but the helper never approved exactly these credentials before that' % (rid, cred[0])))
                elif mine[-1][2] != 'OK':
                    V.append(Violation('C46:forwarded-after-helper-rejection', 'request %s (%s) was forwarded although the latest helper verdict for its credentials was ERR' % (rid, cred[0]) + (' [fwd_t=%d all=%r]' % (t, [(v[0], v[2]) for v in verdicts if v[1] == line]) if os.environ.get('VERIF_C46_DEBUG') else '')))
                elif (t - mine[-1][0]) / 1e6 > plan['ttl'] + 2:
                    V.append(Violation('C46:forwarded-on-expired-approval', 'request %s (%s) was forwarded %.1f s after the last helper approval; credentialsttl %d s' % (rid, cred[0], (t - mine[-1][0]) / 1e6, plan['ttl'])))
            else:
                stats['refused_judged'] += 1
                m = resp[rid]
                approved_ever = line is not None and line.split(' ', 1)[1] == USERS.get(line.split(' ', 1)[0])
                if m.status != 407 and not approved_ever and not hc.is_squid_error(m):
                    V.append(Violation('C46:unauthenticated-not-challenged', 'request %s with credentials %r got status %d instead of a 407 challenge' % (rid, cred, m.status)))
        try:
            for ln in open(os.path.join(hist.rundir, 'access.log'), 'rb').read().decode('latin-1').split('\n'):
                f = ln.split(' ')
                if len(f) != 3 or f[0] not in steps:
                    continue
                stats['log_lines_judged'] += 1
                cred = steps[f[0]]['cred']
                own = cred[0] if cred and cred[1] is not None else None
                if f[1] != '-' and f[1] != own:
                    V.append(Violation('C46:logged-under-other-identity', 'request %s sent credentials of %r but was logged as user %r (status %s)' % (f[0], own, f[1], f[2])))
                if f[2] == '200' and f[1] == '-':
                    V.append(Violation('C46:forwarded-request-logged-anonymous', 'request %s was served (200) but logged without a user name' % f[0]))
        except OSError:
            pass
        o.stats = stats
        o.nontrivial = stats['forwarded_judged'] > 0 and stats['refused_judged'] > 0
        o.sample = {'conc': plan['conc'], 'ttl': plan['ttl'], 'revoke': plan['revoke'], 'conn0': [[s['cred'], s['wait']] for s in plan['conns'][0]['steps']][:6]}
