"""C03 No request smuggling: forwarded messages match strict client framing. DESIGN.md §4."""
import random, re
import simlib
from simlib import Payload, tok
from framework import Violation
from props import register
from props import httpcommon as hc

def chunked(body, rng, style='plain'):
    out = b''
    pos = 0
    while pos < len(body):
        n = rng.randint(1, max(1, len(body) - pos))
        size = b'%x' % n
        if style == 'ext':
            size += rng.choice([b';a=b', b';q="x;y"', b''])
        elif style == 'zeros':
            size = b'000' + size
        elif style == 'upper':
            size = size.upper()
        out += size + b'\r\n' + body[pos:pos + n] + b'\r\n'
        pos += n
    return out + b'0\r\n\r\n'

# recipes: name -> function(rng, mid, target, payload) -> (wire bytes, reading)
# reading: ('ok', body) = RFC 9112 6.3 delimits the message and its body is `body`; ('undef',) = no defined delimitation: the proxy must not
# forward this message or anything after it from this connection.
def build_message(rng, kind, target, inner):
    """inner = bytes that look like another request (the would-be smuggled message), used as body material"""
    H = lambda extra: b'POST ' + target + b' HTTP/1.1\r\nHost: 10.0.0.1\r\n' + extra + b'\r\n'
    n = len(inner)
    if kind == 'get':
        return b'GET ' + target + b' HTTP/1.1\r\nHost: 10.0.0.1\r\n\r\n', ('ok', b'')
    if kind == 'cl':
        return H(b'Content-Length: %d\r\n' % n) + inner, ('ok', inner)
    if kind == 'chunked':
        return H(b'Transfer-Encoding: chunked\r\n') + chunked(inner, rng, rng.choice(['plain', 'ext', 'zeros', 'upper'])), ('ok', inner)
    if kind == 'te_case':
        return H(b'Transfer-Encoding: ' + rng.choice([b'Chunked', b'CHUNKED', b'chunkeD']) + b'\r\n') + chunked(inner, rng), ('ok', inner)
    if kind == 'dup_cl_equal':
        return H(b'Content-Length: %d\r\nContent-Length: %d\r\n' % (n, n)) + inner, ('ok', inner)
    if kind == 'cl_list_equal':
        return H(b'Content-Length: %d, %d\r\n' % (n, n)) + inner, ('ok', inner)
    if kind == 'dup_cl_conflict':
        a, b = (n, max(0, n - rng.randint(1, n or 1))) if rng.random() < 0.5 else (max(0, n - rng.randint(1, n or 1)), n)
        if a == b:
            b = a + 3
        return H(b'Content-Length: %d\r\nContent-Length: %d\r\n' % (a, b)) + inner, ('undef',)
    if kind == 'cl_list_conflict':
        return H(b'Content-Length: %d, %d\r\n' % (n, n + 2)) + inner, ('undef',)
    if kind in ('cl_list_dup_conflict', 'cl_field_then_list', 'cl_list_conflict_dup'):
        a = rng.choice([0, 5, max(0, n // 2)])
        if a == n:
            a = n + 4
        if kind == 'cl_list_dup_conflict':      # a harmless duplicate first, the conflicting member after it
            return H(b'Content-Length: %d, %d, %d\r\n' % (a, a, n)) + inner, ('undef',)
        if kind == 'cl_field_then_list':
            return H(b'Content-Length: %d\r\nContent-Length: %d, %d\r\n' % (a, a, n)) + inner, ('undef',)
        return H(b'Content-Length: %d, %d, %d\r\n' % (a, n, a)) + inner, ('undef',)
    if kind == 'cl_signed':
        return H(b'Content-Length: ' + rng.choice([b'+%d' % n, b'-%d' % n, b'%d.0' % n, b'0x%x' % n, b'%d abc' % n]) + b'\r\n') + inner, ('undef',)
    if kind == 'cl_huge':
        return H(b'Content-Length: 99999999999999999999999\r\n') + inner, ('undef',)
    if kind == 'te_cl':
        # Transfer-Encoding overrides Content-Length (RFC 9112 6.3 rule 3); the CL here would end the message early or late
        cl = rng.choice([0, 3, n + 50])
        order = rng.random() < 0.5
        te, c = b'Transfer-Encoding: chunked\r\n', b'Content-Length: %d\r\n' % cl
        return H(te + c if order else c + te) + chunked(inner, rng), ('ok', inner)
    if kind == 'te_unknown':
        return H(b'Transfer-Encoding: ' + rng.choice([b'identity', b'gzip', b'x-chunked', b'chunked, identity', b'gzip, chunked', b'chunked, chunked']) + b'\r\n') + chunked(inner, rng), ('undef',)
    if kind == 'te_space_colon':
        return H(b'Transfer-Encoding : chunked\r\n') + chunked(inner, rng), ('undef',)
    if kind == 'cl_space_colon':
        return H(b'Content-Length : %d\r\n' % n) + inner, ('undef',)
    if kind == 'cl_obsfold':
        return H(b'Content-Length:\r\n %d\r\n' % n) + inner, ('ok', inner)     # a proxy may reject, or unfold to the same value
    if kind == 'te_obsfold':
        return H(b'Transfer-Encoding:\r\n chunked\r\n') + chunked(inner, rng), ('ok', inner)
    if kind == 'cl_barecr':
        return H(b'Content-Length: %d\r0\r\n' % n) + inner, ('undef',)
    if kind == 'nul_in_header':
        return H(b'X-Nul: a\x00b\r\nContent-Length: %d\r\n' % n) + inner, ('undef',)
    if kind.startswith('chunk_bad_'):
        bad = {'0x': b'0x%x' % n, 'plus': b'+%x' % n, 'trailing_sp': b'%x ' % n, 'leading_sp': b' %x' % n, 'overflow': b'ffffffffffffffffff',
               'neg': b'-1', 'nonhex': b'g1', 'trailing_tab': b'%x\t' % n, 'bare_lf': None}[kind[10:]]
        if bad is None:
            return H(b'Transfer-Encoding: chunked\r\n') + b'%x\n' % n + inner + b'\r\n0\r\n\r\n', ('undef',)
        return H(b'Transfer-Encoding: chunked\r\n') + bad + b'\r\n' + inner + b'\r\n0\r\n\r\n', ('undef',)
    if kind == 'chunk_nocrlf':
        return H(b'Transfer-Encoding: chunked\r\n') + b'%x\r\n' % n + inner + b'0\r\n\r\n', ('undef',)
    if kind == 'leading_crlf':
        return b'\r\n' * rng.randint(1, 3) + H(b'Content-Length: %d\r\n' % n) + inner, ('ok', inner)
    if kind == 'bare_lf':
        w = (H(b'Content-Length: %d\r\n' % n)).replace(b'\r\n', b'\n') + inner
        return w, ('ok', inner)     # RFC 9112 2.2: a recipient MAY treat a single LF as a line terminator
    if kind == 'cl_zero_with_body_like_next':
        # Content-Length: 0 followed by what is simply the next message
        return H(b'Content-Length: 0\r\n'), ('ok', b'')
    raise KeyError(kind)

KINDS_OK = ['get', 'cl', 'chunked', 'te_case', 'dup_cl_equal', 'cl_list_equal', 'te_cl', 'cl_obsfold', 'te_obsfold', 'leading_crlf', 'bare_lf', 'cl_zero_with_body_like_next']
KINDS_UNDEF = ['dup_cl_conflict', 'cl_list_conflict', 'cl_list_dup_conflict', 'cl_field_then_list', 'cl_list_conflict_dup', 'cl_signed', 'cl_huge', 'te_unknown', 'te_space_colon', 'cl_space_colon', 'cl_barecr', 'nul_in_header', 'chunk_nocrlf', 'chunk_bad_0x', 'chunk_bad_plus', 'chunk_bad_trailing_sp', 'chunk_bad_leading_sp', 'chunk_bad_overflow', 'chunk_bad_neg', 'chunk_bad_nonhex', 'chunk_bad_trailing_tab', 'chunk_bad_bare_lf']

@register
class C03(hc.PProp):
    id = 'C03'
    rule = ('each run = 1-4 client connections, each carrying a pipelined stream of 1-5 messages drawn from 34 framing recipes (plain, duplicate / '
            'conflicting / list / signed / huge Content-Length, Transfer-Encoding variants and TE+CL, obs-fold, bare CR, NUL, space before colon, bare LF, '
            'leading CRLF, chunk-size tricks); every body is itself a well-formed request for a /smuggled URL; seeded segmentation; '
            'relaxed_header_parser on/off/warn per run. The generator records the RFC 9112 6.3 delimitation of every message or that none exists. '
            'non-trivial = a stream with at least one anomalous message was judged; distinct = history fingerprint')
    quick_runs = 400
    thorough_runs = 10000
    quick_wall = 50
    thorough_wall = 1200
    assumptions = ['reference reading: RFC 9112 section 6.3 (Transfer-Encoding overrides Content-Length; identical duplicate Content-Length acceptable; '
                   'bare LF and leading empty lines tolerated per section 2.2); a proxy that rejects a message the reference accepts is never flagged',
                   'scripted peers; single worker']
    expected_probes = ['streams_judged', 'undefined_messages_judged', 'forwarded_requests_judged']

    def plan(self, rng, tier, index):
        plan = hc.std_plan(rng, {'cache': 'none', 'lines': ['relaxed_header_parser %s' % rng.choice(['on', 'on', 'off', 'warn']), 'pipeline_prefetch %d' % rng.choice([0, 1, 3]),
                                                             'request_timeout 10 seconds']})
        conns = []
        for ci in range(rng.randint(1, 4)):
            msgs = []
            for k in range(rng.randint(1, 5)):
                kind = rng.choice(KINDS_OK) if rng.random() < 0.6 else rng.choice(KINDS_UNDEF)
                msgs.append({'kind': kind, 'seed': rng.getrandbits(32), 'pad': rng.choice([0, 0, 10, 300])})
            conns.append({'name': 'c%d' % ci, 'msgs': msgs, 'seg': rng.choice(['rand', 'rand', 'whole', 'byte']), 'tail_wait': rng.choice([0, 1000])})
        plan['conns'] = conns
        plan['index'] = index
        plan['_lists'] = ['conns'] + ['conns.%d.msgs' % i for i in range(len(conns))]
        return plan

    def build(self, plan):
        scn = self.new_scn(plan)
        scn.knob('peer.expect_timeout_us', 40000000)
        srv = scn.server('o1', '10.0.0.1', 80)
        r = srv.sub('rule any')
        r.add('expect body')
        r.add('send %s' % tok(hc.response_head(200, [(b'Content-Length', b'2')]) + b'ok'))
        expect = {}
        for ci, c in enumerate(plan['conns']):
            wire = b''
            readings = []
            for k, m in enumerate(c['msgs']):
                rng = random.Random(m['seed'])
                tag = b'%d_%d_%d' % (plan['index'], ci, k)
                target = b'http://10.0.0.1/s' + tag
                inner = b'GET http://10.0.0.1/smuggled' + tag + b' HTTP/1.1\r\nHost: 10.0.0.1\r\nX-Pad: ' + b'p' * m['pad'] + b'\r\n\r\n'
                w, reading = build_message(rng, m['kind'], target, inner)
                wire += w
                readings.append({'target': b'/s' + tag, 'reading': reading[0], 'body': reading[1] if reading[0] == 'ok' else None, 'kind': m['kind']})
            expect[c['name']] = readings
            cl = scn.client(c['name'])
            cl.add('connect %s %d' % (hc.SQUID_IP, hc.SQUID_PORT))
            cl.add('send %s seg %s' % (tok(wire), c['seg']))
            cl.add('expect eof timeout %d soft' % 15000000)
        return scn, expect

    def judge(self, plan, expect, hist, o):
        V = o.violations
        stats = {'streams_judged': 0, 'undefined_messages_judged': 0, 'forwarded_requests_judged': 0, 'defined_forwarded': 0, 'defined_rejected': 0}
        # all upstream requests, keyed by target
        fwd = {}
        for sv in hc.server_views(hist):
            if sv.err:
                V.append(Violation('C03:malformed-upstream', 'upstream conn %d: %s' % (sv.conn.id, sv.err)))
            for r in sv.reqs:
                if getattr(r, 'partial_head', False):
                    continue
                stats['forwarded_requests_judged'] += 1
                if r.n_cl > 1:
                    V.append(Violation('C03:upstream-multiple-content-length', 'upstream request %r carries %d Content-Length fields' % (r.target, r.n_cl)))
                if r.n_cl and r.has_te:
                    V.append(Violation('C03:upstream-cl-and-te', 'upstream request %r carries both Content-Length and Transfer-Encoding' % r.target))
                if r.has_te and r.te != [b'chunked']:
                    V.append(Violation('C03:upstream-te-not-chunked', 'upstream request %r has Transfer-Encoding %r' % (r.target, r.te)))
                fwd.setdefault(r.target, []).append(r)
        known_targets = {}
        nontrivial = 0
        for cname, readings in expect.items():
            stats['streams_judged'] += 1
            undef_at = next((i for i, x in enumerate(readings) if x['reading'] == 'undef'), len(readings))
            if any(x['kind'] not in ('get', 'cl', 'chunked') for x in readings):
                nontrivial += 1
            for i, x in enumerate(readings):
                known_targets[x['target']] = (cname, i, x)
                got = fwd.get(x['target'], [])
                if i >= undef_at:
                    if x['reading'] == 'undef':
                        stats['undefined_messages_judged'] += 1
                    # an upstream request left visibly incomplete (no last-chunk / fewer bytes than its Content-Length, then the connection closed) is squid
                    # rejecting the message after having relayed its head: the origin was given no delimited request. Only complete ones count.
                    if got and not any(r.complete for r in got):
                        stats['undefined_cut_short_upstream'] = stats.get('undefined_cut_short_upstream', 0) + 1
                    if any(r.complete for r in got):
                        cls = 'C03:undefined-framing-forwarded:%s' % x['kind'] if i == undef_at else 'C03:forwarded-after-undefined:%s' % readings[undef_at]['kind']
                        V.append(Violation(cls, '%s message %d (%s) was forwarded although message %d (%s) has no defined delimitation; upstream body %r' % (cname, i, x['kind'], undef_at, readings[undef_at]['kind'], got[0].body[:80])))
                    continue
                if got:
                    stats['defined_forwarded'] += 1
                    for r in got:
                        if not r.complete:
                            continue
                        if r.body != x['body']:
                            V.append(Violation('C03:wrong-boundaries:%s' % x['kind'], '%s message %d (%s): forwarded body differs from the RFC 9112 delimitation: %s' % (cname, i, x['kind'], hc.diff_desc(r.body, x['body']))))
                else:
                    stats['defined_rejected'] += 1
        for target, lst in fwd.items():
            if target not in known_targets:
                V.append(Violation('C03:smuggled-request-forwarded', 'the origin received a request for %r, which is not a message of any client stream (bytes of another message were parsed as a request)' % target))
        o.stats = stats
        o.nontrivial = nontrivial > 0
        o.sample = {'conf': plan['conf']['lines'], 'streams': [[m['kind'] for m in c['msgs']] for c in plan['conns']]}
