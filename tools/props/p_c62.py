"""C62 Header size limits are enforced before forwarding. DESIGN.md §4."""
import random
import simlib
from simlib import Payload, tok
from framework import Violation
from props import register
from props import httpcommon as hc

BAND = 64   # the documentation does not say whether terminators count; nothing is asserted within +-BAND bytes of the limit

def fill_headers(rng, need, style):
    """header lines totalling exactly `need` bytes (need >= 12)"""
    out = []
    if style == 'one' or need < 200:
        name = b'X-Fill'
        v = need - len(name) - 4
        out.append((name, b'f' * max(v, 0)))
        return out
    left = need
    i = 0
    while left > 0:
        name = b'X-F%d' % i
        i += 1
        maxv = left - len(name) - 4
        if maxv < 40:
            v = maxv
        else:
            v = rng.randint(1, min(maxv - 20, 300))
            if maxv - v < 12:
                v = maxv
        if v < 0:
            # absorb the remainder into the previous value
            k, pv = out[-1]; out[-1] = (k, pv + b'g' * left); break
        out.append((name, b'f' * v))
        left -= len(name) + 4 + v
    return out

@register
class C62(hc.PProp):
    id = 'C62'
    rule = ('each run draws request_header_max_size and reply_header_max_size (2-48 KB) and sends 3-8 requests whose head size is drawn around '
            'the limit (limit-2000 .. limit+2000), far beyond it, or small; the excess sits in one huge field, many fields, the URL, whitespace inside the request line or the reason phrase of the status line; heads arrive '
            'incrementally (seeded segmentation, pacing). Origin response heads are sized the same way against reply_header_max_size. non-trivial = '
            'an oversize request or response head (beyond the +-64 byte band) was judged; distinct = history fingerprint')
    quick_runs = 300
    thorough_runs = 6000
    quick_wall = 50
    thorough_wall = 900
    assumptions = ['nothing is asserted for head sizes within 64 bytes of the limit (the documentation does not say whether terminators count)']
    expected_probes = ['oversize_requests_judged', 'oversize_replies_judged', 'undersize_forwarded']

    def plan(self, rng, tier, index):
        reqlim = rng.choice([2, 4, 8, 16, 32, 48]) * 1024
        replim = rng.choice([2, 4, 8, 16, 32, 48]) * 1024
        plan = hc.std_plan(rng, {'cache': 'none', 'lines': ['request_header_max_size %d bytes' % reqlim, 'reply_header_max_size %d bytes' % replim,
                                                             'client_request_buffer_max_size %d KB' % (reqlim // 1024 + 64)]})
        plan['reqlim'] = reqlim; plan['replim'] = replim
        txns = []
        def size_near(lim):
            r = rng.random()
            if r < 0.5:
                return lim + rng.randint(-2000, 2000)
            if r < 0.7:
                return lim * rng.choice([2, 3, 8])
            if r < 0.8:
                return lim + rng.choice([BAND + 1, BAND + 2, -BAND - 1, 200, -200])
            return rng.randint(200, 1500)
        for k in range(rng.randint(3, 8)):
            t = {'id': index * 100 + k, 'which': rng.choice(['req', 'req', 'resp']), 'style': rng.choice(['one', 'many', 'url', 'one', 'many', 'url', 'ws']),
                 'seg': rng.choice(['rand', 'rand', 'whole']), 'pace': rng.choice([0, 0, 100])}
            t['size'] = max(200, size_near(reqlim if t['which'] == 'req' else replim))
            if t['which'] == 'resp' and t['style'] in ('url', 'ws'):
                t['style'] = rng.choice(['one', 'reason'])     # reason: part of the head's size sits in the status line (a long reason phrase)
            txns.append(t)
        plan['txns'] = txns
        plan['_lists'] = ['txns']
        return plan

    def build(self, plan):
        scn = self.new_scn(plan)
        scn.knob('peer.expect_timeout_us', 60000000)
        srv = scn.server('o1', '10.0.0.1', 80)
        cl = scn.client('c0')
        expect = {}
        for t in plan['txns']:
            rng = random.Random(t['id'])
            rid = str(t['id'])
            base_h = [(b'Host', b'10.0.0.1'), (b'X-Sim-Req', rid.encode())]
            url = b'http://10.0.0.1/z%d' % t['id']
            if t['which'] == 'req':
                base = hc.request_head(b'GET', url, base_h)
                need = t['size'] - len(base)
                if need >= 12:
                    if t['style'] == 'ws':     # the excess is whitespace between the fields of the request line (tolerated by relaxed_header_parser)
                        head = hc.request_head(b'GET', url, base_h + fill_headers(rng, need // 2, 'many')) if need // 2 >= 12 else base
                        pad = t['size'] - len(head)
                        head = head.replace(b'GET ', b'GET ' + b' ' * max(0, pad), 1)
                    elif t['style'] == 'url':
                        url = url + b'?' + b'u' * (need - 1)
                        head = hc.request_head(b'GET', url, base_h)
                    else:
                        head = hc.request_head(b'GET', url, base_h + fill_headers(rng, need, t['style']))
                else:
                    head = base
                resp = hc.response_head(200, [(b'Content-Length', b'2'), (b'X-Sim-Ver', b'z' + rid.encode())]) + b'ok'
            else:
                head = hc.request_head(b'GET', url, base_h)
                rbase = hc.response_head(200, [(b'Content-Length', b'2'), (b'X-Sim-Ver', b'z' + rid.encode())])
                need = t['size'] - len(rbase)
                if t['style'] == 'reason' and need >= 40:
                    inline = rng.choice([need, need // 2, need - 13, min(need, 1800)])     # bytes of the excess that go into the reason phrase
                    rest = need - inline
                    if 0 < rest < 12:
                        inline, rest = need, 0
                    hd = [(b'Content-Length', b'2'), (b'X-Sim-Ver', b'z' + rid.encode())] + (fill_headers(rng, rest, 'many') if rest >= 12 else [])
                    rh = hc.response_head(200, hd).replace(b' OK\r\n', b' OK' + b' ' + b'r' * (inline - 1) + b'\r\n', 1)
                else:
                    hd = [(b'Content-Length', b'2'), (b'X-Sim-Ver', b'z' + rid.encode())] + (fill_headers(rng, need, 'one' if t['style'] == 'reason' else t['style']) if need >= 12 else [])
                    rh = hc.response_head(200, hd)
                resp = rh + b'ok'
                expect[rid] = {'which': 'resp', 'size': len(rh)}
            if t['which'] == 'req':
                expect[rid] = {'which': 'req', 'size': len(head)}
            r = srv.sub('rule t%d has %s' % (t['id'], tok(b' /z%d' % t['id'])))
            r.add('send %s seg %s' % (tok(resp), t['seg']))
            cl.add('connect %s %d' % (hc.SQUID_IP, hc.SQUID_PORT))
            cl.add('send %s seg %s%s' % (tok(head), t['seg'], ' pace 0 %d' % t['pace'] if t['pace'] else ''))
            cl.add('expect response timeout 60000000')
            cl.add('close')
        return scn, expect

    def judge(self, plan, expect, hist, o):
        V = o.violations
        stats = {'oversize_requests_judged': 0, 'oversize_replies_judged': 0, 'undersize_forwarded': 0}
        # upstream view by URL marker (an oversize request may have lost its X-Sim-Req header on the way, so look for the target)
        forwarded = {}
        import re
        for sc in hist.server_conns():
            for m in re.finditer(rb' /z(\d+)', hist.from_squid(sc)):
                forwarded[m.group(1).decode()] = forwarded.get(m.group(1).decode(), 0) + 1
        nontrivial = 0
        for cv in hc.client_views(hist):
            m0 = re.search(rb'/z(\d+)', cv.sent_raw[:70000])
            if not m0:
                continue
            rid = m0.group(1).decode()
            e = expect.get(rid)
            if not e:
                continue
            final = cv.finals[0] if cv.finals else None
            if e['which'] == 'req':
                if e['size'] > plan['reqlim'] + BAND:
                    stats['oversize_requests_judged'] += 1; nontrivial += 1
                    if forwarded.get(rid):
                        V.append(Violation('C62:oversize-request-forwarded', 'request %s: head of %d bytes (limit %d) reached the origin' % (rid, e['size'], plan['reqlim'])))
                    if final is not None and final.status not in (414, 431):
                        V.append(Violation('C62:oversize-request-status-%d' % final.status, 'request %s: head of %d bytes (limit %d) answered %d' % (rid, e['size'], plan['reqlim'], final.status)))
                    if final is None and not cv.client_gave_up and not cv.squid_fin and not cv.squid_rst:
                        V.append(Violation('C62:oversize-request-unanswered', 'request %s: head of %d bytes (limit %d) got neither an error nor a close' % (rid, e['size'], plan['reqlim'])))
                elif e['size'] < plan['reqlim'] - BAND and forwarded.get(rid):
                    stats['undersize_forwarded'] += 1
            else:
                if e['size'] > plan['replim'] + BAND:
                    stats['oversize_replies_judged'] += 1; nontrivial += 1
                    if final is not None and final.get(b'x-sim-ver') == b'z' + rid.encode():
                        V.append(Violation('C62:oversize-reply-relayed', 'request %s: origin head of %d bytes (limit %d) was relayed to the client' % (rid, e['size'], plan['replim'])))
                elif e['size'] < plan['replim'] - BAND and final is not None and final.get(b'x-sim-ver') == b'z' + rid.encode():
                    stats['undersize_forwarded'] += 1
        o.stats = stats
        o.nontrivial = nontrivial > 0
        o.sample = {'reqlim': plan['reqlim'], 'replim': plan['replim'], 'txns': [[t['which'], t['size'], t['style'], t['seg']] for t in plan['txns']]}
