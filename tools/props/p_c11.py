"""C11 Responses forbidden to be stored are never served from cache. DESIGN.md §4."""
import random
from framework import Violation
from props import register
from props import httpcommon as hc
from props import cachefam as cf

RESP_FORBID = ['no-store', 'private', 'No-Store', 'PRIVATE', 'max-age=100, no-store', 'no-store, max-age=100', ' private ,max-age=60', 'max-age=3600,private', 'public, no-store',
               'no-store="x"' , 'max-age=60 , no-store', 'must-revalidate, private', 'no-cache, no-store',
               # private with an unquoted or unterminated argument (RFC 9111 5.2.2.7 tells recipients to accept the token form) is still private
               'private=set-cookie, max-age=300', 'max-age=300, private=x', 'PRIVATE=Set-Cookie', 'private="set-cookie', 'private=, max-age=60']
RESP_OK = ['max-age=1000', 'public, max-age=1000', 's-maxage=1000', 'max-age=1000, must-revalidate']
REQ_NOSTORE = ['no-store', 'No-Store', 'max-age=100, no-store', ' no-store', 'no-store, no-transform']

@register
class C11(hc.PProp):
    id = 'C11'
    rule = ('each run = 6-14 URLs, each requested twice (r1, then r2 1-60 s after r1 completed, possibly by another client): the response carries a '
            'Cache-Control value drawn from forbidding forms (no-store / private in varied case, spacing, order, duplicated over two lines) or storable '
            'controls; r1 may carry Cache-Control: no-store or Authorization (with the response lacking / having public, must-revalidate, s-maxage); '
            'default refresh settings. non-trivial = a pair whose first response must not be stored was judged; distinct = history fingerprint')
    quick_runs = 240
    thorough_runs = 5000
    quick_wall = 50
    thorough_wall = 900
    assumptions = ['default squid.conf cache settings (no refresh_pattern overrides)', 'single worker']
    expected_probes = ['forbidden_pairs_judged', 'control_hits']
    sim_limit_s = 3000

    def plan(self, rng, tier, index):
        plan = hc.std_plan(rng, {'cache': rng.choice(['mem', 'mem', 'ufs', 'rock', 'shared']), 'cache_mem_mb': 16, 'lines': []}, hostile=False)
        urls, steps_a, steps_b = [], [], []
        rid = index * 1000
        for u in range(rng.randint(6, 14)):
            mode = rng.choice(['resp', 'resp', 'req_nostore', 'auth', 'auth_ok', 'control'])
            url = {'sizes': [rng.choice([10, 1000, 20000])], 'lm': True, 'mode': mode}
            r1h = []
            if mode == 'resp':
                cc = rng.choice(RESP_FORBID)
                if rng.random() < 0.3 and ',' in cc:
                    a, b = cc.split(',', 1); url['cc'] = a.strip() or 'max-age=9'; url['extra'] = [('Cache-Control', b.strip())]
                else:
                    url['cc'] = cc
            elif mode == 'req_nostore':
                url['cc'] = rng.choice(RESP_OK); r1h = [('Cache-Control', rng.choice(REQ_NOSTORE))]
            elif mode == 'auth':
                url['cc'] = rng.choice(['max-age=1000', None, 'max-age=1000, no-transform', 'proxy-revalidate, max-age=1000', 'max-age=1000, proxy-revalidate', 'max-age=1000, immutable',
                                        'max-age=1000, stale-while-revalidate=60', 'max-age=1000, must-understand', 'Max-Age=1000, PROXY-REVALIDATE']); r1h = [('Authorization', rng.choice(['Basic dXNlcjpwYXNz', 'Bearer abc.def', 'Digest username="u"']))]   # none of these directives permits a shared cache to store it (RFC 9111 3.5: only public, must-revalidate, s-maxage do)
            elif mode == 'auth_ok':
                url['cc'] = rng.choice(['public, max-age=1000', 'max-age=1000, must-revalidate', 's-maxage=1000']); r1h = [('Authorization', 'Basic dXNlcjpwYXNz')]
            else:
                url['cc'] = rng.choice(RESP_OK)
            urls.append(url)
            rid += 2
            s1 = {'id': rid - 1, 'u': u, 'wait': rng.choice([0, 1000, 100000]), 'hdrs': r1h, 'new_conn': rng.random() < 0.3}
            s2 = {'id': rid, 'u': u, 'wait': rng.choice([1000000, 5000000, 60000000]), 'hdrs': [], 'new_conn': rng.random() < 0.3}
            steps_a.append(s1)
            steps_a.append(s2)
        plan['urls'] = urls
        plan['clients'] = [{'name': 'c0', 'steps': steps_a}]
        plan['_lists'] = ['clients.0.steps']
        return plan

    def build(self, plan):
        scn, srv = cf.build_world(self, plan)
        return scn, None

    def judge(self, plan, expect, hist, o):
        V = o.violations
        recs, sent = cf.analyse(hist, plan)
        stats = {'forbidden_pairs_judged': 0, 'control_hits': 0, 'control_pairs': 0}
        by_u = {}
        for r in recs:
            if r.u is not None:
                by_u.setdefault(r.u, []).append(r)
        for u, rs in by_u.items():
            rs.sort(key=lambda r: r.seq_send)
            if len(rs) < 2:
                continue
            r1, r2 = rs[0], rs[1]
            if r1.seq_end > r2.seq_send or not r1.contacts:
                continue
            mode = plan['urls'][u]['mode']
            if not r1.step['hdrs'] and mode in ('req_nostore', 'auth', 'auth_ok'):
                continue   # shrinking removed r1's header: treat as control
            forbidden = mode in ('resp', 'req_nostore', 'auth')
            if forbidden:
                stats['forbidden_pairs_judged'] += 1
                if not r2.contacts:
                    why = {'resp': 'response Cache-Control %r %r' % (plan['urls'][u].get('cc'), plan['urls'][u].get('extra')), 'req_nostore': 'request Cache-Control %r' % (r1.step['hdrs'],),
                           'auth': 'request carried Authorization and the response (%r) does not allow shared caching' % plan['urls'][u].get('cc')}[mode]
                    V.append(Violation('C11:served-from-cache:%s' % mode, 'url %d: second request %s was answered without contacting the origin although the first exchange forbids storing (%s); status %d' % (u, r2.id, why, r2.resp.status)))
            else:
                stats['control_pairs'] += 1
                if not r2.contacts:
                    stats['control_hits'] += 1
        o.stats = stats
        o.nontrivial = stats['forbidden_pairs_judged'] > 0
        o.sample = {'conf': plan['conf']['cache'], 'urls': [[u['mode'], u.get('cc'), u.get('extra')] for u in plan['urls']][:8]}
