"""C01 Response bodies are relayed byte-exactly with correct framing. DESIGN.md §4."""
import simlib
from simlib import Payload, G, tok, chunk_encode
from framework import Prop, Outcome, Violation
from props import register
from props import httpcommon as hc

STATUSES = [200, 200, 200, 200, 203, 206, 301, 404, 410, 500, 503, 204]

def build_origin_wire(t, rng):
    """-> (head bytes, encoded body Payload, plain body Payload)"""
    key = hc.obj_key(t['id'])
    size = t['size']
    status = t['status']
    body = Payload(G(key, 0, size))
    hdrs = [(b'Content-Type', b'application/octet-stream'), (b'X-Sim-Ver', key.encode())]
    if t.get('cc'):
        hdrs.append((b'Cache-Control', t['cc'].encode()))
    if t.get('lm'):
        hdrs.append((b'Last-Modified', b'Sat, 11 Nov 2023 %02d:00:00 GMT' % (t['lm'] % 24)))
    if status == 206:
        hdrs.append((b'Content-Range', b'bytes 0-%d/%d' % (max(size - 1, 0), max(size, 1) + 10)))
    if status == 301:
        hdrs.append((b'Location', b'http://10.0.0.1/elsewhere'))
    for i in range(t.get('nextra', 0)):
        hdrs.append((b'X-Pad-%d' % i, b'p' * rng.randint(1, 200)))
    nobody = status == 204 or t['method'] == 'HEAD'
    if status == 204:
        enc = Payload(); body = Payload()
    elif t['framing'] == 'cl' or t['method'] == 'HEAD':
        hdrs.append((b'Content-Length', str(size).encode()))
        enc = Payload() if nobody else body
    elif t['framing'] == 'chunked':
        hdrs.append((b'Transfer-Encoding', b'chunked'))
        trailers = [(b'X-Trailer', b'tv')] if t.get('trailers') else None
        enc = chunk_encode(body, rng, extensions=t.get('chunkext', False), trailers=trailers)
    else:  # close-delimited
        hdrs.append((b'Connection', b'close'))
        enc = body
    if nobody:
        body = Payload()
    head = hc.response_head(status, hdrs, b'HTTP/1.0' if t.get('origin10') and t['framing'] != 'chunked' else b'HTTP/1.1')
    return head, enc, body

@register
class C01(Prop):
    id = 'C01'
    rule = ('each run = one simulated squid lifetime with 1-4 client connections and 1-12 GET/HEAD transactions on unique URLs; origin '
            'response status/framing/size/segmentation, client pacing, cache configuration and low-level schedule knobs drawn per run; '
            'fault stratum (every 2nd run) adds explicit origin FIN/RST/stall at a byte offset. non-trivial = at least one response with a '
            'non-empty body was relayed and judged; distinct = distinct history fingerprint')
    quick_runs = 360
    thorough_runs = 8000
    quick_wall = 60
    thorough_wall = 1200
    assumptions = ['TCP semantics inside a stream (no loss/reordering); peers are scripted', 'single worker (-N)']
    expected_probes = ['net.write_short', 'fault.net.peer_reset', 'judged_truncated', 'judged_complete']

    def plan(self, rng, tier, index):
        faulty = index % 2 == 1
        plan = {'faulty': faulty, 'sim_seed': rng.getrandbits(48)}
        plan['knobs'] = hc.draw_knobs(rng, hostile=True)
        plan['cache'] = rng.choice(['none', 'mem', 'mem', 'ufs', 'rock', 'shared'])
        plan['conf'] = {'cache': plan['cache'], 'cache_mem_mb': rng.choice([1, 8, 32]), 'lines': ['read_timeout 20 seconds', 'request_timeout 30 seconds']}
        if rng.random() < 0.3:
            plan['conf']['lines'].append('read_ahead_gap %d KB' % rng.choice([1, 16, 64]))
        nclients = rng.randint(1, 4)
        tid = 0
        clients = []
        for ci in range(nclients):
            c = {'name': 'c%d' % ci, 'http10': rng.random() < 0.15, 'start': rng.choice([0, 0, 1000, 50000]), 'txns': []}
            if rng.random() < 0.3:
                c['readpace'] = [rng.choice([100, 1000, 8000]), rng.choice([200, 2000, 20000])]
            c['window'] = rng.choice([2048, 16384, 65536, 262144])
            for _ in range(rng.randint(1, 4 if nclients > 1 else 12)):
                tid += 1
                t = {'id': index * 100 + tid, 'method': 'HEAD' if rng.random() < 0.1 else 'GET', 'status': rng.choice(STATUSES),
                     'framing': rng.choice(['cl', 'cl', 'chunked', 'chunked', 'close']), 'size': hc.pick_size(rng, big_ok=tier == 'thorough' or rng.random() < 0.3),
                     'seg': rng.choice(['rand', 'rand', 'whole', 'byte']) , 'pace': rng.choice([0, 0, 50, 2000]),
                     'nextra': rng.choice([0, 0, 3, 20]), 'chunkext': rng.random() < 0.3, 'trailers': rng.random() < 0.2,
                     'cc': rng.choice(['', 'max-age=100', 'no-store', 'private']), 'origin10': rng.random() < 0.1,
                     'owin': rng.choice([4096, 65536, 65536, 1 << 20])}
                if c.get('readpace'):   # a slow reader must still finish well inside the client's own patience (its expect timeout)
                    t['size'] = min(t['size'], int(c['readpace'][0] * 1e6 / c['readpace'][1] * 60))
                hc.bound_transfer(t, plan['knobs'])
                # some transactions go to a two-address host whose first contacted address answers a complete 502/504 (squid then re-forwards to the other)
                if rng.random() < 0.2 and t['method'] == 'GET':
                    t['retry_status'] = rng.choice([502, 504, 502, 503])
                # an HTTP/1.0 client can only detect truncation of a length-delimited message (the property speaks of HTTP/1.1
                # framing), so faults for those clients are restricted to Content-Length framed origin responses
                if faulty and rng.random() < 0.5 and t['status'] != 204 and t['method'] == 'GET' and (not c['http10'] or t['framing'] == 'cl'):
                    kinds = ['fin', 'rst', 'stall'] if t['framing'] != 'close' else ['rst', 'stall']
                    t['fault'] = {'kind': rng.choice(kinds), 'frac': rng.random()}
                c['txns'].append(t)
            # revalidation stratum: a cacheable response with a short lifetime and a validator is requested again after it went stale; the origin then
            # answers squid's conditional request with a NEW full response (another tagged object) that must be relayed byte-exactly
            if plan['cache'] != 'none' and not faulty and rng.random() < 0.35:
                base = [t for t in c['txns'] if t['method'] == 'GET' and t['status'] == 200 and t['framing'] != 'close' and not t.get('retry_status') and not t.get('fault')]
                if base:
                    b = rng.choice(base)
                    b['cc'] = 'max-age=1'; b['lm'] = 3
                    tid += 1
                    t2 = dict(b); t2.update({'id': index * 100 + tid, 'reval_of': b['id'], 'lm': 9, 'cc': 'max-age=1000', 'size': hc.pick_size(rng, big_ok=False), 'framing': rng.choice(['cl', 'chunked']),
                                             'wait': 2500000})
                    if c.get('readpace'):
                        t2['size'] = min(t2['size'], int(c['readpace'][0] * 1e6 / c['readpace'][1] * 60))
                    hc.bound_transfer(t2, plan['knobs'])
                    c['txns'].append(t2)
                    if rng.random() < 0.6:
                        plan['conf']['lines'].append('maximum_object_size_in_memory 0 KB')   # the stale copy then lives on disk only (where there is a cache_dir)
            clients.append(c)
        plan['clients'] = clients
        plan['_lists'] = ['clients'] + ['clients.%d.txns' % i for i in range(len(clients))]
        plan['_simplify'] = {'knobs': hc.SIMPLE_KNOBS}
        return plan

    def build(self, plan):
        import random
        scn = simlib.Scn(plan['sim_seed'])
        scn.conf = hc.make_conf(plan['conf'])
        scn.limits['simtime_s'] = 1200
        hc.apply_knobs(scn, plan['knobs'])
        scn.knob('peer.expect_timeout_us', 200000000)
        srv = scn.server('o1', '10.0.0.1', 80)
        multi = [scn.server('m1', '10.0.0.11', 80), scn.server('m2', '10.0.0.12', 80)]
        d = scn.dns(); d.add('host multi.test 1 addrs 10.0.0.11,10.0.0.12'); d.add('host multi.test 28 addrs -')
        if any(t.get('retry_status') == 503 for c in plan['clients'] for t in c['txns']):
            scn.conf = scn.conf.replace('http_access allow all', 'retry_on_error on\nhttp_access allow all')
        expect = {}
        ordered = [(c, t) for c in plan['clients'] for t in c['txns']]
        ordered.sort(key=lambda ct: 0 if ct[1].get('reval_of') else 1)      # rules of revalidation transactions come first: they match on the request id
        for c, t in ordered:
            if True:
                rng = random.Random(t['id'])
                head, enc, body = build_origin_wire(t, rng)
                wire = Payload(head, enc)
                targets = [srv]
                if t.get('retry_status'):
                    targets = multi
                    ebody = Payload(G('e%07d' % (t['id'] % 10000000), 0, 300))
                    ewire = Payload(hc.response_head(t['retry_status'], [(b'Content-Length', b'300'), (b'X-Sim-Ver', b'e%d' % t['id'])]), ebody)
                    for m in multi:
                        r0 = m.sub('rule e%d when tried%d= has %s' % (t['id'], t['id'], tok(b' /o%d ' % t['id'])))
                        r0.add('expect body'); r0.add('set tried%d 1' % t['id']); r0.add('send %s seg whole' % ewire.token())
                segopt = ' seg %s' % t['seg'] + (' pace 0 %d' % t['pace'] if t['pace'] else '')
                f = t.get('fault')
                info = {'body': body, 'status': t['status'], 'method': t['method'], 'fault': None, 'framing': t['framing'], 'retry_status': t.get('retry_status')}
                for srv_t in targets:
                    r = srv_t.sub('rule t%d has %s' % (t['id'], tok(b' /o%d ' % t['id']) if not t.get('reval_of') else tok(b'X-Sim-Req: %d\r\n' % t['id'])))
                    r.add('expect body')
                    if f:
                        # cut strictly inside the encoded body (never at its very end, never before the head ends unless body empty)
                        lo, hi = len(head), len(wire) - 1
                        if hi <= lo:
                            cut = max(1, len(head) // 2)
                        else:
                            cut = lo + int(f['frac'] * (hi - lo))
                        r.add('send %s%s' % (wire.slice(0, cut).token(), segopt))
                        r.add({'fin': 'close', 'rst': 'reset', 'stall': 'stall'}[f['kind']])
                        info['fault'] = f['kind']; info['cut'] = cut
                    else:
                        r.add('send %s%s' % (wire.token(), segopt))
                        if t['framing'] == 'close' and t['status'] != 204 and t['method'] != 'HEAD':
                            r.add('close')
                expect[t['id']] = info
        for c in plan['clients']:
            cl = scn.client(c['name'], start=c['start'], window=c['window'])
            if c.get('readpace'):
                pass
            need_connect = True
            for t in c['txns']:
                if need_connect:
                    cl.add('connect %s %d' % (hc.SQUID_IP, hc.SQUID_PORT))
                    if c.get('readpace'):
                        cl.add('readpace %d %d' % tuple(c['readpace']))
                    need_connect = False
                ver = b'HTTP/1.0' if c['http10'] else b'HTTP/1.1'
                host = b'multi.test' if t.get('retry_status') else b'10.0.0.1'
                hdrs = [(b'Host', host), (b'X-Sim-Req', str(t['id']).encode())]
                if c['http10']:
                    hdrs.append((b'Connection', b'keep-alive'))
                if t.get('wait'):
                    cl.add('wait %d' % t['wait'])
                req = hc.request_head(t['method'].encode(), b'http://' + host + b'/o%d' % (t.get('reval_of') or t['id']), hdrs, ver)
                cl.add('send %s seg whole' % tok(req))
                cl.add('expect %s timeout 200000000' % ('response-nobody' if t['method'] == 'HEAD' else 'response'))
                # a connection that may have been closed by squid cannot be reused by the script
                if t['framing'] == 'close' or t.get('fault') or c['http10'] or t['framing'] == 'chunked':
                    cl.add('close'); need_connect = True
        return scn, expect

    def execute(self, plan, workdir):
        scn, expect = self.build(plan)
        hist = simlib.run_squid(scn, workdir)
        return self.judge(plan, expect, hist)

    def judge(self, plan, expect, hist):
        o = hc.base_outcome(hist)
        if o.infra:
            return o
        for p in hist.health_problems():
            o.notes.append('health (see C09/C08): ' + p)
        stats = {'judged_complete': 0, 'judged_truncated': 0, 'judged_error': 0, 'bytes_compared': 0}
        V = o.violations
        nbodies = 0
        for cv in hc.client_views(hist):
            if cv.resp_err:
                V.append(Violation('C01:malformed-client-framing', 'conn %d: %s' % (cv.conn.id, cv.resp_err)))
                continue
            ids = [int(x) for x in cv.req_ids() if x is not None]
            if len(cv.finals) > len(ids):
                V.append(Violation('C01:extra-response', 'conn %d: %d responses for %d requests' % (cv.conn.id, len(cv.finals), len(ids))))
            for k, rid in enumerate(ids):
                e = expect.get(rid)
                if e is None:
                    continue
                exp_body = e['body'].bytes()
                if k >= len(cv.finals):
                    if not e['fault'] and not plan['faulty']:
                        V.append(Violation('C01:missing-response', 'request %d on conn %d got no response (fault-free run)' % (rid, cv.conn.id)))
                    continue
                m = cv.finals[k]
                if e.get('retry_status') and m.status == e['retry_status'] and (m.get(b'x-sim-ver') or b'').startswith(b'e'):
                    # squid chose to relay the first destination's (complete) error response: judge it as the origin response it is
                    ebody = simlib.gen_bytes('e%07d' % (rid % 10000000), 0, 300)
                    if m.complete and m.body != ebody:
                        V.append(Violation('C01:body-altered', 'request %d: relayed %d response body differs: %s' % (rid, m.status, hc.diff_desc(m.body, ebody))))
                    stats['judged_complete'] += 1
                    continue
                if hc.is_squid_error(m):
                    stats['judged_error'] += 1
                    if not e['fault']:
                        V.append(Violation('C01:error-without-fault', 'request %d: squid answered %d %s although the origin response was complete' % (rid, m.status, m.get(b'x-squid-error'))))
                    continue
                if m.complete:
                    stats['judged_complete'] += 1
                    stats['bytes_compared'] += len(m.body)
                    if e['method'] == 'HEAD' or e['status'] in (204,):
                        if m.body:
                            V.append(Violation('C01:body-on-bodiless', 'request %d: %d body bytes on a %s/%d response' % (rid, len(m.body), e['method'], e['status'])))
                    elif m.body != exp_body:
                        what = hc.diff_desc(m.body, exp_body)
                        cls = 'C01:truncated-presented-complete' if exp_body.startswith(m.body) else 'C01:body-altered'
                        V.append(Violation(cls, 'request %d (origin fault=%s framing=%s size=%d, client framing=%s): %s' % (rid, e['fault'], e['framing'], len(exp_body), m.framing, what)))
                    elif len(exp_body) > 0:
                        nbodies += 1
                    if m.status != e['status'] and not e['fault']:
                        V.append(Violation('C01:status-changed', 'request %d: origin %d, client saw %d' % (rid, e['status'], m.status)))
                elif cv.client_gave_up:
                    stats['client_gave_up'] = stats.get('client_gave_up', 0) + 1   # the scripted client timed out and closed first: nothing to judge
                else:
                    stats['judged_truncated'] += 1
                    if not exp_body.startswith(m.body):
                        V.append(Violation('C01:body-altered', 'request %d: partial body is not a prefix of the origin body: %s' % (rid, hc.diff_desc(m.body, exp_body))))
                    if not e['fault']:
                        V.append(Violation('C01:truncated-without-fault', 'request %d: response incomplete (%d of %d body bytes, framing %s) although the origin sent everything' % (rid, len(m.body), len(exp_body), m.framing)))
        o.stats = stats
        o.nontrivial = nbodies > 0
        o.sample = {'cache': plan['cache'], 'faulty': plan['faulty'], 'knobs': plan['knobs'],
                    'txns': [[t['method'], t['status'], t['framing'], t['size'], (t.get('fault') or {}).get('kind')] for c in plan['clients'] for t in c['txns']][:8]}
        return o
