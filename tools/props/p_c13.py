"""C13 Vary: a stored variant is served only to matching requests. DESIGN.md §4."""
import random, re
from framework import Violation
from props import register
from props import httpcommon as hc
from props import cachefam as cf

NAMES = ['Accept-Language', 'Accept-Encoding', 'User-Agent', 'X-Var', 'Cookie', 'Accept']
VALUES = [None, '', 'en', 'EN', 'en, fr', 'fr', 'gzip', 'gzip;q=1.0, identity', 'a=b; c=d', 'x"y', 'a%20b', 'a b', 'ümlaut'.encode('utf-8').decode('latin-1'), 'A' * 200]

def norm(values):
    """RFC 9111 4.1 normalisation: field lines joined with a comma, OWS around list separators removed"""
    if not values:
        return None
    return ','.join(p.strip() for v in values for p in v.split(','))

@register
class C13(hc.PProp):
    id = 'C13'
    rule = ('each run = 3-6 cacheable URLs whose responses carry Vary lists over a pool of 6 header names (random case, order, repeats) or Vary: *; every full origin '
            'response is a unique version, so a cached body names the one request that stored it; 8-30 requests with values for the nominated '
            'headers drawn from a small pool (absent, empty, case variants, lists, quotes, spaces, 8-bit, long) possibly split over two field lines. '
            'non-trivial = a response served without contacting the origin for a URL with Vary was judged; distinct = history fingerprint')
    quick_runs = 240
    thorough_runs = 5000
    quick_wall = 50
    thorough_wall = 900
    assumptions = ['matching = equality of the nominated header values after joining repeated field lines with a comma and trimming OWS around list members (RFC 9111 4.1), nothing more']
    expected_probes = ['vary_hits_judged', 'vary_star_requests']
    sim_limit_s = 3000

    def plan(self, rng, tier, index):
        plan = hc.std_plan(rng, {'cache': rng.choice(['mem', 'mem', 'ufs', 'rock', 'shared']), 'cache_mem_mb': 16, 'lines': []}, hostile=False)
        urls = []
        for u in range(rng.randint(3, 6)):
            r = rng.random()
            if r < 0.12:
                vary, names = '*', []
            elif r < 0.2:
                vary, names = None, []
            else:
                names = rng.sample(NAMES, rng.randint(1, 3))
                parts = [n.upper() if rng.random() < 0.2 else (n.lower() if rng.random() < 0.3 else n) for n in names]
                if rng.random() < 0.2:
                    parts.append(parts[0])
                vary = rng.choice([', ', ',', ' , ']).join(parts)
            url = {'sizes': [rng.choice([10, 3000, 40000])], 'lm': True, 'cc': 'max-age=100000', 'vary': vary, 'names': names, 'bump_on_serve': True, 'nver': 40}
            if names and rng.random() < 0.3:
                # the origin's Vary list grows (or becomes *) from some version on: variants stored later must be matched on the list THEY carry
                more = [n for n in NAMES if n not in names]
                n2 = names + rng.sample(more, rng.randint(1, min(2, len(more))))
                url['vary_switch'] = [rng.randint(2, 4), rng.choice([', '.join(n2), ', '.join(n2), '*'])]
                url['names2'] = n2
            urls.append(url)
        plan['urls'] = urls
        pools = {n: rng.sample(VALUES, rng.randint(2, 4)) for n in NAMES}
        steps = []
        rid = index * 1000
        for k in range(rng.randint(8, 30)):
            rid += 1
            u = rng.randrange(len(urls))
            hd = []
            for n in NAMES:
                if rng.random() < 0.7:
                    v = rng.choice(pools[n])
                    if v is None:
                        continue
                    if ', ' in v and rng.random() < 0.4:
                        for part in v.split(', '):
                            hd.append((n, part))
                    else:
                        hd.append((n if rng.random() < 0.8 else n.lower(), v))
            steps.append({'id': rid, 'u': u, 'wait': rng.choice([0, 1000, 500000]), 'hdrs': hd, 'new_conn': rng.random() < 0.3})
        plan['clients'] = [{'name': 'c0', 'steps': steps}]
        plan['_lists'] = ['clients.0.steps']
        return plan

    def build(self, plan):
        scn, srv = cf.build_world(self, plan)
        return scn, None

    def judge(self, plan, expect, hist, o):
        V = o.violations
        recs, sent = cf.analyse(hist, plan)
        stats = {'vary_hits_judged': 0, 'vary_star_requests': 0, 'hits_total': 0}
        # which client request caused the origin to send version (u, v)
        storer = {}
        for r in recs:
            for c in r.contacts:
                m = re.match(r'full_(\d+)_(\d+)$', c['rule'])
                if m:
                    storer[(int(m.group(1)), int(m.group(2)))] = r
        def values(step, name):
            return norm([v for k, v in step['hdrs'] if k.lower() == name.lower()])
        for r in recs:
            if r.u is None or hc.is_squid_error(r.resp) or r.resp.status != 200:
                continue
            url = plan['urls'][r.u]
            if url['vary'] == '*':
                stats['vary_star_requests'] += 1
            if r.contacts:
                continue
            stats['hits_total'] += 1
            if url['vary'] is None:
                continue
            if r.ver is not None and url.get('vary_switch') and r.ver >= url['vary_switch'][0]:
                url = dict(url, vary=url['vary_switch'][1], names=url['names2'])   # judge by the Vary list of the version that was served
            if url['vary'] == '*':
                V.append(Violation('C13:vary-star-served-from-cache', 'request %s for url %d (Vary: *) was answered without contacting the origin' % (r.id, r.u)))
                continue
            if r.ver is None or (r.u, r.ver) not in storer:
                continue
            s = storer[(r.u, r.ver)]
            stats['vary_hits_judged'] += 1
            for n in url['names']:
                a, b = values(s.step, n), values(r.step, n)
                if a != b:
                    V.append(Violation('C13:variant-mismatch', 'request %s for url %d (Vary: %s) was served the variant stored by request %s, but %s differs: stored %r, this request %r' % (r.id, r.u, url['vary'], s.id, n, a, b)))
                    break
        o.stats = stats
        o.nontrivial = stats['vary_hits_judged'] > 0 or stats['vary_star_requests'] > 0
        o.sample = {'urls': [u['vary'] for u in plan['urls']], 'first_steps': [[s['u'], s['hdrs']] for s in plan['clients'][0]['steps'][:4]]}
