"""C02 Request bodies reach the origin byte-exactly with valid framing. DESIGN.md §4."""
import random
import simlib
from simlib import Payload, G, tok, chunk_encode
from framework import Violation
from props import register
from props import httpcommon as hc

@register
class C02(hc.PProp):
    id = 'C02'
    rule = ('each run = one squid lifetime, 1-3 client connections with 1-6 POST/PUT transactions each; body framing (Content-Length / chunked '
            'with random chunk sizes, extensions, trailers), sizes 0..2 MB, client segmentation/pacing, Expect: 100-continue, origin read pacing '
            '(back-pressure) drawn per run; every 2nd run adds explicit faults (client abort mid-body, origin close mid-body, early 413). '
            'non-trivial = at least one non-empty request body reached the origin completely and was compared; distinct = history fingerprint')
    quick_runs = 300
    thorough_runs = 8000
    quick_wall = 50
    thorough_wall = 1200
    assumptions = ['TCP semantics inside a stream; scripted peers', 'single worker (-N)']
    expected_probes = ['bodies_compared', 'upstream_incomplete', 'net.write_short']

    def plan(self, rng, tier, index):
        faulty = index % 2 == 1
        plan = hc.std_plan(rng, {'cache': 'none', 'lines': ['read_timeout 20 seconds', 'request_timeout 30 seconds']})
        plan['faulty'] = faulty
        if rng.random() < 0.3:
            plan['conf']['lines'].append('client_request_buffer_max_size %d KB' % rng.choice([128, 512]))
        clients = []
        tid = 0
        for ci in range(rng.randint(1, 3)):
            c = {'name': 'c%d' % ci, 'start': rng.choice([0, 0, 2000]), 'window': rng.choice([4096, 65536, 262144]), 'txns': []}
            for _ in range(rng.randint(1, 6)):
                tid += 1
                t = {'id': index * 100 + tid, 'method': rng.choice(['POST', 'POST', 'PUT']), 'framing': rng.choice(['cl', 'chunked']),
                     'size': hc.pick_size(rng, big_ok=tier == 'thorough' or rng.random() < 0.25, max_size=2000000),
                     'seg': rng.choice(['rand', 'rand', 'whole', 'byte']), 'pace': rng.choice([0, 0, 100, 3000]),
                     'expect100': rng.random() < 0.25, 'origin100': rng.random() < 0.7, 'chunkext': rng.random() < 0.3, 'trailers': rng.random() < 0.15,
                     'split_head_body': rng.random() < 0.5, 'oread': rng.choice([None, None, [512, 300], [4096, 2000], [100, 100]]),
                     'status': rng.choice([200, 200, 201, 204, 404])}
                hc.bound_transfer(t, plan['knobs'])
                if faulty and rng.random() < 0.45:
                    t['fault'] = {'kind': rng.choice(['client_close', 'client_reset', 'origin_close', 'origin_early413']), 'frac': rng.random()}
                c['txns'].append(t)
            clients.append(c)
        plan['clients'] = clients
        plan['_lists'] = ['clients'] + ['clients.%d.txns' % i for i in range(len(clients))]
        return plan

    def build(self, plan):
        scn = self.new_scn(plan)
        scn.knob('peer.expect_timeout_us', 150000000)
        srv = scn.server('o1', '10.0.0.1', 80)
        expect = {}
        for c in plan['clients']:
            cl = scn.client(c['name'], start=c['start'], window=c['window'])
            need_connect = True
            for t in c['txns']:
                rng = random.Random(t['id'])
                key = hc.obj_key(t['id'])
                body = Payload(G(key, 0, t['size']))
                hdrs = [(b'Host', b'10.0.0.1'), (b'X-Sim-Req', str(t['id']).encode()), (b'Content-Type', b'application/octet-stream')]
                if t['framing'] == 'cl':
                    hdrs.append((b'Content-Length', str(t['size']).encode())); enc = body
                else:
                    hdrs.append((b'Transfer-Encoding', b'chunked'))
                    enc = chunk_encode(body, rng, extensions=t['chunkext'], trailers=[(b'X-Tr', b'1')] if t['trailers'] else None)
                if t['expect100']:
                    hdrs.append((b'Expect', b'100-continue'))
                head = hc.request_head(t['method'].encode(), b'http://10.0.0.1/u%d' % t['id'], hdrs)
                f = t.get('fault')
                expect[str(t['id'])] = {'body': body, 'fault': f['kind'] if f else None}
                # ---- origin side
                r = srv.sub('rule t%d has %s' % (t['id'], tok(b' /u%d ' % t['id'])))
                if t['oread']:
                    r.add('readpace %d %d' % tuple(t['oread']))
                resp = hc.response_head(t['status'], [(b'Content-Length', b'0' if t['status'] == 204 else b'2'), (b'X-Sim-Ver', key.encode())]) + (b'' if t['status'] == 204 else b'ok')
                if f and f['kind'] == 'origin_early413':
                    r.add('send %s seg whole' % tok(hc.response_head(413, [(b'Content-Length', b'0'), (b'Connection', b'close')])))
                    r.add('close')
                elif f and f['kind'] == 'origin_close':
                    n = int(f['frac'] * len(enc))
                    if n:
                        r.add('expect bytes %d' % n)
                    r.add('close')
                else:
                    if t['expect100'] and t['origin100']:
                        r.add('send %s seg whole' % tok(b'HTTP/1.1 100 Continue\r\n\r\n'))
                    r.add('expect body')
                    r.add('readpace 0 0')
                    r.add('send %s' % tok(resp))
                # ---- client side
                if need_connect:
                    cl.add('connect %s %d' % (hc.SQUID_IP, hc.SQUID_PORT)); need_connect = False
                segopt = ' seg %s' % t['seg'] + (' pace 0 %d' % t['pace'] if t['pace'] else '')
                if f and f['kind'] in ('client_close', 'client_reset'):
                    cut = int(f['frac'] * max(len(enc) - 1, 0))
                    cl.add('send %s%s' % (Payload(head, enc.slice(0, cut)).token(), segopt))
                    cl.add('wait %d' % rng.choice([0, 1000, 50000]))
                    cl.add('close' if f['kind'] == 'client_close' else 'reset')
                    need_connect = True
                    continue
                if t['expect100']:
                    cl.add('send %s seg whole' % tok(head))
                    cl.add('expect head timeout 1500000 soft')
                    cl.add('send %s%s' % (enc.token(), segopt))
                elif t['split_head_body']:
                    cl.add('send %s seg whole' % tok(head))
                    cl.add('send %s%s' % (enc.token(), segopt))
                else:
                    cl.add('send %s%s' % (Payload(head, enc).token(), segopt))
                cl.add('expect response timeout 150000000')
                if f or t['expect100']:
                    cl.add('close'); need_connect = True
        return scn, expect

    def judge(self, plan, expect, hist, o):
        V = o.violations
        stats = {'bodies_compared': 0, 'upstream_incomplete': 0, 'bytes_compared': 0, 'requests_upstream': 0}
        nontrivial = 0
        seen_complete = set()
        for sv in hc.server_views(hist):
            if sv.err:
                V.append(Violation('C02:malformed-upstream-framing', 'upstream conn %d: %s' % (sv.conn.id, sv.err)))
                continue
            for r in sv.reqs:
                if getattr(r, 'partial_head', False):
                    continue
                rid = (r.get(b'x-sim-req') or b'').decode()
                e = expect.get(rid)
                if e is None:
                    continue
                stats['requests_upstream'] += 1
                exp = e['body'].bytes()
                if r.n_cl > 1 or (r.n_cl and r.has_te):
                    V.append(Violation('C02:ambiguous-upstream-framing', 'request %s: %d Content-Length fields, TE=%s' % (rid, r.n_cl, r.has_te)))
                if r.complete:
                    stats['bodies_compared'] += 1; stats['bytes_compared'] += len(r.body)
                    if r.body != exp:
                        cls = 'C02:shortened-body-in-complete-framing' if exp.startswith(r.body) else 'C02:body-altered'
                        V.append(Violation(cls, 'request %s (%s upstream, fault=%s): %s' % (rid, r.framing, e['fault'], hc.diff_desc(r.body, exp))))
                    else:
                        seen_complete.add(rid)
                        if exp:
                            nontrivial += 1
                else:
                    stats['upstream_incomplete'] += 1
                    if not exp.startswith(r.body):
                        V.append(Violation('C02:body-altered', 'request %s: partial upstream body is not a prefix: %s' % (rid, hc.diff_desc(r.body, exp))))
                    if not e['fault'] and not plan['faulty']:
                        V.append(Violation('C02:incomplete-without-fault', 'request %s: only %d of %d body bytes reached the origin in a fault-free run' % (rid, len(r.body), len(exp))))
            if sv.left and not sv.err and sv.reqs and sv.reqs[-1].complete:
                V.append(Violation('C02:stray-upstream-bytes', 'upstream conn %d: %d bytes after the last complete request: %r' % (sv.conn.id, len(sv.left), sv.left[:60])))
        if not plan['faulty']:
            for cv in hc.client_views(hist):
                for rid in cv.req_ids():
                    if rid is not None and rid.decode() in expect and rid.decode() not in seen_complete and not cv.client_gave_up:
                        V.append(Violation('C02:request-never-delivered', 'request %s never reached the origin completely in a fault-free run' % rid.decode()))
        o.stats = stats
        o.nontrivial = nontrivial > 0
        o.sample = {'faulty': plan['faulty'], 'knobs': plan['knobs'],
                    'txns': [[t['method'], t['framing'], t['size'], t['expect100'], (t.get('fault') or {}).get('kind')] for c in plan['clients'] for t in c['txns']][:8]}
