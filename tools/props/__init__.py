"""Property checks. Each module registers Prop subclasses."""
import importlib, os, pkgutil
_REG = {}
def register(cls):
    _REG[cls.id] = cls
    return cls
def get(pid):
    _load()
    return _REG[pid]()
def all_ids():
    _load()
    return sorted(_REG)
_loaded = False
def _load():
    global _loaded
    if _loaded:
        return
    _loaded = True
    for m in pkgutil.iter_modules([os.path.dirname(__file__)]):
        if m.name.startswith('p_'):
            importlib.import_module('props.' + m.name)
