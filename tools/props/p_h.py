"""Engine H checks (harness actors inside the real squid process, sim/h_*.cc): C21 C23 C24 C51 C59 C44. DESIGN.md §3.4/§4.

One plan = one simsquid process that executes MANY cases from <rundir>/cases.txt. A plan normally only carries a generator seed
(cases are re-derived from it); after a failure the shrinker replaces it by the explicit failing case and then shrinks that case's input.
Expectations are always computed from the case input itself (reference decoders/models below), never stored with the case, so
deleting bytes/operations while shrinking cannot leave a stale expectation behind (the optional 'canon' label is dropped on edit)."""
import re, copy, random, hashlib
import simlib
from framework import Prop, Outcome, Violation
from props import register
from props import httpcommon as hc

H_COMPONENTS = {
    'real_code': 'the full squid binary recompiled from /repo, initialised by its own main() with a generated squid.conf; the harness actor '
                 '(sim/h_engine.cc, sim/h_loop.cc) is linked into it and calls the real classes named in the rule',
    'simulated_stubs': 'kernel clock/epoll/sockets (ld --wrap); the harness plays the caller of the class under test (the byte source and '
                       'read() segmentation, the output buffer owner, the clock, the asynchronous lookup service)',
    'not_run': 'network peers, client/server transaction code around the class under test',
}

def fnv(b):
    h = 0xcbf29ce484222325
    for c in b:
        h = ((h ^ c) * 0x100000001b3) & 0xffffffffffffffff
    return h

def parse_field(s):
    """'<len>:<fnv>:<hexprefix>' -> (len, hash, prefix bytes)"""
    a, b, c = s.split(':', 2)
    return int(a), int(b, 16), bytes.fromhex(c)

def field_is(s, expected):
    n, h, _ = parse_field(s)
    return n == len(expected) and h == fnv(expected)

def brief(b, n=120):
    return simlib.short(b, n)

class HProp(Prop):
    engine = 'H'
    components = H_COMPONENTS
    mode = 'h:none'
    mode_args = ''
    quick_runs = 12
    thorough_runs = 400
    quick_wall = 35
    thorough_wall = 600
    cases_quick = 1000
    cases_thorough = 4000
    assumptions = ['cases are sampled, not enumerated; segmentations/schedules per case: all 2-way splits and byte-wise delivery for short '
                   'inputs plus seeded random ones', 'single process, single thread']

    # ---- to be provided by subclasses
    def draw_conf(self, rng, tier, index):
        return {}
    def conf_lines(self, plan):
        return []
    def gen_cases(self, rng, n, plan):
        raise NotImplementedError
    def case_line(self, case):
        raise NotImplementedError
    def judge_case(self, case, recs, plan, meta):
        """recs: list of (kind, fields) history records of this case in order. -> list of Violation, nontrivial(bool)"""
        raise NotImplementedError
    def shrink_case(self, case):
        """yield smaller variants of one case"""
        return []
    def describe_case(self, case):
        return self.case_line(case)[:300]

    # ---- plan / cases
    def plan(self, rng, tier, index):
        p = {'gen_seed': rng.getrandbits(48), 'sim_seed': rng.getrandbits(48), 'n': self.cases_quick if tier == 'quick' else self.cases_thorough,
             'tier': tier, 'index': index}
        p.update(self.draw_conf(rng, tier, index))
        return p

    def cases_of(self, plan):
        if 'cases' in plan:
            return plan['cases']
        return self.gen_cases(random.Random(plan['gen_seed']), plan['n'], plan)

    def build(self, plan, cases):
        scn = simlib.Scn(plan['sim_seed'])
        scn.conf = hc.make_conf({'cache': 'none', 'lines': self.conf_lines(plan)})
        scn.limits['simtime_s'] = 4000000000
        scn.limits['events'] = 400000000
        scn.limits['wall_s'] = 900
        scn.knob('clock.tick_us', 0, 0)   # the harness alone moves the clock
        scn.line(('mode %s %s' % (self.mode, self.mode_args_of(plan))).strip())
        scn.extra_files['cases.txt'] = ('\n'.join(self.case_line(c) for c in cases) + '\n').encode('latin-1')
        return scn

    def mode_args_of(self, plan):
        return self.mode_args

    # ---- run + judge
    def execute(self, plan, workdir):
        cases = self.cases_of(plan)
        scn = self.build(plan, cases)
        hist = simlib.run_squid(scn, workdir, timeout=900)
        o = Outcome()
        o.fp = hist.fingerprint()
        o.probes = dict(hist.probes)
        o.simsec = 0.0
        if not hist.life_has('first_idle'):
            o.infra = 'squid did not reach its main loop: rc=%s end=%s out=%s log=%s' % (hist.rc, hist.end, hist.output[-300:], hist.cache_log()[-600:])
            return o
        if hist.end == 'no-harness':
            o.infra = 'harness %s is not linked into simsquid' % self.mode
            return o
        by_case = {}
        meta = {}
        order = []
        errors = []
        for (seq, t, kind, rest) in hist.events:
            if kind == 'META':
                for kv in rest[1:]:
                    if '=' in kv:
                        k, v = kv.split('=', 1)
                        meta[k] = v
            elif kind == 'ERROR':
                errors.append(' '.join(rest))
            elif kind in self.case_record_kinds and rest:
                if rest[0] not in by_case:
                    by_case[rest[0]] = []
                    order.append(rest[0])
                by_case[rest[0]].append((kind, rest[1:], seq, t))
        if errors:
            o.infra = 'harness error: ' + errors[0]
            return o
        V = o.violations
        failed = {}     # violation class -> ids of the first cases showing it (used by shrink_steps)
        distinct = set()
        nontrivial = 0
        crashed = hist.end != 'harness-done' or hist.rc != 0
        first_unfinished = None
        for c in cases:
            recs = by_case.get(c['id'])
            if not recs or not self.case_complete(recs):
                if first_unfinished is None:
                    first_unfinished = c
                if crashed:
                    break
                continue
            vs, nt = self.judge_case(c, recs, plan, meta)
            if vs:
                for v in vs:
                    ids = failed.setdefault(v.cls, [])
                    if len(ids) < 2 and c['id'] not in ids:
                        ids.append(c['id'])
                V.extend(vs)
            key = hashlib.sha1(self.case_line(c).split(' ', 1)[-1].encode('latin-1')).digest()
            if nt and key not in distinct:
                distinct.add(key)
                nontrivial += 1
        if crashed:
            # the process died (assertion, sanitizer, signal) or was stopped while running a case: that case is the finding
            c = first_unfinished
            probs = hist.health_problems()
            if c is None or hist.end in ('limit-wall', 'limit-events', 'limit-simtime'):
                o.infra = 'run ended with %s rc=%s after %d cases: %s' % (hist.end, hist.rc, len(order), probs)
                return o
            failed.setdefault(self.id + ':process-died', []).append(c['id'])
            what = '; '.join(probs) or ('end=%s rc=%s' % (hist.end, hist.rc))
            V.append(Violation(self.id + ':process-died', 'case %s %s: %s log=%s' % (c['id'], self.describe_case(c), what, hist.cache_log()[-300:].replace('\n', ' | '))))
        elif first_unfinished is not None:
            failed.setdefault(self.id + ':case-without-result', []).append(first_unfinished['id'])
            V.append(Violation(self.id + ':case-without-result', 'case %s %s produced no complete result' % (first_unfinished['id'], self.describe_case(first_unfinished))))
        if failed:
            plan['_failed'] = failed
        o.nontrivial = nontrivial > 0
        o.stats = {'distinct_cases': nontrivial, 'cases': len(order)}
        for k in ('h.schedules', 'h.ops', 'h.loops', 'h.lookups', 'h.checklists', 'h.fired'):
            if k in hist.probes:
                o.stats[k[2:]] = hist.probes[k]
        o.sig = hashlib.sha1(('%s|%s' % (sorted(meta.items()), o.fp)).encode()).hexdigest()[:16]
        o.sample = {'conf': self.conf_lines(plan), 'mode': ('%s %s' % (self.mode, self.mode_args_of(plan))).strip(), 'cases': [self.describe_case(c) for c in cases[:3]]}
        return o

    case_record_kinds = ('RES', 'VIOL')
    def case_complete(self, recs):
        return any(r[0] == 'RES' for r in recs)

    def harness_violations(self, case, recs):
        out = []
        for (kind, f, seq, t) in recs:
            if kind == 'VIOL':
                out.append(Violation('%s:%s' % (self.id, f[0]), 'case %s input=%s %s' % (case['id'], self.describe_case(case), ' '.join(f[1:])[:700])))
        return out

    # ---- shrinking: 1. the failing case alone; 2. smaller inputs of that case
    def shrink_steps(self, plan):
        if 'cases' not in plan or len(plan['cases']) > 1:
            cases = self.cases_of(plan)
            want = []
            for cls in sorted(plan.get('_failed') or {}):
                for cid in plan['_failed'][cls]:
                    if cid not in want:
                        want.append(cid)
            by_id = {c['id']: c for c in cases}
            for cid in want[:40]:
                for c in [by_id.get(cid)]:
                    if c is not None:
                        cand = {k: v for k, v in plan.items() if k not in ('_failed', 'cases')}
                        cand['cases'] = [copy.deepcopy(c)]
                        yield cand, ('only-case', cid)
            return
        case = plan['cases'][0]
        for small in self.shrink_case(case):
            cand = {k: v for k, v in plan.items() if k not in ('_failed', 'cases')}
            small.pop('canon', None)
            cand['cases'] = [small]
            yield cand, ('shrink-case',)

def shrink_bytes(data, max_cands=160):
    """ddmin-style candidates: delete aligned blocks of halving size, then simplify single bytes"""
    n = len(data)
    out = []
    size = n // 2
    while size >= 1 and len(out) < max_cands:
        for a in range(0, n, size):
            if len(out) >= max_cands:
                break
            cand = data[:a] + data[a + size:]
            if cand != data:
                out.append(cand)
        size //= 2
    for i in range(n):
        if len(out) >= max_cands + 40:
            break
        if data[i:i + 1] not in (b'a', b'\r', b'\n', b' '):
            out.append(data[:i] + b'a' + data[i + 1:])
    return out

def shrink_hex_case(case):
    data = bytes.fromhex(case['hex'])
    for cand in shrink_bytes(data):
        c = dict(case)
        c['hex'] = cand.hex()
        yield c

def pick(rng, items):
    """items: list of (weight, value)"""
    total = sum(w for w, _ in items)
    x = rng.random() * total
    for w, v in items:
        x -= w
        if x < 0:
            return v
    return items[-1][1]

INTERESTING = [b'\r', b'\n', b'\r\n', b' ', b'\t', b'\x0b', b'\x0c', b'\x00', b':', b'/', b'H', b'HTTP/1.1', b'\xff', b'"', b'\\', b';', b'=', b'0', b'x', b'a']

def mutate(rng, data, rounds=None):
    data = bytearray(data)
    for _ in range(rounds or rng.choice([1, 1, 2, 3])):
        n = len(data)
        k = rng.randrange(7)
        if k == 0 and n:
            data[rng.randrange(n)] = rng.randrange(256)
        elif k == 1:
            p = rng.randint(0, n)
            data[p:p] = rng.choice(INTERESTING)
        elif k == 2 and n:
            p = rng.randrange(n)
            del data[p:p + rng.choice([1, 1, 2, 5])]
        elif k == 3 and n:
            p = rng.randrange(n)
            q = min(n, p + rng.randint(1, 8))
            data[p:p] = data[p:q]
        elif k == 4 and n:
            del data[rng.randrange(n):]
        elif k == 5 and n:
            p = rng.randrange(n)
            data[p:p + 1] = rng.choice(INTERESTING)
        elif k == 6 and n > 1:
            p = rng.randrange(n - 1)
            data[p], data[p + 1] = data[p + 1], data[p]
    return bytes(data)

FIELD_NAMES = [b'Host', b'User-Agent', b'Accept', b'X-A', b'Content-Length', b'Connection', b'Cache-Control', b'Via', b'X-Long-Field-Name-0123456789']
FIELD_VALUES = [b'example.com', b'x', b'', b'a, b, c', b'text/html; q=0.5', b'0', b'keep-alive', b'1.1 proxy (comment)', b'\xc3\xa9t\xc3\xa9', b'"quoted"']

def gen_header_block(rng, canonical, term=None):
    """-> bytes including the terminating empty line (unless the variant drops it)"""
    lines = []
    for _ in range(pick(rng, [(3, 0), (4, 1), (3, 2), (2, 4), (1, 9)])):
        name = rng.choice(FIELD_NAMES)
        value = rng.choice(FIELD_VALUES)
        if canonical:
            lines.append(name + b': ' + value)
            continue
        sep = pick(rng, [(8, b': '), (2, b':'), (1, b' : '), (1, b':\t'), (1, b'')])
        line = name + sep + value
        r = rng.random()
        if r < 0.08:
            line = rng.choice([b' ', b'\t']) + line          # continuation / whitespace-preceded line
        elif r < 0.14:
            line = line + rng.choice([b'\r\n ', b'\n\t', b'\r\n\t ']) + b'folded'   # obs-fold
        elif r < 0.17:
            line = line + b' \t'
        lines.append(line)
    if canonical:
        return b''.join(l + b'\r\n' for l in lines) + b'\r\n'
    eol = term or pick(rng, [(8, b'\r\n'), (2, b'\n'), (1, b'\r\r\n'), (0.5, b'\r')])
    out = b''
    for l in lines:
        out += l + (eol if rng.random() < 0.9 else rng.choice([b'\r\n', b'\n']))
    out += pick(rng, [(8, eol), (2, b'\r\n'), (1, b'\n'), (1, b''), (0.5, b'\r')])
    return out

# ================================================================================================= C21

METHODS = [b'GET', b'GET', b'GET', b'POST', b'HEAD', b'PUT', b'OPTIONS', b'CONNECT', b'DELETE', b'PRI', b'PROPFIND', b'M-SEARCH', b'X' * 31, b'Y' * 32]
BAD_METHODS = [b'', b'G ET', b'GE\x00T', b'Z' * 33, b'Z' * 40, b'(GET)', b'get', b'\xffGET', b'GET:']
URIS = [b'/', b'/', b'/index.html', b'/a/b/c?d=e&f=g', b'http://example.com/', b'http://example.com:8080/p?q#f', b'*', b'example.com:443',
        b'/%41%zz', b'/~user/;p', b'urn:x:y', b'/9', b'/HTTP/1.1', b'/1.1']
ODD_URIS = [b'/a b', b'/a\tb', b'/a\x0bb', b'/a\rb', b'/\xc3\xa9', b'/"q"', b'/{x}|y', b'/a\\b', b'/<>', b'', b'/\x00', b'/a\x7fb', b'/^`', b' /', b'/ ']
VERSIONS = [b'HTTP/1.1', b'HTTP/1.1', b'HTTP/1.1', b'HTTP/1.0', b'HTTP/0.9', b'HTTP/2.0', b'HTTP/1.2', b'HTTP/9.9']
ODD_VERSIONS = [b'', b'HTTP/1.10', b'HTTP/11.1', b'http/1.1', b'HTTP/1.', b'HTTP/.1', b'HTTP/1', b'HTTP/a.b', b'HTTP/1.1x', b'HTTPS/1.1', b'ICY', b'HTTP/1.1 ', b'1.1', b'/1.1']
DELIMS = [(12, b' '), (1, b'  '), (1, b'\t'), (0.5, b'\x0b'), (0.5, b'\x0c'), (0.5, b'\r'), (0.5, b' \t '), (0.3, b'')]
REQ_EOL = [(12, b'\r\n'), (3, b'\n'), (1, b'\r\r\n'), (0.5, b'\r'), (0.5, b'\r\n\r'), (0.3, b'')]
GARBAGE = [(14, b''), (2, b'\r\n'), (1, b'\n'), (1, b'\r\n\r\n'), (1, b'\n\n\r\n'), (0.7, b'\r'), (0.7, b'\r\r\n'), (0.5, b' '), (0.3, b'\x00'), (0.5, b'\r\n\r'), (0.3, b'\n\r')]

def gen_request(rng, limit, canon_ok=True):
    """-> (bytes, canon or None)"""
    r = rng.random()
    if r < 0.22 and canon_ok:
        m = rng.choice(METHODS)
        u = rng.choice(URIS)
        v = rng.choice([b'HTTP/1.1', b'HTTP/1.0'])
        hdr = gen_header_block(rng, True)
        head = m + b' ' + u + b' ' + v + b'\r\n' + hdr
        tail = pick(rng, [(6, b''), (2, b'body-bytes'), (2, b'GET /next HTTP/1.1\r\n\r\n'), (1, b'\r\n')])
        if len(head) < limit - 40:
            return head + tail, {'method': m.decode('latin-1'), 'uri': u.decode('latin-1'), 'ver': 'HTTP/' + v[5:].decode(), 'mime': hdr.hex(), 'used': len(head)}
        return head + tail, None
    if r < 0.34:
        # lengths around the configured limit: pad the target or a field value so that the head length is limit+delta
        m = rng.choice([b'GET', b'POST', b'Z' * 33])
        v = rng.choice([b' HTTP/1.1', b' HTTP/1.0', b''])
        where = rng.choice(['uri', 'uri', 'field', 'nolf', 'method'])
        delta = rng.choice([-60, -14, -13, -12, -11, -3, -2, -1, 0, 1, 2, 3, 12, 40, 700])
        hdr = b'Host: h\r\n' if rng.random() < 0.5 else b''
        if where == 'uri':
            base = len(m) + 1 + 1 + len(v) + 2 + len(hdr) + 2
            pad = max(0, limit + delta - base)
            data = m + b' /' + b'a' * pad + v + b'\r\n' + hdr + b'\r\n'
        elif where == 'field':
            base = len(m) + 3 + len(v) + 2 + len(hdr) + len(b'X-Pad: \r\n') + 2
            pad = max(0, limit + delta - base)
            data = m + b' /' + v + b'\r\n' + hdr + b'X-Pad: ' + b'p' * pad + b'\r\n\r\n'
        elif where == 'nolf':
            data = m + b' /' + b'a' * max(0, limit + delta - len(m) - 2)
        else:
            data = b'M' * max(1, limit + delta)
        if rng.random() < 0.3:
            data = data[:max(1, len(data) - rng.randint(1, 5))]
        return data, None
    m = rng.choice(METHODS) if rng.random() < 0.85 else rng.choice(BAD_METHODS)
    u = rng.choice(URIS) if rng.random() < 0.75 else rng.choice(ODD_URIS)
    v = rng.choice(VERSIONS) if rng.random() < 0.8 else rng.choice(ODD_VERSIONS)
    d1 = pick(rng, DELIMS)
    d2 = pick(rng, DELIMS) if v else rng.choice([b'', b' '])
    data = pick(rng, GARBAGE) + m + d1 + u + d2 + v + pick(rng, REQ_EOL)
    data += gen_header_block(rng, False)
    data += pick(rng, [(6, b''), (1, b'tail'), (1, b'\r\n'), (1, b'GET / HTTP/1.1\r\n\r\n')])
    if rng.random() < 0.35:
        data = mutate(rng, data)
    if rng.random() < 0.1:
        data = data[:rng.randint(0, len(data))]      # EOF position
    return data, None

class HexCaseProp(HProp):
    """cases: {'id', 'flags', 'seed', 'hex'[, 'canon']} ; line '<id> <flags> <segseed> <hex>'"""
    k_random = 4
    two_split_max = 64
    byte_max = 300
    mode_args = '4 64 300'
    def case_line(self, c):
        return '%s %d %d %s' % (c['id'], c.get('flags', 0), c['seed'], c['hex'] or '-')
    def describe_case(self, c):
        return brief(bytes.fromhex(c['hex']), 160)
    def shrink_case(self, case):
        return shrink_hex_case(case)

@register
class C21(HexCaseProp):
    id = 'C21'
    mode = 'h:c21'
    cases_quick = 4000
    cases_thorough = 12000
    rule = ('case = one request byte string (generated heads: methods/targets/versions/delimiters/line ends/garbage prefixes/header blocks incl. '
            'obs-fold and bare LF, lengths around request_header_max_size, byte-level mutations, truncations) run through a real '
            'Http::One::RequestParser driven as ConnStateData::parseRequests drives it: once whole, then under every 2-way split and byte-wise '
            '(short inputs) and 4 seeded random segmentations; relaxed_header_parser on/off and request_header_max_size come from the '
            'squid.conf of the plan. non-trivial = the one-shot parse reached a verdict (accepted or rejected) or consumed input; distinct = '
            'distinct (configuration, input bytes)')
    def draw_conf(self, rng, tier, index):
        return {'relaxed': ['on', 'off'][index % 2], 'limit': [65536, 1024, 4096, 700][(index // 2) % 4]}
    def conf_lines(self, plan):
        return ['relaxed_header_parser %s' % plan['relaxed'], 'request_header_max_size %d bytes' % plan['limit']]
    def gen_cases(self, rng, n, plan):
        out = []
        big_budget = 6
        for i in range(n):
            data, canon = gen_request(rng, plan['limit'])
            if len(data) > 20000:
                if big_budget <= 0:
                    data, canon = gen_request(rng, 600, canon_ok=False)
                big_budget -= 1
            c = {'id': 'q%d' % i, 'flags': 1 if rng.random() < 0.25 else 0, 'seed': rng.getrandbits(32), 'hex': data.hex()}
            if canon:
                c['canon'] = canon
            out.append(c)
        return out
    def harness_violations(self, case, recs):
        """Differential failures reported by the harness; two patterns observed on the unchanged tree get their own, narrowly
        defined classes (see the final report / known_findings.json), everything else keeps the generic class."""
        out = []
        data = bytes.fromhex(case['hex'])
        for (kind, f, seq, t) in recs:
            if kind != 'VIOL':
                continue
            cls = f[0]
            cuts = []
            inc = []
            for i, x in enumerate(f):
                if x.startswith('cuts=') and x != 'cuts=-':
                    cuts = [int(c) for c in x[5:].split(',') if c.isdigit()]
                if x.startswith('inc='):
                    inc = [x[4:]] + f[i + 1:i + 2]
            limit = int(self._plan_limit)
            g = len(re.match(rb'(?:\n|\r\n)*', data).group(0)) if self._plan_relaxed else 0
            # 'seg-dependent:lone-CR-of-leading-CRLF-then-LF' is decided by the harness itself (it re-runs the schedule without the trigger)
            if cls.startswith('seg-dependent:') and cls != 'seg-dependent:lone-CR-of-leading-CRLF-then-LF' and inc[:2] == ['err', '414'] and len(data) - g >= limit and b'\n' not in data[g:g + limit]:
                cls = 'seg-dependent:request-line-longer-than-limit'
            out.append(Violation('%s:%s' % (self.id, cls), 'case %s input=%s %s' % (case['id'], self.describe_case(case), ' '.join(f[1:])[:700])))
        return out
    def judge_case(self, case, recs, plan, meta):
        self._plan_limit = plan['limit']
        self._plan_relaxed = plan['relaxed'] == 'on'
        V = self.harness_violations(case, recs)
        res = [r for r in recs if r[0] == 'RES'][0][1]
        kind, status, method, uri, ver, mime, used = res[0], int(res[1]), res[2], res[3], res[4], res[5], int(res[6])
        data = bytes.fromhex(case['hex'])
        where = 'case %s input=%s' % (case['id'], brief(data, 200))
        if kind == 'ok' and (used > len(data) or status != 200):
            V.append(Violation('C21:accepted-inconsistent', '%s: accepted with status %d, consumed %d of %d bytes' % (where, status, used, len(data))))
        canon = case.get('canon')
        if canon:
            exp = ('ok', 200, canon['method'].encode('latin-1'), canon['uri'].encode('latin-1'), canon['ver'], bytes.fromhex(canon['mime']), canon['used'])
            if not (kind == 'ok' and status == 200 and field_is(method, exp[2]) and field_is(uri, exp[3]) and ver == exp[4] and field_is(mime, exp[5]) and used == exp[6]):
                V.append(Violation('C21:canonical-request-misparsed', '%s: expected %r, parser reported %s' % (where, exp[:5] + (len(exp[5]), exp[6]), res[:7])))
        return V, (kind != 'more' or used > 0)

# ================================================================================================= C23

RELAXED_DELIM = b' \t\x0b\x0c\r'
REASON_CLASS = rb'[\t \x21-\x7e\x80-\xff]*'
RE_STATUS = {
    'on': re.compile(rb'(?:HTTP/1\.(\d)[ \t\x0b\x0c\r]|ICY )(\d{3})[ \t\x0b\x0c\r](' + REASON_CLASS + rb')(?:\r\n|\n)', re.S),
    'off': re.compile(rb'(?:HTTP/1\.(\d) |ICY )(\d{3}) (' + REASON_CLASS + rb')\r\n', re.S),
}
RE_STRICT_LINE = re.compile(rb'HTTP/1\.(\d) ([1-5]\d\d) ([\t \x21-\x7e\x80-\xff]*)\r\n', re.S)

STATUS_TXT = [(20, None), (1, b'099'), (1, b'100'), (1, b'199'), (1, b'599'), (1, b'600'), (1, b'999'), (1, b'000'), (1.5, b'20'), (1, b'2'), (1, b'99'),
              (1, b'2000'), (1, b'0200'), (0.7, b'2 0'), (0.7, b'+20'), (0.7, b'-200'), (0.7, b'20x'), (0.7, b'0x1'), (0.7, b'2e2'), (0.7, b''), (0.7, b'1 00'), (0.7, b'\xb2\xb0\xb0')]
REASONS = [b'OK', b'OK', b'Not Found', b'', b'Moved  Permanently', b'\tTabbed', b'caf\xe9', b'x' * 70, b'O\x01K', b'O\x7fK', b'O\rK', b'200 OK']
RESP_VERSIONS = [(14, b'HTTP/1.1'), (3, b'HTTP/1.0'), (1, b'HTTP/1.9'), (1, b'HTTP/1.10'), (1, b'HTTP/2.0'), (1, b'HTTP/0.9'), (0.7, b'HTTP/1.'), (0.7, b'HTTP/1'),
                 (0.7, b'http/1.1'), (0.7, b'HTTP/1.a'), (1.5, b'ICY'), (0.5, b'ICY200'), (0.5, b'ICX'), (0.5, b'HTTP'), (0.5, b'HTTPS/1.1'), (0.5, b' HTTP/1.1')]
NON_HTTP = [b'<html><body>hello</body></html>', b'\x00\x01\x02\x03', b'SSH-2.0-OpenSSH\r\n', b'220 ftp ready\r\n', b'\r\nHTTP/1.1 200 OK\r\n\r\n', b'H', b'I', b'G', b'HTTQ/1.1 200 OK\r\n\r\n',
            b'ICZ 200 OK\r\n\r\n', b'hTTP/1.1 200 OK\r\n\r\n', b'\nHTTP/1.1 200 OK\r\n\r\n', b'200 OK\r\n\r\n', b'IC', b'HT', b'HTTP/', b'HTTP/1', b'ICY']

def gen_response(rng, limit):
    r = rng.random()
    if r < 0.2:
        minor = rng.choice(b'0123456789')
        status = rng.choice([100, 101, 199, 200, 204, 206, 301, 304, 400, 404, 499, 500, 503, 599])
        reason = rng.choice([b'OK', b'Not Found', b'', b'Some Reason Phrase', b'caf\xe9'])
        hdr = gen_header_block(rng, True)
        head = b'HTTP/1.%c %d %s\r\n' % (minor, status, reason) + hdr
        tail = pick(rng, [(5, b''), (3, b'<html>body</html>'), (1, b'HTTP/1.1 200 OK\r\n\r\n')])
        if len(head) < limit - 40:
            return head + tail, {'minor': minor - 48, 'status': status, 'reason': reason.hex(), 'mime': hdr.hex(), 'used': len(head)}
        return head + tail, None
    if r < 0.28:
        return rng.choice(NON_HTTP) + (b'' if rng.random() < 0.5 else bytes(rng.randrange(256) for _ in range(rng.randint(0, 20)))), None
    if r < 0.36:
        delta = rng.choice([-40, -3, -2, -1, 0, 1, 2, 3, 40, 500])
        line = b'HTTP/1.1 200 OK\r\n'
        if rng.random() < 0.3:
            return b'HTTP/1.1 200 ' + b'r' * max(0, limit + delta - 15) + (b'\r\n\r\n' if rng.random() < 0.5 else b''), None
        pad = max(0, limit + delta - len(line) - len(b'X-Pad: \r\n\r\n'))
        data = line + b'X-Pad: ' + b'p' * pad + b'\r\n\r\n'
        if rng.random() < 0.3:
            data = data[:len(data) - rng.randint(1, 5)]
        return data, None
    ver = pick(rng, RESP_VERSIONS)
    st = pick(rng, STATUS_TXT)
    if st is None:
        st = str(rng.choice([100, 200, 200, 200, 204, 302, 404, 500, 599])).encode()
    d1 = pick(rng, DELIMS)
    d2 = pick(rng, DELIMS + [(2, b'')])
    data = ver + d1 + st + d2 + rng.choice(REASONS) + pick(rng, REQ_EOL) + gen_header_block(rng, False)
    data += pick(rng, [(6, b''), (2, b'body'), (1, b'\r\n')])
    if rng.random() < 0.3:
        data = mutate(rng, data)
    if rng.random() < 0.12:
        data = data[:rng.randint(0, len(data))]
    return data, None

def prefix_compatible(s, magic):
    return s.startswith(magic) or magic.startswith(s)

@register
class C23(HexCaseProp):
    id = 'C23'
    mode = 'h:c23'
    cases_quick = 4000
    cases_thorough = 12000
    rule = ('case = one origin byte string (status lines with generated/mutated versions, status-code texts of 0-4 characters, delimiters, '
            'reason phrases, line ends, header blocks, lengths around reply_header_max_size, non-HTTP payloads, truncations) run through a '
            'real Http::One::ResponseParser driven as HttpStateData::processReplyHeader drives it: once whole, then all 2-way splits and '
            'byte-wise (short inputs) and 4 seeded random segmentations; independent grammar check of every accepted status line (3 digits, '
            '100-599, fields as in the input) and of the HTTP/0.9 rule. non-trivial = verdict reached; distinct = distinct (configuration, input)')
    def draw_conf(self, rng, tier, index):
        return {'relaxed': ['on', 'off'][index % 2], 'limit': [65536, 1024, 4096, 600][(index // 2) % 4]}
    def conf_lines(self, plan):
        return ['relaxed_header_parser %s' % plan['relaxed'], 'reply_header_max_size %d bytes' % plan['limit']]
    def gen_cases(self, rng, n, plan):
        out = []
        big_budget = 6
        for i in range(n):
            data, canon = gen_response(rng, plan['limit'])
            if len(data) > 20000:
                if big_budget <= 0:
                    data, canon = gen_response(rng, 500)
                    canon = None
                big_budget -= 1
            c = {'id': 'r%d' % i, 'flags': 0, 'seed': rng.getrandbits(32), 'hex': data.hex()}
            if canon:
                c['canon'] = canon
            out.append(c)
        return out
    def judge_case(self, case, recs, plan, meta):
        V = self.harness_violations(case, recs)
        res = [r for r in recs if r[0] == 'RES'][0][1]
        kind, pst, st, ver, reason, mime, used = res[0], int(res[1]), int(res[2]), res[3], res[4], res[5], int(res[6])
        data = bytes.fromhex(case['hex'])
        where = 'case %s input=%s' % (case['id'], brief(data, 200))
        if not data:
            return V, False
        http_like = prefix_compatible(data[:5], b'HTTP/')
        icy_like = prefix_compatible(data[:4], b'ICY ')
        if not http_like and not icy_like:
            # "Anything not starting with an HTTP/ICY prefix is treated as an HTTP/0.9 body"
            if not (kind == 'ok' and st == 200 and used == 0):
                V.append(Violation('C23:non-http-not-treated-as-0.9', '%s: parser reported %s' % (where, res[:7])))
        elif len(data) < 4 and (b'HTTP/1.'.startswith(data) or b'ICY '.startswith(data)):
            if kind != 'more':
                V.append(Violation('C23:verdict-on-incomplete-prefix', '%s: parser reported %s' % (where, res[:7])))
        elif data.startswith(b'HTTP/1.') or data.startswith(b'ICY '):
            if kind == 'ok':
                m = RE_STATUS[plan['relaxed']].match(data)
                ok = False
                if m:
                    minor = m.group(1)
                    code = int(m.group(2))
                    expver = ('HTTP/1.%s' % minor.decode()) if minor is not None else 'ICY/0.0'
                    ok = 100 <= code <= 599 and st == code and ver == expver and field_is(reason, m.group(3))
                if not ok:
                    V.append(Violation('C23:accepted-status-line-not-in-grammar', '%s: accepted as version=%s status=%d reason=%r; grammar fields: %s' % (
                        where, ver, st, parse_field(reason)[2], [g for g in m.groups()] if m else 'no match: status-line = HTTP-version SP 3DIGIT(100-599) SP reason CRLF')))
                elif used > len(data):
                    V.append(Violation('C23:accepted-inconsistent', '%s: consumed %d of %d' % (where, used, len(data))))
        canon = case.get('canon')
        if canon:
            if not (kind == 'ok' and st == canon['status'] and ver == 'HTTP/1.%d' % canon['minor'] and field_is(reason, bytes.fromhex(canon['reason']))
                    and field_is(mime, bytes.fromhex(canon['mime'])) and used == canon['used']):
                V.append(Violation('C23:canonical-response-misparsed', '%s: expected status=%d minor=%d reason=%r used=%d, parser reported %s' % (
                    where, canon['status'], canon['minor'], bytes.fromhex(canon['reason']), canon['used'], res[:7])))
        return V, (kind != 'more' or used > 0)

# ================================================================================================= C24

TCHAR = set(b"!#$%&'*+-.^_`|~0123456789ABCDEFGHIJKLMNOPQRSTUVWXYZabcdefghijklmnopqrstuvwxyz")
HEXD = set(b'0123456789abcdefABCDEF')
QDTEXT = set([9, 32, 0x21] + list(range(0x23, 0x5c)) + list(range(0x5d, 0x7f)) + list(range(0x80, 0x100)))
QPAIR = set([9, 32] + list(range(0x21, 0x7f)) + list(range(0x80, 0x100)))

class Unsure(Exception):
    pass
class Bad(Exception):
    pass
class More(Exception):
    pass

def ref_dechunk(data, relaxed, trailing_bws=False):
    """Reference chunked decoder (RFC 9112 section 7.1 with BWS around ';' and '=' in chunk extensions).
    -> ('ok', body, consumed, strict) | ('more', body_so_far) | ('bad', body_so_far) | ('unsure', why)
    strict=False marks input outside the RFC grammar that Squid documents tolerating: SP/HTAB right after chunk-size (bug 4492) and,
    with relaxed_header_parser, VT/FF/CR as "bad whitespace" around ';' and '=' (Http::One::Parser::WhitespaceCharacters())."""
    n = len(data)
    pos = 0
    body = []
    strict = [True]
    WSP = (9, 32)
    RWS = (9, 32, 11, 12, 13) if relaxed else WSP
    def bws(p, chars=None):
        chars = chars or RWS
        q = p
        while q < n and data[q] in chars:
            q += 1
        return q
    def need(p):
        if p >= n:
            raise More()
    def lenient(a, b):
        if any(c not in WSP for c in data[a:b]):
            strict[0] = False
    def crlf(p):
        if data[p:p + 2] == b'\r\n':
            return p + 2
        if b'\r\n'.startswith(data[p:p + 2]) and len(data[p:p + 2]) < 2:
            raise More()
        raise Bad()
    try:
        while True:
            if data[pos:pos + 2] in (b'0x', b'0X'):
                raise Bad()
            p = pos
            while p < n and data[p] in HEXD:
                p += 1
            if p == pos:
                need(p)
                raise Bad()
            size = int(data[pos:p], 16)
            if size > 0x7fffffffffffffff:
                raise Bad()
            need(p)
            q = bws(p, WSP)          # only SP/HTAB here (ParseStrictBws)
            need(q)
            after_size_ws = q > p
            pos = q
            nexts = 0
            while True:
                q = bws(pos)
                need(q)
                if data[q] != 0x3b:
                    break           # whatever was skipped is not consumed
                lenient(pos, q)
                a = q + 1
                q = bws(a)
                need(q)
                lenient(a, q)
                e = q
                while e < n and data[e] in TCHAR:
                    e += 1
                if e == q:
                    raise Bad()
                need(e)
                pos = e
                nexts += 1
                q = bws(e)
                need(q)
                if data[q] != 0x3d:
                    continue
                lenient(e, q)
                a = q + 1
                q = bws(a)
                need(q)
                lenient(a, q)
                if data[q] == 0x22:
                    q += 1
                    while True:
                        need(q)
                        c = data[q]
                        if c == 0x22:
                            q += 1
                            break
                        if c == 0x5c:
                            need(q + 1)
                            if data[q + 1] not in QPAIR:
                                raise Bad()
                            q += 2
                        elif c in QDTEXT:
                            q += 1
                        else:
                            raise Bad()
                    pos = q
                else:
                    e = q
                    while e < n and data[e] in TCHAR:
                        e += 1
                    if e == q:
                        raise Bad()
                    need(e)
                    pos = e
            if after_size_ws and nexts == 0:
                strict[0] = False
            if trailing_bws and nexts:
                pos = bws(pos, WSP)   # not in the grammar; only used to recognise one observed pattern (see C24.harness_violations)
                need(pos)
            pos = crlf(pos)
            if size == 0:
                # trailer-section CRLF
                q = pos
                while True:
                    e = data.find(b'\n', q)
                    if e < 0:
                        if n - pos > 60000:
                            raise Unsure('huge trailer block')
                        if any(c in (13, 10) for c in data[q:q + 1]) and data[q:] not in (b'\r',):
                            raise Unsure('trailer line outside field-line CRLF form')
                        raise More()
                    line = data[q:e + 1]
                    if line == b'\r\n':
                        if e + 1 - pos > 60000:
                            raise Unsure('huge trailer block')
                        return ('ok', b''.join(body), e + 1, strict[0])
                    if not line.endswith(b'\r\n') or line[:1] in (b' ', b'\t', b'\r', b'\n'):
                        raise Unsure('trailer line outside field-line CRLF form')
                    i = line.find(b':')
                    if i <= 0 or any(c not in TCHAR for c in line[:i]) or b'\r' in line[:-2]:
                        raise Unsure('trailer line is not a field line')
                    q = e + 1
            take = min(size, n - pos)
            body.append(data[pos:pos + take])
            pos += take
            if take < size:
                raise More()
            pos = crlf(pos)
    except More:
        return ('more', b''.join(body))
    except Bad:
        return ('bad', b''.join(body))
    except Unsure as e:
        return ('unsure', str(e))

EXT_NAMES = [b'x', b'name', b'a1', b'ieof', b'use-original-body', b"!#$%&'*+-.^_`|~"]
EXT_TOKENS = [b'1', b'v', b'token', b'0x5', b'A-b_c']
EXT_QUOTED = [b'', b'q', b'a b', b'semi;colon', b'q\\ pair', b'q\\\tpair', b'esc\\"aped', b'back\\\\slash', b'\xe9', b'tab\there', b'=;,', b'\\x', b'\\\xff']

def gen_ext(rng):
    out = b''
    for _ in range(pick(rng, [(6, 1), (2, 2), (1, 3)])):
        ws = lambda: pick(rng, [(8, b''), (1, b' '), (1, b'\t'), (0.5, b' \t ')])
        out += ws() + b';' + ws() + rng.choice(EXT_NAMES)
        r = rng.random()
        if r < 0.35:
            out += ws() + b'=' + ws() + rng.choice(EXT_TOKENS)
        elif r < 0.7:
            out += ws() + b'=' + ws() + b'"' + rng.choice(EXT_QUOTED) + b'"'
    return out

def hexsize(rng, n):
    s = rng.choice(['%x', '%X', '%x']) % n
    if rng.random() < 0.25:
        s = '0' * pick(rng, [(5, 1), (3, 2), (1, 7), (0.5, 30)]) + s
    return s.encode()

def gen_body(rng):
    n = pick(rng, [(2, 0), (3, rng.randint(1, 8)), (4, rng.randint(9, 80)), (3, rng.randint(81, 600)), (0.6, rng.randint(601, 5000)), (0.12, rng.randint(5001, 65536))])
    kind = rng.random()
    if kind < 0.4:
        return bytes(rng.getrandbits(8) for _ in range(n)) if n < 3000 else random.Random(rng.getrandbits(32)).randbytes(n)
    if kind < 0.7:
        return (b'0123456789abcdef\r\n' * (n // 18 + 1))[:n]      # looks like chunk framing
    return (b'5\r\nhello\r\n0\r\n\r\n' * (n // 15 + 1))[:n]

def encode_chunked(rng, body):
    """-> (encoded bytes, list of (kind, start, end) landmarks for the mutators)"""
    out = bytearray()
    marks = []
    pos = 0
    total = len(body)
    while pos < total:
        hi = rng.choice([1, 2, 7, 16, 64, 1024, total])
        k = min(total - pos, rng.randint(1, max(1, hi)))
        a = len(out)
        out += hexsize(rng, k)
        marks.append(('size', a, len(out)))
        if rng.random() < 0.3:
            out += gen_ext(rng)
        marks.append(('sizeeol', len(out), len(out) + 2))
        out += b'\r\n'
        out += body[pos:pos + k]
        marks.append(('dataeol', len(out), len(out) + 2))
        out += b'\r\n'
        pos += k
    a = len(out)
    out += b'0' * pick(rng, [(8, 1), (1, 2), (0.5, 5)])
    marks.append(('size', a, len(out)))
    if rng.random() < 0.25:
        out += gen_ext(rng)
    marks.append(('sizeeol', len(out), len(out) + 2))
    out += b'\r\n'
    for _ in range(pick(rng, [(7, 0), (2, 1), (1, 3)])):
        out += rng.choice([b'X-Trailer', b'Expires', b'X-Checksum']) + b': ' + rng.choice([b'v', b'abc def', b'', b'0']) + b'\r\n'
    out += b'\r\n'
    return bytes(out), marks

BAD_SIZES = [b'0x', b'0X', b'g', b'-', b'+', b' ', b'\t', b'z1', b'-1', b'+1', b' 1', b'8000000000000000', b'FFFFFFFFFFFFFFFF', b'fffffffffffffffff', b'10000000000000000',
             b'99999999999999999999', b'7fffffffffffffff0', b'\r', b'\n', b';', b'"1"', b'\x00']
BAD_EXTS = [b';', b'; ', b';=v', b';n=', b';n= ', b';n="abc', b';n="a"b', b';n v', b';n=a b', b';n@me', b';n="a\\\x01"', b';n="a\x00"', b';n=="v"', b';;n', b' x', b'x', b';n="a\r\n"', b';n=\r\n']

def gen_chunked_case(rng):
    """-> (bytes, label) ; label in valid|valid+tail|prefix|mut-*|tolerated|random"""
    body = gen_body(rng)
    enc, marks = encode_chunked(rng, body)
    r = rng.random()
    if r < 0.34:
        return enc, 'valid'
    if r < 0.44:
        return enc + pick(rng, [(3, b'HTTP/1.1 200 OK\r\n\r\n'), (2, b'0\r\n\r\n'), (2, b'\r\n'), (2, b'x'), (1, bytes(rng.getrandbits(8) for _ in range(rng.randint(1, 30))))]), 'valid+tail'
    if r < 0.52:
        return enc[:rng.randint(0, len(enc) - 1)], 'prefix'
    if r < 0.56:
        m = rng.choice([x for x in marks if x[0] == 'sizeeol'])
        if enc[m[1] - 1:m[1]] in (b' ', b'\t'):
            return enc, 'valid'
        return enc[:m[1]] + rng.choice([b' ', b'\t', b'  ']) + enc[m[1]:], 'tolerated'
    if r < 0.66:
        m = rng.choice([x for x in marks if x[0] == 'size'])
        k = rng.random()
        if k < 0.35:
            return enc[:m[1]] + rng.choice([b'0x', b'0X']) + enc[m[1]:], 'mut-0x'
        if k < 0.65:
            bad = rng.choice(BAD_SIZES)
            return enc[:m[1]] + bad + enc[m[2]:], 'mut-size'
        p = rng.randint(m[1], m[2])
        return enc[:p] + rng.choice([b'g', b'x', b'-', b' ', b'G', b'\x00', b'.']) + enc[p:], 'mut-nonhex'
    if r < 0.76:
        m = rng.choice([x for x in marks if x[0] in ('sizeeol', 'dataeol')])
        rep = rng.choice([b'', b'\n', b'\r', b'\r\r', b'\n\r', b'\r\r\n', b'  ', b'\rX', b'XY', b'\r\x00'])
        return enc[:m[1]] + rep + enc[m[2]:], 'mut-crlf'
    if r < 0.86:
        m = rng.choice([x for x in marks if x[0] == 'sizeeol'])
        return enc[:m[1]] + rng.choice(BAD_EXTS) + enc[m[1]:], 'mut-ext'
    if r < 0.95:
        return mutate(rng, enc), 'mut-random'
    return bytes(rng.choice(b'0123456789abcdefxX;=" \t\r\n\r\n\\q') for _ in range(rng.randint(1, 40))), 'random'

@register
class C24(HexCaseProp):
    id = 'C24'
    mode = 'h:c24'
    cases_quick = 3000
    cases_thorough = 10000
    two_split_max = 48
    mode_args = '4 48 300'
    rule = ('case = one byte string: a valid chunked encoding of a random body 0..64KB (random chunk sizes, hex case, leading zeros, extensions '
            'with tokens/quoted strings/BWS, trailers), optionally followed by unrelated bytes, truncated, or mutated (0x prefix, non-hex and '
            '>63-bit sizes, broken CRLFs, malformed extensions, random edits). A real Http::One::TeChunkedParser decodes it once whole with '
            'unbounded output, then under all 2-way splits/byte-wise delivery (short inputs) and seeded random segmentations, each combined '
            'with seeded per-call MemBuf capacities (2 bytes ... 70000), and twice whole with limited output; an independent reference decoder '
            'computes the expected body/consumed length/verdict from the bytes. non-trivial = the reference has a definite expectation; '
            'distinct = distinct (configuration, input)')
    def draw_conf(self, rng, tier, index):
        return {'relaxed': ['on', 'off'][index % 2]}
    def conf_lines(self, plan):
        return ['relaxed_header_parser %s' % plan['relaxed']]
    def gen_cases(self, rng, n, plan):
        out = []
        big = 5
        for i in range(n):
            data, label = gen_chunked_case(rng)
            while len(data) > 6000 and big <= 0:
                data, label = gen_chunked_case(rng)
            if len(data) > 6000:
                big -= 1
            out.append({'id': 'k%d' % i, 'flags': 0, 'seed': rng.getrandbits(32), 'hex': data.hex(), 'label': label})
        return out
    def describe_case(self, c):
        return '%s %s' % (c.get('label', ''), brief(bytes.fromhex(c['hex']), 160))
    def harness_violations(self, case, recs):
        """Differential failures; one pattern observed on the unchanged tree (SP/HTAB between the last chunk-ext and CRLF is rejected
        when it arrives together with the extension, accepted when a read ends after the extension) gets its own class."""
        out = []
        data = bytes.fromhex(case['hex'])
        for (kind, f, seq, t) in recs:
            if kind != 'VIOL':
                continue
            cls = f[0]
            # the same root cause also shows when something later in the input is malformed too (the lenient reference is then 'unsure'):
            # recognised by the one-shot parse failing exactly at "CRLF after [chunk-ext]" on a chunk-ext followed by SP/HTAB and CRLF
            bws_site = 'cannot skip CRLF after [chunk-ext]' in ' '.join(f) and re.search(rb';[^\r\n]*[ \t]+\r\n', data) is not None
            if cls in ('seg-dependent:kind:err-vs-ok', 'seg-dependent:kind:err-vs-more') and ref_dechunk(data, self._relaxed)[0] == 'bad' and \
                    (ref_dechunk(data, self._relaxed, True)[0] in ('ok', 'more') or bws_site):
                cls = 'seg-dependent:bws-between-chunk-ext-and-CRLF'
            out.append(Violation('%s:%s' % (self.id, cls), 'case %s input=%s %s' % (case['id'], self.describe_case(case), ' '.join(f[1:])[:700])))
        return out
    def judge_case(self, case, recs, plan, meta):
        self._relaxed = plan['relaxed'] == 'on'
        V = self.harness_violations(case, recs)
        res = [r for r in recs if r[0] == 'RES'][0][1]
        kind, outlen, outhash, used = res[0], int(res[1]), int(res[2], 16), int(res[3])
        data = bytes.fromhex(case['hex'])
        where = 'case %s (%s) input=%s' % (case['id'], case.get('label', ''), brief(data, 240))
        ref = ref_dechunk(data, plan['relaxed'] == 'on')
        got = 'parser: %s out=%d bytes consumed=%d %s' % (kind, outlen, used, ' '.join(res[4:5]))
        if ref[0] == 'ok':
            body, consumed, strict = ref[1], ref[2], ref[3]
            if kind == 'ok':
                if outlen != len(body) or outhash != fnv(body):
                    V.append(Violation('C24:decoded-body-differs', '%s: expected %d body bytes (fnv %016x); %s' % (where, len(body), fnv(body), got)))
                elif used != consumed:
                    V.append(Violation('C24:consumed-length-differs', '%s: encoding is %d bytes long; %s' % (where, consumed, got)))
            elif strict:
                V.append(Violation('C24:valid-encoding-not-decoded', '%s: reference decodes %d body bytes from %d encoded bytes; %s' % (where, len(body), consumed, got)))
        elif ref[0] == 'more':
            if kind == 'ok':
                V.append(Violation('C24:truncated-input-completed', '%s: the encoding is incomplete; %s' % (where, got)))
            elif kind == 'err':
                V.append(Violation('C24:truncated-input-rejected', '%s: a prefix of a valid encoding may only ask for more data; %s' % (where, got)))
            elif not (outlen <= len(ref[1]) and outhash == fnv(ref[1][:outlen])):
                V.append(Violation('C24:decoded-body-differs', '%s: partial output is not a prefix of the body; %s' % (where, got)))
        elif ref[0] == 'bad':
            if kind != 'err':
                V.append(Violation('C24:malformed-accepted', '%s: reference rejects this framing; %s' % (where, got)))
        return V, ref[0] != 'unsure'

# ================================================================================================= C51

TIME_MAX = (1 << 63) - 1
U64 = (1 << 64) - 1

class ClpModel:
    """Reference for ClpMap as documented in src/base/ClpMap.h: capacity in accounted bytes, per-entry TTL (entry hidden once
    squid_curtime > added+ttl), LRU purge order (expired entries are ordinary purge candidates until touched)."""
    def __init__(self, cap, default_ttl, overhead):
        self.limit = cap
        self.used = 0
        self.dttl = default_ttl
        self.C = overhead
        self.lru = []      # most recently used first: [key, valId, expires, mem]
    def _find(self, key, now):
        for i, e in enumerate(self.lru):
            if e[0] == key:
                if e[2] >= now:
                    self.lru.insert(0, self.lru.pop(i))
                    return self.lru[0]
                self.used -= e[3]
                del self.lru[i]
                return None
        return None
    def get(self, key, now):
        e = self._find(key, now)
        return e[1] if e else None
    def delete(self, key, now):
        e = self._find(key, now)
        if e:
            self.used -= e[3]
            self.lru.pop(0)
    def _trim(self, want, now):
        while self.limit - self.used < want:
            self.delete(self.lru[-1][0], now)
    def add(self, key, vid, vsize, ttl, now):
        if self.limit == 0:
            return False
        self.delete(key, now)
        if ttl < 0:
            return False
        want = len(key) + self.C + vsize
        if want > U64:
            return False
        if want > self.limit or want == 0:
            return False
        self._trim(want, now)
        self.lru.insert(0, [key, vid, min(now + ttl, TIME_MAX), want])
        self.used += want
        return True
    def set_limit(self, new, now):
        if self.used > new:
            self._trim(self.limit - new, now)
        self.limit = new

@register
class C51(HProp):
    id = 'C51'
    mode = 'h:c51'
    cases_quick = 3000
    cases_thorough = 10000
    rule = ('case = one operation sequence (20-120 ops: add with TTL incl. 0/negative/huge, add with the default TTL, get, del, setMemLimit incl. 0 '
            'and shrinking below usage, clock advances of sub-second to hours through the simulated clock + getCurrentTime()) over 3-12 keys of '
            'different lengths and value sizes (incl. sizes that overflow the accounting) on a real ClpMap<SBuf, V, MemoryUsedBy>; every '
            'result, memoryUsed() and entries() is compared with a reference LRU/TTL/capacity model; memoryUsed() <= memLimit() after every op. '
            'non-trivial = at least one get() hit, one TTL expiry or one capacity purge was predicted; distinct = distinct op sequences')
    assumptions = ['clock moves forward only (the statement quantifies over advances)', 'the reference mirrors the documented accounting: key length + '
                   'MemoryUsedBy(value) + a constant per-entry overhead that the harness measures on the real map at start-up',
                   'a rejected add() still removes the previous entry for that key (codified by testClpMap::testNegativeTtl)']
    case_record_kinds = ('RES', 'VIOL', 'END51')
    def case_complete(self, recs):
        return any(r[0] == 'END51' for r in recs)
    def gen_cases(self, rng, n, plan):
        out = []
        for i in range(n):
            nkeys = rng.randint(3, 12)
            keys = []
            for k in range(nkeys):
                keys.append('k%d%s' % (k, 'x' * pick(rng, [(5, 0), (3, rng.randint(1, 10)), (1, rng.randint(11, 60))])))
            cap = pick(rng, [(1, 0), (2, rng.randint(100, 400)), (4, rng.randint(300, 1500)), (3, rng.randint(1500, 8000)), (1, 1000000)])
            dttl = pick(rng, [(5, '-'), (1, '0'), (1, '1'), (1, '10'), (1, '3600')])
            ops = []
            vid = 0
            for _ in range(rng.randint(20, 120)):
                r = rng.random()
                key = rng.choice(keys)
                if r < 0.36:
                    vid += 1
                    size = pick(rng, [(2, 0), (5, rng.randint(1, 64)), (3, rng.randint(64, 600)), (1, rng.randint(600, 9000)), (0.15, U64), (0.15, U64 - 100), (0.1, 1 << 63)])
                    if rng.random() < 0.2:
                        ops.append('B,%s,%d,%d' % (key, vid, size))
                    else:
                        ttl = pick(rng, [(1.2, -1), (0.4, -1000), (2, 0), (2, 1), (2, 2), (2, rng.randint(3, 30)), (1, 3600), (0.5, 2147483647)])
                        ops.append('A,%s,%d,%d,%d' % (key, vid, size, ttl))
                elif r < 0.70:
                    ops.append('G,' + key)
                elif r < 0.77:
                    ops.append('D,' + key)
                elif r < 0.82:
                    ops.append('L,%d' % pick(rng, [(1, 0), (3, rng.randint(100, 600)), (3, rng.randint(600, 5000)), (1, 1000000)]))
                else:
                    ops.append('T,%d' % pick(rng, [(2, rng.randint(1, 999999)), (3, 1000000), (2, 2000000), (2, rng.randint(1, 30) * 1000000), (1, 500000), (0.5, 3600 * 1000000), (0.3, 0)]))
            out.append({'id': 'm%d' % i, 'cap': cap, 'dttl': dttl, 'ops': ops})
        return out
    def case_line(self, c):
        return '%s %d %s %s' % (c['id'], c['cap'], c['dttl'], ' '.join(c['ops']))
    def describe_case(self, c):
        return self.case_line(c)[:600]
    def shrink_case(self, case):
        ops = case['ops']
        n = len(ops)
        size = n // 2
        cands = 0
        while size >= 1 and cands < 200:
            for a in range(0, n, size):
                c = dict(case)
                c['ops'] = ops[:a] + ops[a + size:]
                if c['ops']:
                    cands += 1
                    yield c
            size //= 2
    def judge_case(self, case, recs, plan, meta):
        V = self.harness_violations(case, recs)
        C = int(meta.get('overhead', 0))
        results = []
        now0 = None
        for (kind, f, seq, t) in recs:
            if kind == 'RES':
                if now0 is None:
                    now0 = int(f[1])
                results.extend(f[2].split())
        ops = case['ops']
        where = 'case %s: %s' % (case['id'], self.case_line(case)[:500])
        if len(results) != len(ops):
            V.append(Violation('C51:result-count', '%s: %d results for %d ops' % (where, len(results), len(ops))))
            return V, False
        m = ClpModel(case['cap'], 2147483647 if case['dttl'] == '-' else int(case['dttl']), C)
        now = now0     # squid_curtime in force before the first op (first RES record)
        nontrivial = False
        for i, (r, op) in enumerate(zip(results, ops)):
            got, used, ents = r.split('/')
            used, ents = int(used), int(ents)
            f = op.split(',')
            exp = '.'
            before = len(m.lru)
            if f[0] == 'A':
                exp = '1' if m.add(f[1], int(f[2]), int(f[3]), int(f[4]), now) else '0'
            elif f[0] == 'B':
                exp = '1' if m.add(f[1], int(f[2]), int(f[3]), m.dttl, now) else '0'
            elif f[0] == 'G':
                had = any(e[0] == f[1] for e in m.lru)
                v = m.get(f[1], now)
                exp = '-' if v is None else str(v)
                if v is not None or had:
                    nontrivial = True
            elif f[0] == 'D':
                m.delete(f[1], now)
            elif f[0] == 'L':
                m.set_limit(int(f[1]), now)
            elif f[0] == 'T':
                now = int(got)
                exp = got
            if f[0] in ('A', 'B', 'L') and len(m.lru) < before:
                nontrivial = True
            ctx = '%s: op #%d %s at squid_curtime=%d' % (where, i, op, now)
            if got != exp:
                if f[0] == 'G':
                    cls = 'C51:get-returned-hidden-entry' if exp == '-' else ('C51:get-lost-entry' if got == '-' else 'C51:get-wrong-value')
                else:
                    cls = 'C51:add-result'
                V.append(Violation(cls, '%s: map returned %s, reference model %s (model entries MRU first: %s)' % (ctx, got, exp, [(e[0], e[1], e[2] - now) for e in m.lru][:8])))
                return V, nontrivial
            if used != m.used or ents != len(m.lru):
                V.append(Violation('C51:accounting-differs', '%s: memoryUsed()=%d entries()=%d, reference model %d bytes in %d entries (limit %d, overhead %d)' % (ctx, used, ents, m.used, len(m.lru), m.limit, C)))
                return V, nontrivial
            if used > m.limit:
                V.append(Violation('C51:over-capacity', '%s: memoryUsed()=%d > limit %d' % (ctx, used, m.limit)))
                return V, nontrivial
        end = [r for r in recs if r[0] == 'END51'][0][1]
        if int(end[0]) != int(end[1]):
            V.append(Violation('C51:accounting-differs', '%s: memoryUsed()=%s but the stored entries account for %s' % (where, end[0], end[1])))
        return V, nontrivial

# ================================================================================================= C59

def fh(s):
    return float.fromhex(s)

@register
class C59(HProp):
    id = 'C59'
    mode = 'h:c59'
    cases_quick = 2500
    cases_thorough = 10000
    rule = ('case = one sequence of eventAdd (2-12 events; delays 0, 1us ... 60s on a 250 ms grid plus random ones; weights 0/1), eventDelete of '
            'still-pending events, clock advances without a loop iteration (events become due but cannot fire yet; equal due times are '
            'constructed from different schedule times), rare backward wall-clock steps, and "run" steps that return into the real '
            'EventLoop::runOnce() with a chosen clock advance; the harness is an idle hook of the running squid, events go through the real '
            'EventScheduler and AsyncCallQueue next to squid\'s own periodic events; every fired event is logged with current_dtime. Oracle over '
            'the log: fire time >= due time, each fire is the minimum (due, insertion) of what is pending (when=0 events carry the documented '
            'zero timestamp), cancelled events never fire, everything else fires exactly once by the end. non-trivial = at least two events '
            'fired; distinct = distinct op sequences')
    case_record_kinds = ('RES', 'VIOL', 'ADD', 'DEL', 'FIRE', 'TIME', 'BACK', 'RUN', 'LEFT')
    assumptions = ['an event with when=0 is due immediately and sorts before all timed events (src/event.cc documents the zero timestamp)',
                   'eventDelete() is only called for events the harness knows to be pending (deleting a missing event is a debug_trap)',
                   'single-threaded loop; backward clock steps are wall-clock steps seen through getCurrentTime()']
    def gen_cases(self, rng, n, plan):
        out = []
        grid = [0, 0, 1, 1000, 250000, 250000, 500000, 500000, 750000, 1000000, 1000000, 1500000, 2000000, 5000000, 60000000]
        for i in range(n):
            nev = rng.randint(2, 12)
            ids = list(range(1, nev + 1))
            rng.shuffle(ids)
            ops = []
            added = []
            gridcase = rng.random() < 0.7
            while ids or rng.random() < 0.3:
                r = rng.random()
                if ids and r < 0.5:
                    ev = ids.pop()
                    d = rng.choice(grid) if (gridcase or rng.random() < 0.5) else rng.randint(0, 3000000)
                    ops.append('A,%d,%d,%d' % (ev, d, 1 if rng.random() < 0.2 else 0))
                    added.append(ev)
                elif r < 0.62 and added:
                    ops.append('X,%d' % rng.choice(added))
                elif r < 0.76:
                    ops.append('T,%d' % (rng.choice([250000, 250000, 500000, 1000000, 1, 0]) if gridcase else rng.randint(0, 1500000)))
                elif r < 0.78:
                    ops.append('J,%d' % rng.choice([1, 250000, 1000000, 3000000]))
                else:
                    ops.append('R,%d' % (rng.choice([0, 0, 1000, 250000, 500000, 1000000, 5000000]) if gridcase else rng.randint(0, 2500000)))
                if len(ops) > 60:
                    break
            out.append({'id': 'e%d' % i, 'ops': ops})
        return out
    def case_line(self, c):
        return '%s %s' % (c['id'], ' '.join(c['ops']))
    def describe_case(self, c):
        return self.case_line(c)[:700]
    def shrink_case(self, case):
        ops = case['ops']
        n = len(ops)
        size = n // 2
        while size >= 1:
            for a in range(0, n, size):
                c = dict(case)
                c['ops'] = ops[:a] + ops[a + size:]
                if c['ops']:
                    yield c
            size //= 2
    def case_complete(self, recs):
        return any(r[0] == 'RES' for r in recs)
    def judge_case(self, case, recs, plan, meta):
        V = self.harness_violations(case, recs)
        where = 'case %s: %s' % (case['id'], self.case_line(case)[:500])
        pending = {}
        cancelled = set()
        fired = []
        seq = 0
        log = []
        for (kind, f, sq, t) in recs:
            if kind == 'ADD':
                ev, now, when = int(f[0]), fh(f[1]), fh(f[2])
                key = now + when if when > 0 else 0.0      # EventScheduler::schedule(): zero timestamp for when=0 (due at once, whatever the wall clock does)
                pending[ev] = (key, seq, key)
                seq += 1
                log.append('add %d now=%.6f when=%.6f' % (ev, now, when))
            elif kind == 'DEL':
                ev = int(f[0])
                pending.pop(ev, None)
                cancelled.add(ev)
                log.append('del %d' % ev)
            elif kind == 'FIRE':
                ev, now = int(f[0]), fh(f[1])
                log.append('fire %d at %.6f' % (ev, now))
                ctx = '%s: log tail: %s' % (where, '; '.join(log[-14:]))
                if ev in cancelled and ev not in pending:
                    V.append(Violation('C59:cancelled-event-fired', ctx))
                    break
                if ev not in pending:
                    V.append(Violation('C59:fired-twice-or-unknown', ctx))
                    break
                key, s, due = pending[ev]
                if now < due:
                    V.append(Violation('C59:fired-before-due', '%s: event %d due at %.6f fired at %.6f' % (ctx, ev, due, now)))
                    break
                first = min(pending.items(), key=lambda kv: (kv[1][0], kv[1][1]))
                if first[0] != ev:
                    V.append(Violation('C59:fired-out-of-order', '%s: event %d (due %.6f, scheduled #%d) fired while event %d (due %.6f, scheduled #%d) was pending' % (
                        ctx, ev, key, s, first[0], first[1][0], first[1][1])))
                    break
                del pending[ev]
                fired.append(ev)
            elif kind in ('TIME', 'BACK'):
                log.append('%s %.6f' % (kind.lower(), fh(f[0])))
            elif kind == 'RUN':
                log.append('run +%sus' % f[0])
            elif kind == 'RES':
                if pending and not V:
                    V.append(Violation('C59:event-lost', '%s: events %s never fired although the loop ran past their due times; log tail: %s' % (where, sorted(pending), '; '.join(log[-14:]))))
        return V, len(fired) >= 2

# ================================================================================================= C44

def c44_eval_ref(ref, truth, groups):
    neg = ref.startswith('!')
    name = ref[1:] if neg else ref
    if name.startswith('v'):
        val = bool(truth >> int(name[1:]) & 1)
    else:
        g = groups[name]
        if g['type'] == 'any':
            val = any(c44_eval_ref(r, truth, groups) for line in g['lines'] for r in line)
        else:
            val = any(all(c44_eval_ref(r, truth, groups) for r in line) for line in g['lines'])
    return val != neg

def c44_decide(case, truth):
    """reference first-match evaluator -> 1 allow, 0 deny, 2 neither"""
    groups = {g['name']: g for g in case['groups']}
    rules = case['rules']
    if not rules:
        return 2
    for r in rules:
        if all(c44_eval_ref(x, truth, groups) for x in r['refs']):
            return 1 if r['act'] == 'a' else 0
    return 0 if rules[-1]['act'] == 'a' else 1

@register
class C44(HProp):
    id = 'C44'
    mode = 'h:c44'
    cases_quick = 2500
    cases_thorough = 10000
    rule = ('case = one access list (0-6 allow/deny rules, 1-4 [!]ACL references each, over 8 leaf ACLs of the registered type verif_sim and 0-3 '
            'any-of/all-of group ACLs that may nest and negate) fed line by line to the real parsers (Acl::Node::ParseNamedAcl, aclParseAccessLine; the '
            'leaves come from squid.conf at start-up) and 1-8 concurrent ACLFilledChecklist::NonBlockingCheck()s with their own truth values and '
            'per-leaf behaviour: synchronous, goAsync() answered later, goAsync() answered inside the starter, answer cached or forgotten after use; '
            'outstanding lookups complete in seeded order and batch sizes, half of the batches from the harness, half as events through the real '
            'EventLoop/AsyncCallQueue. Oracle: callback answer == reference first-match evaluator (implicit opposite of the last rule, DUNNO for no '
            'list), exactly one callback per checklist. non-trivial = at least one lookup went asynchronous; distinct = distinct cases')
    assumptions = ['rule lines always name at least one ACL (the parser skips a rule line without ACLs with an error message, so the statement\'s '
                   '"0 ACLs" corner has no well-defined reading)', 'no banned actions, no authentication ACLs (ACCESS_AUTH_REQUIRED) in the lists']
    case_record_kinds = ('RES', 'VIOL', 'END44')
    def conf_lines(self, plan):
        return ['acl v%d verif_sim %d' % (i, i) for i in range(8)]
    def case_complete(self, recs):
        return any(r[0] == 'END44' for r in recs)
    def gen_cases(self, rng, n, plan):
        out = []
        for i in range(n):
            groups = []
            names = ['v%d' % k for k in range(8)]
            def ref():
                return ('!' if rng.random() < 0.3 else '') + rng.choice(names)
            for g in range(pick(rng, [(4, 0), (3, 1), (2, 2), (1, 3)])):
                typ = rng.choice(['any', 'all'])
                lines = [[ref() for _ in range(rng.randint(1, 3))] for _ in range(1 if typ == 'any' or rng.random() < 0.6 else 2)]
                groups.append({'name': 'g%d' % g, 'type': typ, 'lines': lines})
                names = names + ['g%d' % g] * 3
            rules = []
            for _ in range(pick(rng, [(0.2, 0), (2, 1), (3, 2), (3, 3), (2, 4), (1, 5), (1, 6)])):
                rules.append({'act': rng.choice('ad'), 'refs': [ref() for _ in range(pick(rng, [(3, 1), (3, 2), (2, 3), (1, 4)]))]})
            chk = []
            dens = rng.choice([0.0, 0.2, 0.5, 0.9, 1.0])
            for _ in range(rng.randint(1, 8)):
                a = sum(1 << b for b in range(8) if rng.random() < dens)
                im = sum(1 << b for b in range(8) if (a >> b & 1) and rng.random() < 0.15)
                chk.append({'t': rng.getrandbits(8), 's': a, 'i': im, 'f': 1 if rng.random() < 0.3 else 0})
            out.append({'id': 'a%d' % i, 'groups': groups, 'rules': rules, 'chk': chk, 'seed': rng.getrandbits(32)})
        return out
    def case_line(self, c):
        g = '|'.join('%s=%s:%s' % (x['name'], x['type'], '/'.join(','.join(l) for l in x['lines'])) for x in c['groups']) or '-'
        r = ';'.join('%s:%s' % (x['act'], ','.join(x['refs'])) for x in c['rules']) or '-'
        k = ';'.join('%x.%x.%x.%d' % (x['t'], x['s'], x['i'], x['f']) for x in c['chk'])
        return '%s %s %s %s %d' % (c['id'], g, r, k, c['seed'])
    def describe_case(self, c):
        return self.case_line(c)[:700]
    def shrink_case(self, case):
        for k in range(len(case['chk'])):
            if len(case['chk']) > 1:
                c = copy.deepcopy(case); c['chk'] = [case['chk'][k]]; yield c
        for i in range(len(case['rules'])):
            if len(case['rules']) > 1:
                c = copy.deepcopy(case); del c['rules'][i]; yield c
        for i, r in enumerate(case['rules']):
            for j in range(len(r['refs'])):
                if len(r['refs']) > 1:
                    c = copy.deepcopy(case); del c['rules'][i]['refs'][j]; yield c
        for i, r in enumerate(case['rules']):
            for j, x in enumerate(r['refs']):
                if 'g' in x:
                    c = copy.deepcopy(case); c['rules'][i]['refs'][j] = 'v0'; yield c
        used = set(x.lstrip('!') for r in case['rules'] for x in r['refs']) | set(x.lstrip('!') for g in case['groups'] for l in g['lines'] for x in l)
        for gi, g in enumerate(case['groups']):
            if g['name'] not in used:
                c = copy.deepcopy(case); del c['groups'][gi]; yield c
        for k, x in enumerate(case['chk']):
            if x['s']:
                c = copy.deepcopy(case); c['chk'][k]['s'] = 0; c['chk'][k]['i'] = 0; yield c
            if x['f']:
                c = copy.deepcopy(case); c['chk'][k]['f'] = 0; yield c
    def judge_case(self, case, recs, plan, meta):
        V = self.harness_violations(case, recs)
        where = 'case %s: %s' % (case['id'], self.case_line(case)[:600])
        names = {1: 'ALLOWED', 0: 'DENIED', 2: 'DUNNO', 3: 'AUTH_REQUIRED', -1: 'none'}
        res = {}
        asyncs = 0
        for (kind, f, sq, t) in recs:
            if kind == 'RES':
                res[int(f[0])] = (int(f[1]), int(f[2]), int(f[3]), int(f[4]))
                asyncs += int(f[4])
        for k, x in enumerate(case['chk']):
            if k not in res:
                V.append(Violation('C44:no-result', '%s: checklist %d has no result' % (where, k)))
                continue
            code, implicit, callbacks, na = res[k]
            if callbacks != 1:
                V.append(Violation('C44:callback-count', '%s: checklist %d got %d callbacks' % (where, k, callbacks)))
                continue
            exp = c44_decide(case, x['t'])
            if code != exp:
                V.append(Violation('C44:wrong-answer', '%s: checklist %d (truth=%02x async=%02x immediate=%02x forget=%d, %d lookups) answered %s, reference first-match evaluator says %s' % (
                    where, k, x['t'], x['s'], x['i'], x['f'], na, names.get(code, code), names[exp])))
        return V, asyncs > 0
