"""C39 ICP, HTCP and SNMP listeners tolerate arbitrary datagrams (ASan build). DESIGN.md §4."""
import random, re, struct
import simlib
from simlib import Payload, G, tok
from framework import Violation
from props import register
from props import httpcommon as hc
from props.p_c09 import mutate as mutate_bytes

def icp(opcode, url, reqnum=1, version=2, flags=0):
    payload = (struct.pack('>I', 0) if opcode == 1 else b'') + url + b'\0'
    return struct.pack('>BBHIIII', opcode, version, 20 + len(payload), reqnum, flags, 0, 0) + payload

def cstr(b):
    return struct.pack('>H', len(b)) + b

def htcp(op, url, method=b'GET', tid=7, rr=0):
    spec = cstr(method) + cstr(url) + cstr(b'HTTP/1.1') + cstr(b'Host: x\r\n')
    opdata = spec if op in (1, 4) else b''          # TST=1 / CLR=4 carry a specifier (CLR also has a reason word first)
    if op == 4:
        opdata = struct.pack('>H', 0) + spec
    data = struct.pack('>BBI', (op << 4) | 0, (rr & 1), tid) + opdata
    data = struct.pack('>H', len(data) + 2) + data
    auth = struct.pack('>H', 2)
    body = data + auth
    return struct.pack('>HBB', len(body) + 4, 0, 0) + body

def ber(tag, content):
    n = len(content)
    if n < 128:
        l = bytes([n])
    else:
        l = bytes([0x82, n >> 8, n & 255])
    return bytes([tag]) + l + content

def ber_int(v):
    b = v.to_bytes(max(1, (v.bit_length() + 8) // 8), 'big', signed=True)
    return ber(2, b)

def ber_oid(parts):
    out = bytes([parts[0] * 40 + parts[1]])
    for p in parts[2:]:
        enc = [p & 0x7f]; p >>= 7
        while p:
            enc.append(0x80 | (p & 0x7f)); p >>= 7
        out += bytes(reversed(enc))
    return ber(6, out)

def snmp(pdu=0xA0, community=b'public', oid=(1, 3, 6, 1, 4, 1, 3495, 1, 1, 1, 0), version=1, reqid=5):
    vb = ber(0x30, ber(0x30, ber_oid(list(oid)) + ber(5, b'')))
    p = ber(pdu, ber_int(reqid) + ber_int(0) + ber_int(0) + vb)
    return ber(0x30, ber_int(version) + ber(4, community) + p)

@register
class C39(hc.PProp):
    id = 'C39'
    variant = 'asan'
    rule = ('each run (AddressSanitizer build) = icp_port, htcp_port and snmp_port enabled; 30-120 datagrams: valid ICP (query/hit/miss/decho/invalid opcodes), HTCP '
            '(TST/CLR/NOP/MON with specifiers) and SNMP v1/v2c (get/getnext/set, deep and long OIDs, wrong community) messages from reference encoders and their '
            'mutations (byte flips, length fields, truncation, inflation, random bytes), duplicated and in bursts, while 2-4 well-behaved HTTP transactions run; a final '
            'HTTP probe must be served. non-trivial = at least 10 mutated datagrams reached each of two listeners; distinct = history fingerprint')
    quick_runs = 120
    thorough_runs = 3000
    quick_wall = 55
    thorough_wall = 1500
    assumptions = ['memory errors are those AddressSanitizer detects (-O1 build)']
    expected_probes = ['datagrams_sent', 'replies_seen', 'bystanders_ok', 'probes_ok']

    def plan(self, rng, tier, index):
        plan = hc.std_plan(rng, {'cache': rng.choice(['mem', 'none', 'rock']), 'lines': ['icp_port 3130', 'htcp_port 4827', 'snmp_port 3401', 'icp_access allow all', 'htcp_access allow all',
                                 'htcp_clr_access allow all', 'acl snmppublic snmp_community public', 'snmp_access allow snmppublic', 'icp_query_timeout 1000', 'log_icp_queries on']}, hostile=False)
        plan['dgrams'] = [{'k': k, 'proto': rng.choice(['icp', 'htcp', 'snmp']), 'seed': rng.getrandbits(32), 'rounds': rng.choice([0, 0, 1, 2, 4, 8]), 'at': rng.randint(0, 3000000), 'dup': rng.choice([1, 1, 1, 3])}
                          for k in range(rng.randint(30, 120))]
        plan['bystanders'] = [{'id': index * 100 + k, 'size': rng.choice([10, 5000, 40000]), 'start': rng.choice([0, 500000, 2000000])} for k in range(rng.randint(2, 4))]
        plan['probe_id'] = index * 100 + 99
        plan['_lists'] = ['dgrams', 'bystanders']
        return plan

    def datagram(self, d):
        rng = random.Random(d['seed'])
        url = rng.choice([b'http://10.0.0.2/by1', b'http://x.test/' + b'a' * rng.choice([1, 300, 8000]), b'', b'cache_object://x/info', b'http://10.0.0.2/%00'])
        if d['proto'] == 'icp':
            m = icp(rng.choice([1, 1, 1, 2, 3, 4, 10, 11, 21, 22, 23, 0, 99]), url, reqnum=rng.getrandbits(32), version=rng.choice([2, 2, 3, 0]), flags=rng.choice([0, 0x80000000, 0x40000000, 0xffffffff]))
            port = 3130
        elif d['proto'] == 'htcp':
            m = htcp(rng.choice([0, 1, 1, 1, 2, 3, 4, 4, 9]), url, method=rng.choice([b'GET', b'PURGE', b'', b'X' * 300]), tid=rng.getrandbits(32), rr=rng.choice([0, 0, 1]))
            port = 4827
        else:
            if rng.random() < 0.5:
                # walk squid's own MIB (enterprises.3495.1): scalar groups and tables with column and instance numbers at and around their ends
                base = (1, 3, 6, 1, 4, 1, 3495, 1)
                idx = rng.choice([0, 1, 2, 4, 5, 6, 59, 60, 61, 62, 63, 255, 256, 65535, 2 ** 31 - 1, 2 ** 32 - 1])
                col = rng.choice(list(range(0, 17)) + [255])
                mib_oid = rng.choice([base + (1, col, 0), base + (2, col, 0), base + (3, 1, col, 0), base + (3, 2, 1, col, 0), base + (3, 2, 2, 1, col, idx), base + (3, 2, 2, 1, col),
                                      base + (4, 1, 1, col, 1, 10, 1, 0, 1), base + (4, 1, 1, col, 2, 0, 0, 0, 0, 0, 0, 0, 0, 0, 0, 0, 0, 0, 0, 0, 1), base + (4, 1, 1, col, idx),
                                      base + (5, 1, 1, col, idx), base + (5, 1, 3, 1, col, 1, 10, 0, 0, 2), base + (5, 2, 1, col, idx), base + (rng.randint(0, 7), col, idx)])
            else:
                mib_oid = None
            oid = mib_oid or rng.choice([(1, 3, 6, 1, 4, 1, 3495, 1, 1, 1, 0), (1, 3, 6, 1, 4, 1, 3495, 1), (1, 3), tuple([1, 3] + [rng.randint(0, 2 ** 31) for _ in range(rng.choice([5, 40, 130]))]), (1, 3, 6, 1, 4, 1, 3495, 1, 5, 1, 1, 1, 1, 2, 3, 4)])
            m = snmp(rng.choice([0xA0, 0xA0, 0xA1, 0xA3, 0xA5, 0xA2]) if not mib_oid else rng.choice([0xA0, 0xA0, 0xA1]), rng.choice([b'public', b'public', b'private', b'', b'p' * 300]) if not mib_oid else b'public', oid, version=rng.choice([0, 1, 1, 3]) if not mib_oid else rng.choice([0, 1]), reqid=rng.getrandbits(31))
            if mib_oid and rng.random() < 0.8:
                d = dict(d, rounds=0)
            port = 3401
        if d['rounds']:
            m = mutate_bytes(m, rng, d['rounds'])
        return m[:60000], port

    def build(self, plan):
        scn = self.new_scn(plan)
        scn.knob('peer.expect_timeout_us', 30000000)
        scn.drain_us = 4000000
        good = scn.server('o2', '10.0.0.2', 80)
        for b in plan['bystanders'] + [{'id': plan['probe_id'], 'size': 777, 'start': 0, 'probe': True}]:
            key = hc.obj_key(b['id'])
            good.sub('rule by%d has %s' % (b['id'], tok(b' /by%d ' % b['id']))).add('send %s' % Payload(hc.response_head(200, [(b'Content-Length', b'%d' % b['size']), (b'X-Sim-Ver', key.encode())]), G(key, 0, b['size'])).token())
            cl = scn.client('b%d' % b['id'], start=b['start'] if not b.get('probe') else 3500000)
            cl.add('connect %s %d' % (hc.SQUID_IP, hc.SQUID_PORT))
            cl.add('send %s' % tok(hc.request_head(b'GET', b'http://10.0.0.2/by%d' % b['id'], [(b'Host', b'10.0.0.2'), (b'X-Sim-Req', b'%d' % b['id'])])))
            cl.add('expect response timeout 30000000')
        for d in plan['dgrams']:
            m, port = self.datagram(d)
            scn.line('dgram d%d from 10.3.0.%d %d to %s %d at %d data %s dup %d' % (d['k'], 1 + d['k'] % 200, 5000 + d['k'], hc.SQUID_IP, port, d['at'], tok(m) if m else 'x:', d['dup']))
        return scn, None

    def execute(self, plan, workdir):
        scn, expect = self.build(plan)
        hist = simlib.run_squid(scn, workdir)
        o = hc.base_outcome(hist)
        if o.infra and hist.health_problems() and hist.life_has('first_idle'):
            o.infra = None
        if o.infra:
            return o
        self.judge(plan, expect, hist, o)
        if o.violations and hist.asan_report():
            o.violations[0].detail += ' | ' + hist.asan_report()[:1500].replace('\n', ' / ')
        return o

    def judge(self, plan, expect, hist, o):
        V = o.violations
        stats = {'datagrams_sent': 0, 'replies_seen': 0, 'bystanders_ok': 0, 'probes_ok': 0, 'noport': 0}
        for p in hist.health_problems():
            V.append(Violation('C39:' + re.sub(r'[^a-zA-Z0-9:._-]+', '-', p)[:80], p))
        stats['datagrams_sent'] = sum(1 for e in hist.udp if e[2] == 'DGRM')
        stats['replies_seen'] = sum(1 for e in hist.udp if e[2] == 'UDPS' and not e[3][1].endswith(':53'))
        stats['noport'] = sum(1 for e in hist.events if e[2] == 'DGRM-NOPORT')
        ids = {str(b['id']): b for b in plan['bystanders']}
        ids[str(plan['probe_id'])] = {'id': plan['probe_id'], 'size': 777, 'probe': True}
        seen = set()
        for cv in hc.client_views(hist):
            rid = (cv.req_ids() or [None])[0]
            b = ids.get(rid.decode()) if rid else None
            if not b:
                continue
            seen.add(str(b['id']))
            exp = simlib.gen_bytes(hc.obj_key(b['id']), 0, b['size'])
            ok = cv.finals and cv.finals[0].complete and cv.finals[0].status == 200 and cv.finals[0].body == exp
            if ok:
                stats['probes_ok' if b.get('probe') else 'bystanders_ok'] += 1
            elif not hist.health_problems():
                V.append(Violation('C39:http-not-served', 'HTTP request %s was not served correctly while datagrams were arriving: %s' % (b['id'], cv.finals[0].start if cv.finals else cv.recv_raw[:60])))
        if str(plan['probe_id']) not in seen and not hist.health_problems():
            V.append(Violation('C39:http-not-served', 'the final HTTP probe was never answered'))
        o.stats = stats
        by = {}
        for d in plan['dgrams']:
            if d['rounds']:
                by[d['proto']] = by.get(d['proto'], 0) + 1
        o.nontrivial = sum(1 for v in by.values() if v >= 10) >= 2 and stats['noport'] == 0
        o.sample = {'cache': plan['conf']['cache'], 'dgrams': [[d['proto'], d['rounds'], d['dup']] for d in plan['dgrams'][:10]]}
