"""Shared pieces of the whole-proxy (engine P) workloads: configuration, knobs, tagged objects, views over histories."""
import re
import simlib
from simlib import Payload, G, tok, parse_requests, parse_responses
from framework import Outcome, Violation

SQUID_IP = '10.9.9.9'
SQUID_PORT = 3128

REASONS = {200: 'OK', 203: 'Non-Authoritative Information', 204: 'No Content', 206: 'Partial Content', 301: 'Moved Permanently',
           302: 'Found', 304: 'Not Modified', 400: 'Bad Request', 403: 'Forbidden', 404: 'Not Found', 410: 'Gone', 412: 'Precondition Failed',
           413: 'Content Too Large', 416: 'Range Not Satisfiable', 500: 'Internal Server Error', 502: 'Bad Gateway', 503: 'Service Unavailable',
           201: 'Created', 202: 'Accepted', 303: 'See Other', 307: 'Temporary Redirect', 401: 'Unauthorized', 405: 'Method Not Allowed'}

EDGE_SIZES = [0, 1, 2, 15, 16, 17, 100, 1000, 4095, 4096, 4097, 16383, 16384, 16385, 32767, 32768, 32769, 65535, 65536, 65537,
              100000, 131072, 300000, 1000000]

def pick_size(rng, big_ok=True, max_size=None):
    r = rng.random()
    if r < 0.45:
        s = rng.choice(EDGE_SIZES if big_ok else EDGE_SIZES[:20])
    elif r < 0.85:
        s = rng.randint(0, 20000)
    elif big_ok:
        s = rng.randint(20000, 3000000 if r > 0.97 else 400000)
    else:
        s = rng.randint(0, 70000)
    if max_size is not None:
        s = min(s, max_size)
    return s

def http_date(us):
    import time
    return time.strftime('%a, %d %b %Y %H:%M:%S GMT', time.gmtime(us // 1000000))

def make_conf(opts):
    """opts: dict -> squid.conf text. Keys: cache ('none'|'mem'|'ufs'|'rock'|'shared'), cache_mem_mb, lines [..], port_opts"""
    c = simlib.BASE_CONF
    c += 'http_port %d %s\n' % (SQUID_PORT, opts.get('port_opts', ''))
    for extra in opts.get('extra_ports', []):
        c += 'http_port %s\n' % extra
    cache = opts.get('cache', 'mem')
    c += 'access_log stdio:@RUN@/access.log %s\n' % opts.get('logformat', 'squid')
    if cache == 'none':
        c += 'cache deny all\ncache_mem %d MB\n' % opts.get('cache_mem_mb', 8)
    else:
        c += 'cache_mem %d MB\n' % opts.get('cache_mem_mb', 16)
        if 'max_obj_mem_kb' in opts:
            c += 'maximum_object_size_in_memory %d KB\n' % opts['max_obj_mem_kb']
        if 'max_obj_kb' in opts:
            c += 'maximum_object_size %d KB\n' % opts['max_obj_kb']
        if cache == 'shared':
            c += 'memory_cache_shared on\n'
        if cache in ('ufs', 'both'):
            c += 'cache_dir ufs @RUN@/cache/ufs %d 4 4\n' % opts.get('ufs_mb', 64)
        if cache == 'ufs2':   # two ufs cache_dirs; the first one takes small objects only, so both are populated unevenly
            c += 'cache_dir ufs @RUN@/cache/ufs %d 4 4 max-size=%d\n' % (opts.get('ufs_mb', 64), opts.get('ufs_small_max', 4096))
            c += 'cache_dir ufs @RUN@/cache/ufsb %d 4 4\n' % opts.get('ufs_mb', 64)
        if cache in ('rock', 'both'):
            c += 'cache_dir rock @RUN@/cache/rock %d slot-size=%d\n' % (opts.get('rock_mb', 64), opts.get('rock_slot', 16384))
        if cache in ('ufs', 'ufs2', 'rock', 'both') and opts.get('store_log'):
            c += 'cache_store_log stdio:@RUN@/store.log\n'
    for l in opts.get('lines', []):
        c += l + '\n'
    if not opts.get('no_default_access'):
        c += 'http_access allow all\n'
    return c

def draw_knobs(rng, hostile=True):
    """Simulator knobs for one run (swarm: each run enables its own subset)."""
    k = {}
    if rng.random() < 0.7:
        k['net.seg.max'] = [rng.choice([8, 64, 512, 1460, 4096, 16384, 65536])]
    else:
        k['net.seg.mode'] = [rng.choice(['whole', 'byte']) if rng.random() < 0.8 else 'byte']
    if rng.random() < 0.6:
        k['epoll.subset_p'] = [round(rng.choice([0.1, 0.3, 0.6]), 2)]
    if rng.random() < 0.6:
        k['epoll.shuffle_p'] = [round(rng.choice([0.2, 0.5, 1.0]), 2)]
    if hostile:
        if rng.random() < 0.4:
            k['io.shortwrite_p'] = [rng.choice([0.05, 0.3])]
        if rng.random() < 0.4:
            k['io.readcap_p'] = [rng.choice([0.05, 0.3])]
        if rng.random() < 0.3:
            k['io.eagain_p'] = [rng.choice([0.02, 0.1])]
        if rng.random() < 0.3:
            k['epoll.eintr'] = [0.02]
    k['clock.tick_us'] = [1, rng.choice([5, 20, 200])]
    return k

def bound_transfer(t, knobs, budget_us=15000000):
    """keep one scripted transfer inside a simulated-time budget: tiny segments x pacing x size must stay far below the peers' timeouts"""
    byte_mode = knobs.get('net.seg.mode', [''])[0] == 'byte' or t.get('seg') == 'byte'
    if byte_mode and t['size'] > 3000:
        t['size'] = t['size'] % 3000
    cap = knobs.get('net.seg.max', [16384])[0]
    eff = 1 if byte_mode else max(1, min(cap, 1460) // 3)
    nseg = t['size'] // eff + 1
    if t.get('pace') and t['pace'] * nseg // 2 > budget_us:
        t['pace'] = max(0, 2 * budget_us // nseg)
    return t

SIMPLE_KNOBS = {'net.seg.mode': ['whole'], 'clock.tick_us': [1, 5]}

def apply_knobs(scn, knobs):
    for k, v in sorted(knobs.items()):
        scn.knob(k, *v)

def obj_key(n):
    return 'b%07d' % n

def response_head(status, headers, version=b'HTTP/1.1'):
    out = version + b' ' + str(status).encode() + b' ' + REASONS.get(status, 'Status').encode() + b'\r\n'
    for k, v in headers:
        out += k + b': ' + v + b'\r\n'
    return out + b'\r\n'

def request_head(method, target, headers, version=b'HTTP/1.1'):
    out = method + b' ' + target + b' ' + version + b'\r\n'
    for k, v in headers:
        out += k + b': ' + v + b'\r\n'
    return out + b'\r\n'

def is_squid_error(m):
    return m.get(b'x-squid-error') is not None

class ClientConnView:
    """One client connection: requests the client actually sent, responses it actually received, how it ended."""
    def __init__(self, hist, conn):
        self.conn = conn
        self.sent_raw = hist.to_squid(conn)
        self.reqs, self.req_left, self.req_err = parse_requests(self.sent_raw)
        self.recv_raw = hist.peer_received(conn)
        self.squid_fin = conn.first('PEOF') is not None
        self.squid_rst = conn.first('PRST') is not None
        # the peer closed/reset its side before squid closed: whatever is missing afterwards is the client's doing
        pc = conn.first('PCLOSE') or conn.first('PRSTSND')
        sc = conn.first('CLOSE')
        self.client_gave_up = pc is not None and (sc is None or pc[0] < sc[0])
        self.methods = [r.method for r in self.reqs if not getattr(r, 'partial_head', False)]
        # a close-delimited response is complete only when squid ended the stream; an end caused by the client's own (earlier) close completes nothing
        self.resps, self.resp_left, self.resp_err = parse_responses(self.recv_raw, self.methods, closed=self.squid_fin and not self.client_gave_up)
        self.finals = [r for r in self.resps if not getattr(r, 'interim', False) and not getattr(r, 'partial_head', False)]
    def req_ids(self):
        return [r.get(b'x-sim-req') for r in self.reqs]

def client_views(hist, name=None):
    return [ClientConnView(hist, c) for c in sorted(hist.client_conns(name), key=lambda c: c.id)]

class ServerConnView:
    def __init__(self, hist, conn):
        self.conn = conn
        self.recv_raw = hist.peer_received(conn)          # what the origin actually got
        self.squid_wrote = hist.from_squid(conn)           # what squid wrote (may exceed what arrived)
        self.reqs, self.left, self.err = parse_requests(self.recv_raw)
        self.sent_raw = hist.to_squid(conn)
        self.squid_fin = conn.first('PEOF') is not None
        self.squid_rst = conn.first('PRST') is not None

def server_views(hist, name=None):
    return [ServerConnView(hist, c) for c in sorted(hist.server_conns(name), key=lambda c: c.id) if c.established]

def upstream_requests_by_id(hist):
    """X-Sim-Req id -> list of (ServerConnView, Msg) of upstream requests that reached an origin"""
    out = {}
    for sv in server_views(hist):
        for r in sv.reqs:
            rid = r.get(b'x-sim-req')
            if rid is not None:
                out.setdefault(rid, []).append((sv, r))
    return out

def norule_is_garbage(hist):
    """True when every 'no rule matches' event comes from bytes that are not an HTTP request at all (squid's fault, for the property to judge),
    False when a well-formed request went unanswered (a gap in the scenario)"""
    found = False
    for sc in hist.server_conns():
        if not any(e[2] == 'NORULE' for e in sc.events):
            continue
        reqs, left, err = simlib.parse_requests(hist.peer_received(sc))
        if not err:
            return False
        found = True
    return found

def base_outcome(hist, require_ready=True, allow_norule=False):
    """Outcome pre-filled with universal health information."""
    o = Outcome()
    o.fp = hist.fingerprint(); o.sig = hist.schedule_signature(); o.probes = dict(hist.probes); o.simsec = hist.sim_seconds()
    if require_ready and not hist.life_has('ready'):
        o.infra = 'squid never became ready: rc=%s end=%s out=%s log=%s' % (hist.rc, hist.end, hist.output[-300:], hist.cache_log()[-400:])
    elif hist.end in ('limit-events', 'limit-wall', 'limit-simtime', 'deadlock'):
        o.infra = 'run cut short by the simulator (%s): scenario too long for its limits' % hist.end
    elif hist.probes.get('sim.norule') and not allow_norule and not norule_is_garbage(hist):
        o.infra = 'scenario bug: an origin received a request no rule matches'
    return o

def health_violations(hist, pid):
    """Crash / sanitizer / assertion: violates C09/C08 style guarantees; returned as notes for other properties."""
    probs = hist.health_problems()
    return probs

def diff_desc(got, exp):
    if got == exp:
        return 'equal'
    if exp.startswith(got):
        return 'proper prefix (%d of %d bytes)' % (len(got), len(exp))
    if got.startswith(exp):
        return 'superset (%d > %d bytes)' % (len(got), len(exp))
    n = min(len(got), len(exp))
    i = next((j for j in range(n) if got[j] != exp[j]), n)
    return 'differs at byte %d (got %d bytes, expected %d): got %r expected %r' % (i, len(got), len(exp), got[max(0, i - 8):i + 24], exp[max(0, i - 8):i + 24])

# ------------------------------------------------------------------------------------------------ base class for engine-P checks
from framework import Prop

class PProp(Prop):
    """plan -> build(plan) -> (Scn, expectation) -> run -> judge(plan, expectation, hist)"""
    engine = 'P'
    sim_limit_s = 1200
    def build(self, plan):
        raise NotImplementedError
    def judge(self, plan, expect, hist, o):
        raise NotImplementedError
    def new_scn(self, plan):
        scn = simlib.Scn(plan['sim_seed'])
        scn.conf = make_conf(plan['conf'])
        scn.limits['simtime_s'] = self.sim_limit_s
        apply_knobs(scn, plan.get('knobs', {}))
        return scn
    def execute(self, plan, workdir):
        scn, expect = self.build(plan)
        hist = simlib.run_squid(scn, workdir)
        o = base_outcome(hist)
        if o.infra:
            return o
        for p in hist.health_problems():
            o.notes.append('health (see C09/C08): ' + p)
        self.judge(plan, expect, hist, o)
        return o

def std_plan(rng, conf=None, hostile=True):
    plan = {'sim_seed': rng.getrandbits(48), 'knobs': draw_knobs(rng, hostile=hostile), 'conf': conf or {'cache': 'none'}}
    plan['_simplify'] = {'knobs': SIMPLE_KNOBS}
    return plan
