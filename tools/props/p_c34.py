"""C34 Each transaction yields exactly one well-delimited log record. DESIGN.md §4."""
import os, random, re, base64
import simlib
from simlib import tok
from framework import Violation
from props import register
from props import httpcommon as hc

EVIL = ['plain', 'with space', 'quote"inside', 'back\\slash', 'tab\there', 'percent%41%', '[brackets]', 'S=999 Q="forged" M=[x]', '\\r\\n S=1', 'a"b\\"c\\\\', "single'quote",
        'eight\xe9bit\xff', ' lead', '"', '\\', '%', ']', '[', 'x' * 300, 'a  b', '"; rm -rf', 'end\\']
EVIL_USER = EVIL + ['cr\rlf\nuser', 'new\nline', 'nul-free\x01ctl', 'colon-free user', 'a\tb']

def unquote_quoted(s):   # log_quoted_string inverse
    out = []; i = 0
    while i < len(s):
        c = s[i]
        if c == '\\' and i + 1 < len(s):
            n = s[i + 1]; out.append({'r': '\r', 'n': '\n', 't': '\t'}.get(n, n)); i += 2
        else:
            out.append(c); i += 1
    return ''.join(out)

def unquote_mime(s):
    out = []; i = 0
    while i < len(s):
        c = s[i]
        if c == '\\' and i + 1 < len(s):
            n = s[i + 1]; out.append({'r': '\r', 'n': '\n', '\\': '\\'}.get(n, '\\' + n)); i += 2
        elif c == '%' and i + 2 < len(s) + 0 and re.match(r'[0-9a-fA-F]{2}', s[i + 1:i + 3]):
            out.append(chr(int(s[i + 1:i + 3], 16))); i += 3
        else:
            out.append(c); i += 1
    return ''.join(out)

def unquote_url(s):
    return re.sub(r'%([0-9a-fA-F]{2})', lambda m: chr(int(m.group(1), 16)), s)

def read_shell_word(line, pos):
    """-> (decoded, new pos) for strwordquote output starting at pos"""
    out = []
    quoted = pos < len(line) and line[pos] == '"'
    if quoted:
        pos += 1
    while pos < len(line):
        c = line[pos]
        if c == '\\' and pos + 1 < len(line):
            n = line[pos + 1]; out.append({'n': '\n', 'r': '\r'}.get(n, n)); pos += 2; continue
        if quoted and c == '"':
            pos += 1; break
        if not quoted and c == ' ':
            break
        out.append(c); pos += 1
    return ''.join(out), pos

LOGFORMAT = 'logformat sim S=%{X-Sim-Req}>h Q="%"{X-Evil}>h" M=[%[{X-Evil}>h] U=%#{X-Evil}>h H=%/{X-Evil}>h D=%{X-Evil}>h N="%"un" NU=%#un NM=[%[un] R=%#ru E'

def parse_line(line):
    """-> dict of decoded fields or None if the line does not have the configured shape"""
    m = re.match(r'^S=(\S*) Q="', line)
    if not m:
        return None
    out = {'S': m.group(1)}
    pos = m.end()
    # quoted-string up to the first unescaped quote
    i = pos
    while i < len(line):
        if line[i] == '\\':
            i += 2; continue
        if line[i] == '"':
            break
        i += 1
    out['Q'] = unquote_quoted(line[pos:i])
    rest = line[i:]
    m = re.match(r'^" M=\[([^\]]*)\] U=(\S*) H=', rest)
    if not m:
        return None
    out['M'] = unquote_mime(m.group(1)); out['U'] = unquote_url(m.group(2))
    pos = i + m.end()
    out['H'], pos = read_shell_word(line, pos)
    rest = line[pos:]
    m = re.match(r'^ D=(\S*) N="', rest)
    if not m:
        return None
    out['D'] = unquote_url(m.group(1))
    pos += m.end(); i = pos
    while i < len(line):
        if line[i] == '\\':
            i += 2; continue
        if line[i] == '"':
            break
        i += 1
    out['N'] = unquote_quoted(line[pos:i])
    m = re.match(r'^" NU=(\S*) NM=\[([^\]]*)\] R=(\S*) E$', line[i:])
    if not m:
        return None
    out['NU'] = unquote_url(m.group(1)); out['NM'] = unquote_mime(m.group(2)); out['R'] = unquote_url(m.group(3))
    return out

@register
class C34(hc.PProp):
    id = 'C34'
    rule = ('each run = 6-20 transactions (some aborted by the client) through a squid that requires Basic proxy authentication (scripted helper says OK) and logs '
            'with a custom logformat using every quoting modifier (quoted-string ", mime-blob [, URL #, shell /, default) on a hostile request header value, on the '
            'authenticated user name (which may contain CR, LF, TAB, quotes, backslashes, 8-bit bytes) and on the URL; non-trivial = at least one record with a '
            'hostile value was decoded and compared; distinct = history fingerprint')
    quick_runs = 200
    thorough_runs = 5000
    quick_wall = 50
    thorough_wall = 900
    assumptions = ['the raw modifier (\') is not a quoting and is not used; the decoders are the inverses of the documented transformations']
    expected_probes = ['records_decoded', 'hostile_values_compared']

    def plan(self, rng, tier, index):
        plan = hc.std_plan(rng, {'cache': 'none', 'no_default_access': True, 'logformat': 'sim', 'lines': [LOGFORMAT,
            'auth_param basic program /bin/true sim=auth', 'auth_param basic children 2', 'auth_param basic realm sim', 'auth_param basic casesensitive on', 'acl authed proxy_auth REQUIRED', 'http_access allow authed',
            'http_access deny all', 'buffered_logs off']}, hostile=False)
        def grow(v, target):
            # the same hostile value stretched across squid's fixed-size quoting buffers (512 and 1024/4096 byte boundaries), keeping its separators inside
            if not target or len(v) >= target:
                return v
            fill = (v + ' pad\t') * (target // (len(v) + 5) + 1)
            return (v + ' ' + fill)[:target].rstrip(' \t') or v
        plan['txns'] = [{'id': index * 100 + k, 'evil': grow(rng.choice(EVIL), rng.choice([0, 0, 0, 500, 510, 511, 512, 513, 520, 1023, 1025, 3000])),
                         'user': grow(rng.choice(EVIL_USER), rng.choice([0, 0, 0, 0, 0, 511, 512, 600])), 'abort': rng.random() < 0.15,
                         'path': rng.choice(['p', 'p%0d%0aS=7', 'q?a="b"', "r'[x]"])}
                        for k in range(rng.randint(6, 20))]
        plan['_lists'] = ['txns']
        return plan

    def build(self, plan):
        scn = self.new_scn(plan)
        # the logformat line must precede access_log: rebuild the config with it first
        conf = scn.conf
        lf = LOGFORMAT + '\n'
        conf = conf.replace(lf, '')
        conf = conf.replace('access_log ', lf + 'access_log ', 1)
        scn.conf = conf
        srv = scn.server('o1', '10.0.0.1', 80)
        r = srv.sub('rule slow has %s' % tok(b'X-Abort: 1'))
        r.add('wait 2000000'); r.add('send %s' % tok(hc.response_head(200, [(b'Content-Length', b'2')]) + b'ok'))
        srv.sub('rule any').add('send %s' % tok(hc.response_head(200, [(b'Content-Length', b'2')]) + b'ok'))
        h = scn.helper('auth', 0)
        h.add('rule ok reply %s' % tok(b'OK'))
        for i, t in enumerate(plan['txns']):
            cl = scn.client('c%d' % i, start=i * 3000)
            cl.add('connect %s %d' % (hc.SQUID_IP, hc.SQUID_PORT))
            cred = base64.b64encode(t['user'].encode('latin-1') + b':pw')
            hd = [(b'Host', b'10.0.0.1'), (b'X-Sim-Req', b'%d' % t['id']), (b'X-Evil', t['evil'].encode('latin-1')), (b'Proxy-Authorization', b'Basic ' + cred)]
            if t['abort']:
                hd.append((b'X-Abort', b'1'))
            cl.add('send %s' % tok(hc.request_head(b'GET', b'http://10.0.0.1/' + t['path'].encode() + b'%d' % t['id'], hd)))
            if t['abort']:
                cl.add('wait 300000'); cl.add('reset')
            else:
                cl.add('expect response timeout 30000000 soft'); cl.add('close')
        return scn, None

    def judge(self, plan, expect, hist, o):
        V = o.violations
        stats = {'records_decoded': 0, 'hostile_values_compared': 0, 'lines': 0}
        try:
            raw = open(os.path.join(hist.rundir, 'access.log'), 'rb').read().decode('latin-1')
        except OSError:
            raw = ''
        lines = raw.split('\n')
        if lines and lines[-1] == '':
            lines.pop()
        by_id = {str(t['id']): t for t in plan['txns']}
        seen = {}
        for ln in lines:
            stats['lines'] += 1
            rec = parse_line(ln)
            if rec is None:
                V.append(Violation('C34:malformed-record', 'access.log line does not have the configured shape (extra line break or separator injected?): %r' % ln[:300])); continue
            stats['records_decoded'] += 1
            t = by_id.get(rec['S'])
            if t is None:
                V.append(Violation('C34:record-for-unknown-transaction', 'log record names transaction %r: %r' % (rec['S'], ln[:200]))); continue
            seen[rec['S']] = seen.get(rec['S'], 0) + 1
            want = t['evil'].strip(' \t')
            for fld in ('Q', 'M', 'U', 'H'):   # D (default quoting, rfc1738_escape_unescaped) is not one of the four reversible quotings
                stats['hostile_values_compared'] += 1
                if rec[fld] != want:
                    V.append(Violation('C34:field-not-reversible:%s' % fld, 'transaction %s: header value %r logged with quoting %s decodes to %r; line %r' % (rec['S'], want, fld, rec[fld], ln[:300])))
            for fld in ('N', 'NU', 'NM'):
                stats['hostile_values_compared'] += 1
                if rec[fld] != t['user'] and rec[fld] != '-':
                    V.append(Violation('C34:field-not-reversible:%s' % fld, 'transaction %s: user name %r logged with quoting %s decodes to %r; line %r' % (rec['S'], t['user'], fld, rec[fld], ln[:300])))
        answered = set()
        for cv in hc.client_views(hist):
            ids = [x.decode() for x in cv.req_ids() if x is not None]
            for k, m in enumerate(cv.finals[:len(ids)]):
                answered.add(ids[k])
        for rid, n in seen.items():
            if n > 1:
                V.append(Violation('C34:duplicate-record', 'transaction %s has %d access.log records' % (rid, n)))
        for rid in answered:
            if rid in by_id and rid not in seen:
                V.append(Violation('C34:missing-record', 'transaction %s was answered but has no access.log record' % rid))
        o.stats = stats
        o.nontrivial = stats['hostile_values_compared'] > 0
        o.sample = {'logformat': LOGFORMAT, 'txns': [[t['evil'][:40], t['user'][:40], t['abort']] for t in plan['txns'][:6]]}
