"""C15 Range responses contain exactly the requested bytes. DESIGN.md §4."""
import random, re
from framework import Violation
from props import register
from props import httpcommon as hc
from props import cachefam as cf

def parse_range(value, L):
    """-> (list of satisfiable (a,b) inclusive, any_syntax_error).  RFC 9110 14.1.2"""
    m = re.match(r'^\s*bytes\s*=\s*(.*)$', value)
    if not m:
        return None, True
    out = []
    for spec in m.group(1).split(','):
        spec = spec.strip()
        if not spec:
            continue
        mm = re.match(r'^(\d*)\s*-\s*(\d*)$', spec)
        if not mm or (mm.group(1) == '' and mm.group(2) == ''):
            return None, True
        a, b = mm.group(1), mm.group(2)
        if a == '':
            n = int(b)
            if n > 0 and L > 0:
                out.append((max(0, L - n), L - 1))
        else:
            a = int(a)
            if b != '' and int(b) < a:
                return None, True
            if a < L:
                out.append((a, min(int(b), L - 1) if b != '' else L - 1))
    return out, False

def parse_multipart(body, boundary):
    parts = []
    delim = b'--' + boundary
    segs = body.split(delim)
    if len(segs) < 3 or not segs[-1].startswith(b'--'):
        return None
    for seg in segs[1:-1]:
        if not seg.startswith(b'\r\n'):
            return None
        seg = seg[2:]
        i = seg.find(b'\r\n\r\n')
        if i < 0:
            return None
        head, data = seg[:i], seg[i + 4:]
        if not data.endswith(b'\r\n'):
            return None
        data = data[:-2]
        m = re.search(rb'(?im)^content-range:\s*bytes\s+(\d+)-(\d+)/(\d+|\*)\s*$', head.replace(b'\r', b''))
        if not m:
            return None
        parts.append((int(m.group(1)), int(m.group(2)), m.group(3), data))
    return parts

@register
class C15(hc.PProp):
    id = 'C15'
    rule = ('each run = 3-6 cacheable URLs of sizes 0..200 KB (edges around 4 KB/32 KB/64 KB), range_offset_limit none/0/-1, 10-30 GETs two thirds '
            'with Range: 1-6 specs mixing first-last, open, suffix, overlapping, out-of-order, beyond-length, zero-length-object and syntactically '
            'invalid forms, on cold and warm cache. non-trivial = a 206 or 416 response was checked byte for byte; distinct = history fingerprint')
    quick_runs = 240
    thorough_runs = 5000
    quick_wall = 50
    thorough_wall = 900
    assumptions = ['the representation a 206 is cut from is identified by the X-Sim-Ver header the origin attached to it']
    expected_probes = ['n206_single', 'n206_multipart', 'n200_with_range']
    sim_limit_s = 3000

    def plan(self, rng, tier, index):
        rol = rng.choice([None, '0', '-1', '10 KB'])
        plan = hc.std_plan(rng, {'cache': rng.choice(['mem', 'mem', 'rock', 'ufs', 'none']), 'cache_mem_mb': 16, 'lines': ['range_offset_limit %s' % rol] if rol else []}, hostile=rng.random() < 0.4)
        if plan['conf']['cache'] in ('rock', 'ufs') and rng.random() < 0.6:
            # hits read from the cache_dir, not from memory: the first store answer then carries body bytes together with the headers
            plan['conf']['lines'].append(rng.choice(['maximum_object_size_in_memory 0 KB', 'memory_cache_mode disk']))
        urls = []
        for u in range(rng.randint(3, 6)):
            urls.append({'sizes': [rng.choice([0, 1, 2, 100, 4095, 4096, 4097, 10000, 32768, 65536, 65537, 200000])], 'lm': True, 'cc': 'max-age=100000',
                         'framing': rng.choice(['cl', 'cl', 'chunked'])})
        plan['urls'] = urls
        steps = []
        rid = index * 1000
        for k in range(rng.randint(10, 30)):
            rid += 1
            u = rng.randrange(len(urls)); L = urls[u]['sizes'][0]
            hd = []
            if rng.random() < 0.7:
                specs = []
                for _ in range(rng.choice([1, 1, 1, 2, 3, 6])):
                    r = rng.random()
                    a = rng.choice([0, 1, L // 2, max(L - 1, 0), L, L + 5, rng.randint(0, L + 10)])
                    if r < 0.45:
                        specs.append('%d-%d' % (a, a + rng.choice([0, 1, 10, 4096, L, 10 ** 9])))
                    elif r < 0.65:
                        specs.append('%d-' % a)
                    elif r < 0.85:
                        specs.append('-%d' % rng.choice([0, 1, 5, L // 2, L, L + 7]))
                    elif r < 0.9:
                        specs.append('%d-%d' % (a + 5, a))      # invalid: last < first
                    elif r < 0.93:
                        specs.append(rng.choice(['abc', '1-2-3', '-', '5']))
                    else:
                        specs.append('%d-%d' % (a // 2, a // 2 + 100))
                sep = rng.choice([',', ', ', ' ,'])
                unit = rng.choice(['bytes=', 'bytes=', 'bytes=', 'bytes=', 'bytes=', 'items='])
                hd.append(('Range', unit + sep.join(specs)))
            steps.append({'id': rid, 'u': u, 'wait': rng.choice([0, 1000, 300000]), 'hdrs': hd, 'new_conn': rng.random() < 0.3})
        plan['clients'] = [{'name': 'c0', 'steps': steps}]
        plan['_lists'] = ['clients.0.steps']
        return plan

    def build(self, plan):
        scn, srv = cf.build_world(self, plan)
        return scn, None

    def judge(self, plan, expect, hist, o):
        V = o.violations
        recs, sent = cf.analyse(hist, plan)
        stats = {'n206_single': 0, 'n206_multipart': 0, 'n416': 0, 'n200_with_range': 0, 'bytes_compared': 0}
        for r in recs:
            if r.u is None or hc.is_squid_error(r.resp) and r.resp.status != 416:
                continue
            m = r.resp
            rng_hdr = [v for k, v in r.step['hdrs'] if k.lower() == 'range']
            full = cf.version_body(plan, r.u, 1)
            L = len(full)
            want, bad = parse_range(rng_hdr[0], L) if rng_hdr else (None, True)
            if m.status == 200:
                if m.complete and m.body != full:
                    cls = 'C15:wrong-200-body'
                    # one recognisable shape: the body starts at the lowest first-byte-pos named in the Range header that squid then decided to ignore
                    firsts = [int(x) for x in re.findall(r'(?:=|,)\s*(\d+)\s*-', rng_hdr[0])] if rng_hdr else []
                    if firsts and min(firsts) > 0 and not re.search(r'(?:=|,)\s*-\s*\d', rng_hdr[0]) and len(m.body) == len(full):
                        off = min(firsts); sh = full[off:]
                        i = next((j for j in range(len(sh)) if m.body[j] != sh[j]), len(sh))
                        # the first store buffer was advanced by `off`, the following reads continue from the unshifted position: full[off:n] + full[n-off:]
                        if i > 0 and m.body[i:] == full[i:]:
                            cls = 'C15:wrong-200-body:starts-at-lowest-range-offset'
                    V.append(Violation(cls, 'request %s Range %r: 200 body differs from the representation: %s' % (r.id, rng_hdr, hc.diff_desc(m.body, full))))
                if rng_hdr:
                    stats['n200_with_range'] += 1
                continue
            if m.status == 416:
                stats['n416'] += 1
                if not rng_hdr or bad or want:
                    V.append(Violation('C15:416-for-satisfiable', 'request %s Range %r on a %d-byte representation got 416 (satisfiable ranges: %s, syntax error: %s)' % (r.id, rng_hdr, L, want, bad)))
                continue
            if m.status != 206:
                continue
            if not rng_hdr:
                V.append(Violation('C15:206-without-range', 'request %s without Range got 206' % r.id)); continue
            if bad:
                # squid parses some syntactically invalid headers leniently (e.g. "bytes=1-2-3" as 1-2); C15 speaks about the content of a 206, so
                # only the parts are checked against their own Content-Range here, no coverage is demanded (strict rejection is property C28)
                stats['n206_lenient_syntax'] = stats.get('n206_lenient_syntax', 0) + 1
                want = []
            ct = m.get(b'content-type') or b''
            if not m.complete:
                # nothing in this world cuts a transfer short: a 206 that never completes promised more bytes than it delivers
                cr = re.match(rb'^bytes\s+(\d+)-(\d+)/(\d+|\*)$', m.get(b'content-range') or b'')
                if cr and int(cr.group(2)) >= L:
                    V.append(Violation('C15:range-outside-representation', 'request %s Range %r: Content-Range %s of a %d-byte representation (response never completed)' % (r.id, rng_hdr[0], (m.get(b'content-range') or b'').decode('latin-1'), L)))
                elif not r.conn.client_gave_up:
                    V.append(Violation('C15:incomplete-206', 'request %s Range %r on %d bytes: the 206 (Content-Length %r, Content-Range %r) was never completed: %d body bytes arrived' % (r.id, rng_hdr[0], L, m.get(b'content-length'), m.get(b'content-range'), len(m.body))))
                continue
            mm = re.match(rb'(?i)multipart/byteranges;\s*boundary="?([^";]+)"?', ct)
            if mm:
                parts = parse_multipart(m.body, mm.group(1))
                if parts is None:
                    V.append(Violation('C15:malformed-multipart', 'request %s: multipart/byteranges body does not parse: %r' % (r.id, m.body[:200]))); continue
                stats['n206_multipart'] += 1
            else:
                cr = re.match(rb'^bytes\s+(\d+)-(\d+)/(\d+|\*)$', m.get(b'content-range') or b'')
                if not cr:
                    V.append(Violation('C15:206-without-content-range', 'request %s: 206 with Content-Range %r' % (r.id, m.get(b'content-range')))); continue
                parts = [(int(cr.group(1)), int(cr.group(2)), cr.group(3), m.body)]
                stats['n206_single'] += 1
            covered = set()
            ok = True
            for (a, b, total, data) in parts:
                if total != b'*' and int(total) != L:
                    V.append(Violation('C15:wrong-instance-length', 'request %s: Content-Range %d-%d/%s but the representation has %d bytes' % (r.id, a, b, total.decode(), L))); ok = False
                if b < a or b >= L:
                    V.append(Violation('C15:range-outside-representation', 'request %s: part %d-%d of a %d-byte representation' % (r.id, a, b, L))); ok = False; continue
                stats['bytes_compared'] += len(data)
                if data != full[a:b + 1]:
                    V.append(Violation('C15:part-bytes-differ', 'request %s Range %r: part %d-%d/%d: %s' % (r.id, rng_hdr[0], a, b, L, hc.diff_desc(data, full[a:b + 1])))); ok = False
                covered.add((a, b))
            if ok:
                need = set()
                for (a, b) in want:
                    need.update(range(a, b + 1)) if b - a < 300000 else None
                have = set()
                for (a, b) in covered:
                    have.update(range(a, b + 1))
                missing = need - have
                if missing:
                    V.append(Violation('C15:requested-bytes-missing', 'request %s Range %r on %d bytes: %d requested satisfiable bytes are in no part (first missing %d); parts %s' % (r.id, rng_hdr[0], L, len(missing), min(missing), sorted(covered))))
        o.stats = stats
        o.nontrivial = stats['n206_single'] + stats['n206_multipart'] + stats['n416'] > 0
        o.sample = {'conf': plan['conf'], 'sizes': [u['sizes'][0] for u in plan['urls']], 'first_steps': [[s['u'], s['hdrs']] for s in plan['clients'][0]['steps'][:6]]}
