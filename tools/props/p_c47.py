"""C47 Helper replies reach the request that asked. DESIGN.md §4."""
import random, re
import simlib
from simlib import tok
from framework import Violation
from props import register
from props import httpcommon as hc

@register
class C47(hc.PProp):
    id = 'C47'
    rule = ('each run = url_rewrite_program and an external_acl_type helper (concurrency 0 or 2-8, 1-2 children, result caching off), 6-30 requests on 1-4 '
            'client connections; per request the scripted helpers answer after 0-200 ms (so replies overtake each other), split the reply line across '
            'writes, prepend a reply for an unknown channel or send the reply twice; the rewritten URL is a keyed function of the request, the external '
            'ACL verdict a keyed function of the request id. non-trivial = at least 4 requests answered with overlapping helper lookups were judged; '
            'distinct = history fingerprint')
    quick_runs = 240
    thorough_runs = 6000
    quick_wall = 50
    thorough_wall = 900
    assumptions = ['helpers are scripted peers on the simulated stream pair squid creates in ipcCreate(); cache of helper results is disabled (ttl=0, url_rewrite cache n/a)']
    expected_probes = ['rewrites_judged', 'acl_verdicts_judged', 'fault.helper.unknown_channel', 'fault.helper.dup_reply']

    def plan(self, rng, tier, index):
        rc = rng.choice([0, 2, 8]); ec = rng.choice([0, 2, 8])
        lines = ['url_rewrite_program /bin/true sim=rw', 'url_rewrite_children %d startup=1 concurrency=%d' % (rng.choice([1, 2]), rc), 'url_rewrite_extras "%%{X-Sim-Req}>h"',
                 'external_acl_type chk ttl=0 negative_ttl=0 children-max=%d children-startup=1 concurrency=%d %%{X-Sim-Key}>ha /bin/true sim=ext' % (rng.choice([1, 2]), ec),
                 'acl extok external chk', 'http_access allow extok', 'http_access deny all']
        # third stratum: a rewriter timeout (on_timeout=bypass) with some answers arriving late, possibly split across writes
        tmo = rng.choice([1, 2]) if rc > 0 and rng.random() < 0.4 else 0
        if tmo:
            lines.insert(3, 'url_rewrite_timeout %d seconds on_timeout=bypass' % tmo)
        plan = hc.std_plan(rng, {'cache': 'none', 'no_default_access': True, 'lines': lines}, hostile=rng.random() < 0.3)
        plan['rc'] = rc; plan['ec'] = ec; plan['rw_timeout'] = tmo
        conns = []
        rid = index * 1000
        for c in range(rng.randint(1, 4)):
            steps = []
            for _ in range(rng.randint(3, 10)):
                rid += 1
                def beh():
                    return {'delay': rng.choice([0, 0, 1000, 20000, 200000]), 'frag': rng.choice([0, 0, 1, 3]), 'chan': rng.choice(['same'] * 6 + ['unknown', 'dup'])}
                st = {'id': rid, 'allow': rng.random() < 0.75, 'rw': beh(), 'ext': beh(), 'pipeline': rng.random() < 0.3}
                if tmo and rng.random() < 0.3:
                    st['rw'] = {'delay': tmo * 1000000 + rng.choice([300000, 1000000, 2500000]), 'frag': rng.choice([0, 1, 1, 3]), 'chan': 'same'}
                    st['allow'] = True
                steps.append(st)
            conns.append({'name': 'c%d' % c, 'start': rng.choice([0, 0, 300]), 'steps': steps})
        plan['conns'] = conns
        plan['_lists'] = ['conns'] + ['conns.%d.steps' % i for i in range(len(conns))]
        return plan

    def build(self, plan):
        scn = self.new_scn(plan)
        scn.knob('peer.expect_timeout_us', 60000000)
        srv = scn.server('o1', '10.0.0.1', 80)
        srv.sub('rule any').add('send %s' % tok(hc.response_head(200, [(b'Content-Length', b'2')]) + b'ok'))
        rw = scn.helper('rw', plan['rc'])
        ext = scn.helper('ext', plan['ec'])
        for c in plan['conns']:
            for st in c['steps']:
                b = st['rw']
                mode = b['chan'] if plan['rc'] > 0 else 'same'
                rw.add('rule r%d has %s reply %s delay %d frag %d chan %s' % (st['id'], tok(b'/r%d ' % st['id']), tok(b'OK rewrite-url="http://10.0.0.1/w%d"' % st['id']), b['delay'] if plan['rc'] > 0 else min(b['delay'], 20000), b['frag'], mode))
                b = st['ext']
                mode = b['chan'] if plan['ec'] > 0 else 'same'
                ext.add('rule e%d has %s reply %s delay %d frag %d chan %s' % (st['id'], tok(b'q%dq' % st['id']), tok(b'OK tag=t%d' % st['id'] if st['allow'] else b'ERR message="no%d"' % st['id']), b['delay'] if plan['ec'] > 0 else min(b['delay'], 20000), b['frag'], mode))
        rw.add('rule none reply %s' % tok(b'ERR'))
        ext.add('rule none reply %s' % tok(b'ERR'))
        for c in plan['conns']:
            cl = scn.client(c['name'], start=c['start'])
            cl.add('connect %s %d' % (hc.SQUID_IP, hc.SQUID_PORT))
            pending = 0
            for st in c['steps']:
                cl.add('send %s' % tok(hc.request_head(b'GET', b'http://10.0.0.1/r%d' % st['id'], [(b'Host', b'10.0.0.1'), (b'X-Sim-Req', b'%d' % st['id']), (b'X-Sim-Key', b'q%dq' % st['id'])])))
                pending += 1
                if not st['pipeline']:
                    for _ in range(pending):
                        cl.add('expect response timeout 60000000 soft')
                    pending = 0
            for _ in range(pending):
                cl.add('expect response timeout 60000000 soft')
        return scn, None

    def judge(self, plan, expect, hist, o):
        V = o.violations
        stats = {'rewrites_judged': 0, 'acl_verdicts_judged': 0}
        steps = {}
        for c in plan['conns']:
            for st in c['steps']:
                steps[str(st['id'])] = st
        up = hc.upstream_requests_by_id(hist)
        resp = {}
        for cv in hc.client_views(hist):
            ids = [x.decode() for x in cv.req_ids() if x is not None]
            for k, m in enumerate(cv.finals[:len(ids)]):
                resp[ids[k]] = m
        asked = set(e[3][2] for e in hist.helpers if e[2] == 'HREQ')   # rule ids r<id>/e<id>: the helper really was asked for that request
        for rid, st in steps.items():
            if rid not in resp:
                continue
            m = resp[rid]
            fw = up.get(rid.encode(), [])
            stats['acl_verdicts_judged'] += 1
            if st['allow']:
                for sv, r in fw:
                    stats['rewrites_judged'] += 1
                    if 'r%s' % rid not in asked:
                        continue
                    tmo = plan.get('rw_timeout', 0)
                    if tmo and r.target == b'/r%d' % st['id'] and st['rw']['delay'] >= tmo * 800000:
                        stats['timed_out_bypassed'] = stats.get('timed_out_bypassed', 0) + 1   # its own answer came (nearly) too late: forwarding it unrewritten is what on_timeout=bypass means
                        continue
                    if r.target != b'/w%d' % st['id']:
                        V.append(Violation('C47:rewrite-result-misapplied', 'request %s was forwarded as %r; its own rewriter reply names /w%s (rewriter concurrency %d, behaviour %s)' % (rid, r.target, rid, plan['rc'], st['rw'])))
                if not fw and m.status == 403 and 'e%s' % rid in asked:   # a request squid refused without asking (helper queue overload) is not a reply mix-up
                    V.append(Violation('C47:acl-verdict-misapplied:denied', 'request %s was denied although its own external ACL reply was OK (concurrency %d, behaviour %s)' % (rid, plan['ec'], st['ext'])))
            else:
                if fw:
                    V.append(Violation('C47:acl-verdict-misapplied:allowed', 'request %s was forwarded although its own external ACL reply was ERR (concurrency %d, behaviour %s)' % (rid, plan['ec'], st['ext'])))
        o.stats = stats
        o.nontrivial = stats['rewrites_judged'] >= 4
        o.sample = {'rc': plan['rc'], 'ec': plan['ec'], 'conn0': [[s['allow'], s['rw'], s['ext']] for s in plan['conns'][0]['steps']][:4]}
