"""C38 PROXY protocol headers are parsed faithfully and incrementally. DESIGN.md §4."""
import os, random, re, struct, socket
import simlib
from simlib import tok
from framework import Violation
from props import register
from props import httpcommon as hc

SIG2 = b'\r\n\r\n\x00\r\nQUIT\n'
REJECT_US = 2000000   # a rejection is a synchronous decision of the parser: squid's close follows its last read at once (never seen above 0 s on the pinned tree)

def v1(fam, src, dst, sport, dport):
    if fam == 'UNKNOWN':
        return b'PROXY UNKNOWN\r\n'
    return ('PROXY %s %s %s %d %d\r\n' % (fam, src, dst, sport, dport)).encode()

def v2(cmd, fam, src, dst, sport, dport, tlvs=()):
    if fam == 'TCP4':
        addr = socket.inet_pton(socket.AF_INET, src) + socket.inet_pton(socket.AF_INET, dst) + struct.pack('>HH', sport, dport); fp = 0x11
    elif fam == 'TCP6':
        addr = socket.inet_pton(socket.AF_INET6, src) + socket.inet_pton(socket.AF_INET6, dst) + struct.pack('>HH', sport, dport); fp = 0x21
    else:
        addr = b''; fp = 0x00
    t = b''.join(bytes([ty]) + struct.pack('>H', len(val)) + val for ty, val in tlvs)
    return SIG2 + bytes([0x20 | (1 if cmd == 'PROXY' else 0), fp]) + struct.pack('>H', len(addr) + len(t)) + addr + t

@register
class C38(hc.PProp):
    id = 'C38'
    rule = ('each run = 8-24 connections to an http_port with require-proxy-header: a PROXY v1 or v2 header from a reference encoder (TCP4/TCP6/UNKNOWN/UNSPEC, '
            'PROXY/LOCAL commands, random addresses and ports, 0-3 TLVs) followed by an HTTP request, delivered under seeded segmentation down to single '
            'bytes; one third of the headers are malformed (bad signature or magic, oversized v1 line, out-of-range or zero ports, family mismatch, '
            'short v2 length, TLV running past or cut by the declared length, bad version/command, truncated); a malformed header must not get its request forwarded and, '
            'once squid has read all of it, must make squid close the connection within 2 s. non-trivial = at least one well-formed and one malformed header were judged; distinct = fingerprint')
    quick_runs = 200
    thorough_runs = 5000
    quick_wall = 50
    thorough_wall = 900
    assumptions = ['the client address squid uses is observed in X-Forwarded-For at the origin and in %>a/%>p of access.log']
    expected_probes = ['wellformed_judged', 'malformed_judged', 'log_lines_judged']

    def plan(self, rng, tier, index):
        lines = ['logformat sim %{X-Sim-Req}>h %>a %>p', 'proxy_protocol_access allow all', 'forwarded_for on']
        plan = hc.std_plan(rng, {'cache': 'none', 'logformat': 'sim', 'extra_ports': ['3129 require-proxy-header'], 'lines': lines}, hostile=rng.random() < 0.3)
        conns = []
        for k in range(rng.randint(8, 24)):
            ver = rng.choice([1, 2])
            fam = rng.choice(['TCP4', 'TCP4', 'TCP6', 'UNKNOWN'])
            c = {'id': index * 100 + k, 'ver': ver, 'fam': fam, 'cmd': rng.choice(['PROXY', 'PROXY', 'PROXY', 'LOCAL']) if ver == 2 else 'PROXY',
                 'src': '192.0.2.%d' % rng.randint(1, 254) if fam != 'TCP6' else '2001:db8::%x' % rng.randint(1, 65535),
                 'dst': '198.51.100.%d' % rng.randint(1, 254) if fam != 'TCP6' else '2001:db8:1::%x' % rng.randint(1, 65535),
                 'sport': rng.choice([0, 1, 80, 1024, 40000, 65535]), 'dport': rng.choice([1, 3129, 65535]),
                 'tlvs': [[rng.choice([0x01, 0x02, 0x05, 0x20, 0x30, 0xE0]), rng.randint(0, 40)] for _ in range(rng.choice([0, 0, 1, 3]))] if ver == 2 else [],
                 'seg': rng.choice(['rand', 'byte', 'whole', 'byte']), 'bad': rng.choice([None, None, 'sig', 'longline', 'port70000', 'portneg', 'mismatch', 'shortlen', 'version', 'command', 'truncated', 'garbage_addr', 'noheader', 'dport70000', 'dport6digits', 'dport_trailing', 'extra_field', 'tlv_overrun', 'tlv_cut', 'shortlen12'])}
            conns.append(c)
        plan['conns'] = conns
        plan['_lists'] = ['conns']
        return plan

    def header(self, c):
        rng = random.Random(c['id'])
        tl = [(t, bytes(rng.getrandbits(8) for _ in range(n))) for t, n in c['tlvs']]
        fam = c['fam'] if not (c['ver'] == 2 and c['fam'] == 'UNKNOWN') else 'UNSPEC'
        h = v1(c['fam'], c['src'], c['dst'], c['sport'], c['dport']) if c['ver'] == 1 else v2(c['cmd'], fam, c['src'], c['dst'], c['sport'], c['dport'], tl)
        b = c['bad']
        # the PROXY specification has the receiver discard the whole block of a LOCAL or UNSPEC header, so damaged TLVs are malformed only otherwise
        parsed_tlvs = c['cmd'] == 'PROXY' and c['fam'] != 'UNKNOWN'
        if b == 'sig':
            h = (b'PROXI' + h[5:]) if c['ver'] == 1 else (h[:5] + b'X' + h[6:])
        elif b == 'longline' and c['ver'] == 1:
            h = b'PROXY TCP4 ' + b'1' * 120 + b' 1.1.1.1 1 1\r\n'
        elif b == 'portneg' and c['ver'] == 1:      # (port 0 is inside the range the PROXY specification allows, so it is not generated as malformed)
            h = b'PROXY TCP4 192.0.2.1 198.51.100.1 -1 80\r\n'
        elif b == 'port70000' and c['ver'] == 1:
            h = b'PROXY TCP4 192.0.2.1 198.51.100.1 70000 80\r\n'
        elif b == 'dport70000' and c['ver'] == 1:
            h = b'PROXY TCP4 192.0.2.1 198.51.100.1 1000 70000\r\n'
        elif b == 'dport6digits' and c['ver'] == 1:   # must not be read as its first five digits
            h = b'PROXY TCP4 192.0.2.1 198.51.100.1 1000 %s\r\n' % rng.choice([b'100000', b'655350', b'800000'])
        elif b == 'dport_trailing' and c['ver'] == 1:
            h = b'PROXY TCP4 192.0.2.1 198.51.100.1 1000 80%s\r\n' % rng.choice([b'xyz', b' ', b'\t', b'.5'])
        elif b == 'extra_field' and c['ver'] == 1:
            h = b'PROXY TCP4 192.0.2.1 198.51.100.1 1000 80 443\r\n'
        elif b == 'mismatch' and c['ver'] == 1:
            h = b'PROXY TCP6 192.0.2.1 198.51.100.1 1000 80\r\n'
        elif b == 'shortlen' and c['ver'] == 2 and c['fam'] != 'UNKNOWN':
            h = h[:14] + struct.pack('>H', 4) + h[16:20]
        elif b == 'shortlen12' and c['ver'] == 2 and c['fam'] == 'TCP6':   # a complete header whose address block is an IPv4-sized one
            h = h[:14] + struct.pack('>H', 12) + h[16:28]
        elif b == 'tlv_overrun' and c['ver'] == 2 and tl and parsed_tlvs:                  # the last TLV claims more bytes than the declared header length holds
            last = tl[-1]
            h = h[:len(h) - len(last[1]) - 2] + struct.pack('>H', len(last[1]) + rng.randint(1, 300)) + last[1]
        elif b == 'tlv_cut' and c['ver'] == 2 and tl and parsed_tlvs:                      # the declared header length ends inside the last TLV's type/length bytes
            cut = len(tl[-1][1]) + rng.choice([1, 2])
            h = h[:14] + struct.pack('>H', struct.unpack('>H', h[14:16])[0] - cut) + h[16:len(h) - cut]
        elif b == 'version' and c['ver'] == 2:
            h = h[:12] + bytes([0x31]) + h[13:]
        elif b == 'command' and c['ver'] == 2:
            h = h[:12] + bytes([0x27]) + h[13:]
        elif b == 'truncated':
            h = h[:max(1, len(h) // 2)]
        elif b == 'garbage_addr' and c['ver'] == 1:
            h = b'PROXY TCP4 999.1.1.1 198.51.100.1 1000 80\r\n'
        elif b == 'noheader':
            h = b''
        elif b is not None:
            return h, None      # this malformation does not apply to this version: header stays well-formed
        if h is None:
            return v2(c['cmd'], fam, c['src'], c['dst'], c['sport'], c['dport'], tl), None
        return h, b

    def build(self, plan):
        scn = self.new_scn(plan)
        conf = scn.conf
        lf = 'logformat sim %{X-Sim-Req}>h %>a %>p\n'
        scn.conf = conf.replace(lf, '').replace('access_log ', lf + 'access_log ', 1)
        scn.knob('peer.expect_timeout_us', 30000000)
        srv = scn.server('o1', '10.0.0.1', 80)
        srv.sub('rule any').add('send %s' % tok(hc.response_head(200, [(b'Content-Length', b'2')]) + b'ok'))
        expect = {}
        for i, c in enumerate(plan['conns']):
            h, bad = self.header(c)
            rid = str(c['id'])
            real = '10.1.0.%d' % (1 + i % 200)
            if bad:
                exp = None
            elif c['fam'] == 'UNKNOWN' or c['cmd'] == 'LOCAL':
                exp = (real, None)
            else:
                exp = (c['src'], c['sport'])
            expect[rid] = {'bad': bad, 'addr': exp, 'real': real, 'client': 'c%d' % i, 'ver': c['ver'], 'sent': len(h) + 0}
            cl = scn.client('c%d' % i, start=i * 2000, **{'from': real})
            cl.add('connect %s 3129' % hc.SQUID_IP)
            req = hc.request_head(b'GET', b'http://10.0.0.1/x%d' % c['id'], [(b'Host', b'10.0.0.1'), (b'X-Sim-Req', rid.encode())])
            expect[rid]['sent'] = len(h + req)
            cl.add('send %s seg %s' % (tok(h + req), c['seg']))
            cl.add('expect response timeout 20000000 soft')
        return scn, expect

    def judge(self, plan, expect, hist, o):
        V = o.violations
        stats = {'wellformed_judged': 0, 'malformed_judged': 0, 'log_lines_judged': 0, 'rejections_timed': 0}
        up = hc.upstream_requests_by_id(hist)
        for rid, e in expect.items():
            fw = up.get(rid.encode(), [])
            if e['bad']:
                stats['malformed_judged'] += 1
                if fw:
                    V.append(Violation('C38:malformed-header-accepted:%s' % e['bad'], 'connection %s with a malformed PROXY header (%s) had its request forwarded' % (rid, e['bad'])))
                # "rejected" is an outcome of its own: once the whole malformed header (and the request behind it) has been read, squid must give the
                # connection up at once, not keep asking for bytes that cannot come. (A truncated v2 header may legitimately still be short of its declared length.)
                cc = hist.client_conns(e['client'])
                if cc and not fw and not (e['bad'] == 'truncated' and e['ver'] == 2):
                    c = cc[0]
                    closed = c.first('CLOSE')
                    if c.sqrd_ev and c.sqrd >= e['sent']:
                        stats['rejections_timed'] += 1
                        last_read = c.sqrd_ev[-1][1]
                        end_t = closed[1] if closed else hist.events[-1][1]
                        self.max_reject_delay = max(getattr(self, 'max_reject_delay', 0), end_t - last_read)
                        if (closed is None and end_t - last_read > REJECT_US) or (closed is not None and closed[1] - last_read > REJECT_US):
                            V.append(Violation('C38:malformed-header-not-rejected:%s' % e['bad'], 'connection %s: squid had read all %d bytes (malformed PROXY v%d header, %s, plus a request) but %s' % (
                                rid, e['sent'], e['ver'], e['bad'], 'still held the connection %.1f s later' % ((end_t - last_read) / 1e6) if closed is None else 'closed it only %.1f s later' % ((closed[1] - last_read) / 1e6))))
                continue
            stats['wellformed_judged'] += 1
            if not fw:
                V.append(Violation('C38:wellformed-header-rejected', 'connection %s with a well-formed PROXY header was not served (expected client %s)' % (rid, e['addr']))); continue
            for sv, r in fw:
                if r.target != b'/x' + rid.encode():
                    V.append(Violation('C38:request-misparsed-after-header', 'connection %s: forwarded target %r' % (rid, r.target)))
                xff = (r.get(b'x-forwarded-for') or b'').decode()
                want = e['addr'][0]
                got = xff.split(',')[-1].strip()
                same = got == want
                if not same and ':' in want:
                    try:
                        same = socket.inet_pton(socket.AF_INET6, got) == socket.inet_pton(socket.AF_INET6, want)
                    except OSError:
                        same = False
                if not same:
                    V.append(Violation('C38:wrong-client-address', 'connection %s: PROXY header says client %s, origin saw X-Forwarded-For %r' % (rid, want, xff)))
        try:
            for ln in open(os.path.join(hist.rundir, 'access.log'), errors='replace'):
                f = ln.split()
                if len(f) != 3 or f[0] not in expect or expect[f[0]]['bad'] or not expect[f[0]]['addr']:
                    continue
                stats['log_lines_judged'] += 1
                want_a, want_p = expect[f[0]]['addr']
                ok_a = f[1] == want_a
                if not ok_a and ':' in want_a:
                    try:
                        ok_a = socket.inet_pton(socket.AF_INET6, f[1]) == socket.inet_pton(socket.AF_INET6, want_a)
                    except OSError:
                        ok_a = False
                if not ok_a or (want_p is not None and f[2] != str(want_p)):
                    V.append(Violation('C38:wrong-client-address-logged', 'connection %s: PROXY header says %s port %s, access.log has %s port %s' % (f[0], want_a, want_p, f[1], f[2])))
        except OSError:
            pass
        o.stats = stats
        o.nontrivial = stats['wellformed_judged'] > 0 and stats['malformed_judged'] > 0
        o.sample = {'conns': [[c['ver'], c['fam'], c['cmd'], c['seg'], c['bad'], len(c['tlvs'])] for c in plan['conns'][:8]]}
