"""Cache family (C10-C15, C18, C20): a small universe of versioned URLs on a scripted origin, clients issuing requests at simulated times,
and an analysis that attributes every client response to the origin version it reproduces. DESIGN.md §4 'Engine P - caching'."""
import random, re
import simlib
from simlib import Payload, G, tok, chunk_encode
from framework import Violation
from props import httpcommon as hc

LM_BASE = 1600000000   # Last-Modified of version v = LM_BASE + v*1000 s

def vkey(u, v):
    if u >= 100:      # large URL universes (C17's many-entries stratum): K + 3 digits url + 4 digits version, same length
        return 'K%03d%04d' % (u % 1000, v % 10000)
    return 'k%02d%05d' % (u % 100, v % 100000)

def etag(u, v, weak=False):
    return ('W/' if weak else '') + '"e-%d-%d"' % (u, v)

def lm_date(v):
    import time
    return time.strftime('%a, %d %b %Y %H:%M:%S GMT', time.gmtime(LM_BASE + v * 1000))

def origin_headers(url, u, v):
    h = [(b'Date', b'@NOW%+d@' % url.get('date_skew', 0)), (b'X-Sim-Ver', vkey(u, v).encode()), (b'Content-Type', b'application/octet-stream')]
    if url.get('etag', True):
        h.append((b'ETag', etag(u, v, url.get('weak_etag', False)).encode()))
    if url.get('lm'):
        h.append((b'Last-Modified', lm_date(v).encode()))
    if url.get('cc'):
        h.append((b'Cache-Control', url['cc'].encode()))
    if url.get('expires') is not None:
        h.append((b'Expires', b'@NOW%+d@' % (url.get('date_skew', 0) + url['expires'])))
    if url.get('age') is not None:
        h.append((b'Age', b'%d' % url['age']))
    vary = url.get('vary')
    if url.get('vary_switch') and v >= url['vary_switch'][0]:     # the origin changes its Vary list from this version on
        vary = url['vary_switch'][1]
    if vary:
        h.append((b'Vary', vary.encode()))
    for k, val in url.get('extra', []):
        h.append((k.encode(), val.encode()))
    return h

def build_world(prop, plan):
    """-> Scn with origin o1 (10.0.0.1:80) serving plan['urls'], an admin peer bumping versions, and plan['clients']."""
    scn = prop.new_scn(plan)
    scn.knob('peer.expect_timeout_us', 120000000)
    srv = scn.server('o1', '10.0.0.1', 80)
    maxv = {}
    for u, url in enumerate(plan['urls']):
        nver = url.get('nver') or (len(url.get('bumps', [])) + 1)
        fv = url.get('first_ver', 1)
        maxv[u] = nver
        scn.line('')  # keep layout readable
        for v in range(fv, fv + nver):
            size = url['sizes'][(v - 1) % len(url['sizes'])]
            key = vkey(u, v)
            cond_h = hc.response_head(304, [h for h in origin_headers(url, u, v) if h[0] not in (b'Content-Type',)] + [(b'X-Sim-Upd', b'r%d' % v)])
            path = b' /c%d' % u
            if url.get('etag', True):
                for tagform in (etag(u, v), etag(u, v, True)):
                    r = srv.sub('rule inm_%d_%d when cur%d=%d has %s has %s' % (u, v, u, v, tok(path + b' '), tok(b'If-None-Match: ' + tagform.encode())))
                    r.add('expect body')
                    if url.get('cond_delay'):
                        r.add('wait %d' % url['cond_delay'])
                    r.add('send %s subst' % tok(cond_h))
            if url.get('lm'):
                # If-None-Match takes precedence: a request carrying it never gets a 304 on If-Modified-Since alone (RFC 9110 13.2.2)
                r = srv.sub('rule ims_%d_%d when cur%d=%d has %s has %s nothas %s' % (u, v, u, v, tok(path + b' '), tok(b'If-Modified-Since: ' + lm_date(v).encode()), tok(b'If-None-Match:')))
                r.add('expect body')
                if url.get('cond_delay'):
                    r.add('wait %d' % url['cond_delay'])
                r.add('send %s subst' % tok(cond_h))
            rng = random.Random(u * 1000 + v)
            body = Payload(G(key, 0, size))
            hs = origin_headers(url, u, v)
            status = url.get('status', 200)
            if url.get('framing', 'cl') == 'cl':
                hs.append((b'Content-Length', b'%d' % size)); enc = body
            else:
                hs.append((b'Transfer-Encoding', b'chunked')); enc = chunk_encode(body, rng)
            head = hc.response_head(status, hs)
            r = srv.sub('rule full_%d_%d when cur%d=%d has %s' % (u, v, u, v, tok(path + b' ')))
            r.add('expect body')
            if url.get('origin_delay'):
                r.add('wait %d' % url['origin_delay'])
            if url.get('one_write'):     # head and body leave the origin in one segment: squid parses the head and completes the entry in the same read
                r.add('send %s subst seg whole' % Payload(head, enc).token())
            else:
                r.add('send %s subst seg whole' % tok(head))
            if url.get('one_write'):
                pass
            elif url.get('body_pace'):
                r.add('send %s pace 0 %d' % (enc.token(), url['body_pace']))
            else:
                r.add('send %s' % enc.token())
            if url.get('bump_on_serve') and v < fv + nver - 1:
                r.add('set cur%d %d' % (u, v + 1))   # every full response is a unique version
    adm = scn.client('admin', noready=True)
    for u in range(len(plan['urls'])):
        adm.add('set cur%d %d' % (u, plan['urls'][u].get('first_ver', 1)))
    bumps = sorted((t, u, plan['urls'][u].get('first_ver', 1) + i + 1) for u, url in enumerate(plan['urls']) for i, t in enumerate(url.get('bumps', [])))
    now = 0
    for t, u, v in bumps:
        adm.add('wait %d' % max(0, t - now)); now = max(now, t)
        adm.add('set cur%d %d' % (u, v))
    for c in plan['clients']:
        cl = scn.client(c['name'], start=c.get('start', 0))
        connected = False
        for st in c['steps']:
            if st.get('wait'):
                cl.add('wait %d' % st['wait'])
            if not connected or st.get('new_conn'):
                if connected:
                    cl.add('close')
                cl.add('connect %s %d' % (hc.SQUID_IP, hc.SQUID_PORT)); connected = True
            hdrs = [(b'Host', b'10.0.0.1'), (b'X-Sim-Req', str(st['id']).encode())] + [(k.encode(), v.encode()) for k, v in st.get('hdrs', [])]
            body = b''
            if st.get('body') is not None:
                body = st['body'].encode(); hdrs.append((b'Content-Length', b'%d' % len(body)))
            target = b'http://10.0.0.1/c%d' % st['u'] if 'target' not in st else st['target'].encode()
            if st.get('after'):
                cl.add('await %s' % st['after'])
            cl.add('send %s' % tok(hc.request_head(st.get('method', 'GET').encode(), target, hdrs) + body))
            cl.add('expect %s timeout 120000000' % ('response-nobody' if st.get('method') == 'HEAD' else 'response'))
    return scn, srv

class Rec:
    pass

def analyse(hist, plan):
    """-> list of Rec, one per client request that got a final response: id, u, t_send (us), seq_end, resp (Msg), ver (int or None),
    body_ok (bool: body equals the complete body of `ver`), contacts: list of (seq, t, rule id) of origin rules triggered by this request."""
    # origin contacts by X-Sim-Req id, with the rule that answered
    contacts = {}
    for sc in hist.server_conns():
        if not sc.established:
            continue
        reqs, _, _ = simlib.parse_requests(hist.peer_received(sc))
        rules = list(sc.rules)
        for i, r in enumerate(reqs):
            rid = r.get(b'x-sim-req')
            if rid is None or getattr(r, 'partial_head', False):
                continue
            rule = rules[i] if i < len(rules) else None
            contacts.setdefault(rid.decode(), []).append({'seq': rule[0] if rule else sc.opened[0], 't': rule[1] if rule else sc.opened[1], 'rule': rule[2] if rule else '?', 'req': r})
    # when each version was first/last sent in full, and every contact per url (for freshness bookkeeping)
    sent = []   # (seq, t, u, v, kind)
    for sc in hist.server_conns():
        for (seq, t, rid, n) in sc.rules:
            m = re.match(r'(full|inm|ims)_(\d+)_(\d+)$', rid)
            if m:
                sent.append((seq, t, int(m.group(2)), int(m.group(3)), m.group(1)))
    sent.sort()
    recs = []
    by_id = {}
    for c in plan['clients']:
        for st in c['steps']:
            by_id[str(st['id'])] = st
    for cv in hc.client_views(hist):
        if cv.conn.peer == 'admin':
            continue
        ids = [x.decode() for x in cv.req_ids() if x is not None]
        # send times of each request on this connection
        offs = []
        pos = 0
        for r in cv.reqs:
            offs.append(pos); pos += r.raw_len
        def time_of_offset(off):
            acc = 0
            for (seq, t, o, n) in cv.conn.psnd:
                acc += n
                if acc > off:
                    return seq, t
            return cv.conn.psnd[-1][0], cv.conn.psnd[-1][1]
        # end seq of each response = seq of the PRCV event covering its last byte
        rc = Rec
        ends = []
        acc = 0
        prcv = [(e[0], e[1], int(e[3][0])) for e in cv.conn.events if e[2] == 'PRCV']
        def end_of(nbytes):
            a = 0
            for (seq, t, n) in prcv:
                a += n
                if a >= nbytes:
                    return seq, t
            return (prcv[-1][0], prcv[-1][1]) if prcv else (0, 0)
        consumed = 0
        k = 0
        for m in cv.resps:
            consumed += m.raw_len
            if getattr(m, 'interim', False) or getattr(m, 'partial_head', False):
                continue
            if k >= len(ids):
                break
            st = by_id.get(ids[k])
            r = Rec()
            r.id = ids[k]; r.step = st; r.u = st['u'] if st else None; r.resp = m
            r.seq_send, r.t_send = time_of_offset(offs[k]) if k < len(offs) else (0, 0)
            r.arrived = hist.squid_read_seq(cv.conn, offs[k] + cv.reqs[k].raw_len) if k < len(offs) else None   # (seq, t) at which squid had read the whole request
            r.seq_last, r.t_last = time_of_offset(offs[k] + cv.reqs[k].raw_len - 1) if k < len(offs) else (0, 0)   # when the last byte of the request was sent
            r.seq_end, r.t_end = end_of(consumed)
            r.contacts = contacts.get(ids[k], [])
            r.conn = cv
            ver = m.get(b'x-sim-ver')
            r.ver = None; r.ver_u = None
            if ver and re.match(rb'^k\d{7}$', ver):
                r.ver_u = int(ver[1:3]); r.ver = int(ver[3:])
            elif ver and re.match(rb'^K\d{7}$', ver):
                r.ver_u = int(ver[1:4]); r.ver = int(ver[4:])
            r.sent = sent
            recs.append(r)
            k += 1
    return recs, sent

def version_body(plan, u, v):
    url = plan['urls'][u]
    size = url['sizes'][(v - 1) % len(url['sizes'])]
    return simlib.gen_bytes(vkey(u, v), 0, size)

def explicit_lifetime(url):
    """explicit freshness lifetime in seconds for a shared cache, or None"""
    cc = (url.get('cc') or '').lower()
    m = re.search(r's-maxage\s*=\s*"?(\d+)', cc)
    if m:
        return int(m.group(1))
    m = re.search(r'(?<![\w-])max-age\s*=\s*"?(\d+)', cc)
    if m:
        return int(m.group(1))
    if url.get('expires') is not None:
        return max(0, url['expires'])
    return None
