#!/bin/sh
# usage: seedcollect.sh <ID> : copies a finished sub-agent's deliverables to seeded/<ID>/, sets a clean demo_cmd, confirms it independently
ID=$1; OUT=/verif/seeded/$ID; mkdir -p $OUT; cp -r /tmp/seed-$ID-scratch/out/* $OUT/ || exit 2
python3 - "$ID" <<'PY'
import json,sys,glob,os
i=sys.argv[1]; p='/verif/seeded/%s/meta.json'%i; m=json.load(open(p))
demos=sorted(glob.glob('/tmp/seed-%s-scratch/out/demo*.py'%i))+sorted(glob.glob('/tmp/seed-%s-scratch/out/demo*.sh'%i))+sorted(glob.glob('/tmp/seed-%s-scratch/out/run_demo*.sh'%i))
m['demo_cmd_agent']=m.get('demo_cmd'); d=demos[0] if demos else ''
m['check_property']=i[:3]
m['demo_cmd']=('python3 ' if d.endswith('.py') else '/tmp/seed-%s/vrun sh '%i if d.endswith('.sh') else '')+d
json.dump(m,open(p,'w'),indent=1); print(m['demo_cmd'])
PY
/verif/tools/confirm_seed.sh $ID
