#!/usr/bin/env python3
"""mutsweep.py [ID ...]: sensitivity sweep over the hand-written mutants (mutants/<ID>/*.diff): each is applied to a scratch copy of /repo by
tools/mutant.sh and the property's quick check must report a violation. Results go to mutants/RESULTS.json (committed)."""
import sys, os, re, json, subprocess, glob, time
root = os.path.dirname(os.path.dirname(os.path.abspath(__file__)))
ids = sys.argv[1:] or sorted(os.path.basename(p) for p in glob.glob(root + '/mutants/C*'))
resf = root + '/mutants/RESULTS.json'
res = json.load(open(resf)) if os.path.exists(resf) else {}
for i in ids:
    for d in sorted(glob.glob('%s/mutants/%s/*.diff' % (root, i))):
        name = '%s/%s' % (i, os.path.basename(d))
        t0 = time.time()
        r = subprocess.run([root + '/tools/mutant.sh', d, 'python3 tools/verif.py check %s --jobs 4' % i], cwd=root, stdout=subprocess.PIPE, stderr=subprocess.STDOUT, text=True)
        m = re.search(r'VIOLATION property=(\S+) replay=\S+\n\s*class=(\S+)', r.stdout)
        summ = re.search(r'^%s quick: .*$' % i, r.stdout, re.M)
        res[name] = {'caught': bool(m), 'class': m.group(2) if m else None, 'summary': summ.group(0) if summ else r.stdout[-200:], 'wall_s': round(time.time() - t0),
                     'applies': 'MUTANT: patch does not apply' not in r.stdout}
        json.dump(res, open(resf, 'w'), indent=1, sort_keys=True)
        print(name, res[name]['caught'], res[name]['class'], flush=True)
