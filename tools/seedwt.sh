#!/bin/sh
# usage: seedwt.sh <name>  -> creates scratch git worktree /tmp/seed-<name> of /repo HEAD with /repo's build outputs copied in (so make is
# incremental) and a ./vrun wrapper that runs a command with the worktree bind-mounted over /repo in a private mount namespace
set -e
D=/tmp/seed-$1
[ -d $D/.git -o -f $D/.git ] || git -C /repo worktree add -f --detach $D HEAD >/dev/null 2>&1
rsync -a --exclude='.git' /repo/ $D/ 2>/dev/null || [ $? = 24 ]   # 24: files vanished (a test run in /repo)
cat > $D/vrun <<EOS
#!/bin/sh
# runs "\$@" with this worktree mounted at /repo (the path the generated Makefiles expect); cwd = /repo
exec unshare -m sh -c 'mount --bind $D /repo && cd /repo && exec "\$@"' sh "\$@"
EOS
chmod +x $D/vrun
echo $D
