"""Python side of the simulator: scenario builder, runner, history parser, reference HTTP codec.
Stdlib only. DESIGN.md §3.3/§3.5."""
import os, re, subprocess, hashlib, shutil, random, json

VERIF = os.path.dirname(os.path.dirname(os.path.abspath(__file__)))
CLOCK0 = 1700000000 * 1000000

# ----------------------------------------------------------------------------------------------- payloads
def gen_bytes(key, off, length):
    """Same keyed generator as sim/scn.cc genBytes(): 16-byte records '<key8><rec as 7 hex>\\n'."""
    k = (key + '________')[:8].encode()
    if length <= 0:
        return b''
    first = off // 16
    last = (off + length + 15) // 16
    blob = b''.join(b'%s%07x\n' % (k, r & 0xfffffff) for r in range(first, last))
    s = off - first * 16
    return blob[s:s + length]

class Payload:
    """Concatenation of literal byte strings and generated slices; knows its bytes and its scenario token."""
    __slots__ = ('parts',)
    def __init__(self, *parts):
        self.parts = []
        for p in parts:
            self.add(p)
    def add(self, p):
        if isinstance(p, Payload):
            self.parts.extend(p.parts)
        elif isinstance(p, (bytes, bytearray)):
            if p:
                if self.parts and self.parts[-1][0] == 'x':
                    self.parts[-1] = ('x', self.parts[-1][1] + bytes(p))
                else:
                    self.parts.append(('x', bytes(p)))
        elif isinstance(p, str):
            self.add(p.encode('latin-1'))
        elif isinstance(p, tuple) and p[0] == 'gen':
            if p[3] > 0:
                self.parts.append(('gen', p[1], int(p[2]), int(p[3])))
        else:
            raise TypeError(p)
        return self
    def token(self):
        if not self.parts:
            return '-'
        out = []
        for p in self.parts:
            out.append('x:' + p[1].hex() if p[0] == 'x' else 'gen:%s:%d:%d' % (p[1], p[2], p[3]))
        return '+'.join(out)
    def bytes(self):
        return b''.join(p[1] if p[0] == 'x' else gen_bytes(p[1], p[2], p[3]) for p in self.parts)
    def __len__(self):
        return sum(len(p[1]) if p[0] == 'x' else p[3] for p in self.parts)
    def slice(self, a, b=None):
        """bytes [a, b) of the payload as a Payload (generated parts stay generated)"""
        total = len(self)
        if b is None or b > total:
            b = total
        out = Payload()
        pos = 0
        for p in self.parts:
            plen = len(p[1]) if p[0] == 'x' else p[3]
            lo, hi = max(a, pos), min(b, pos + plen)
            if lo < hi:
                if p[0] == 'x':
                    out.add(p[1][lo - pos:hi - pos])
                else:
                    out.add(('gen', p[1], p[2] + lo - pos, hi - lo))
            pos += plen
        return out

def G(key, off, length):
    return ('gen', key, off, length)

def tok(b):
    return Payload(b).token() if not isinstance(b, Payload) else b.token()

# ----------------------------------------------------------------------------------------------- scenario builder
BASE_CONF = """pid_filename none
mime_table /repo/src/mime.conf.default
error_directory /repo/errors/templates
icon_directory /repo/icons
unlinkd_program /bin/true
logfile_daemon /bin/true
dns_nameservers 10.0.0.53
hosts_file @RUN@/hosts
visible_hostname simsquid
cache_effective_user root
max_filedescriptors 256
cache_log @RUN@/cache.log
coredump_dir @RUN@
shutdown_lifetime 1 seconds
"""

class Block:
    def __init__(self, head):
        self.head = head
        self.lines = []
    def add(self, line):
        self.lines.append(line)
        return self
    def sub(self, head):
        b = Block(head)
        self.lines.append(b)
        return b
    def render(self, out, indent=0):
        out.append('  ' * indent + self.head)
        for l in self.lines:
            if isinstance(l, Block):
                l.render(out, indent + 1)
            else:
                out.append('  ' * (indent + 1) + l)
        out.append('  ' * indent + 'end')

class Scn:
    def __init__(self, seed):
        self.seed = seed
        self.top = []
        self.blocks = []
        self.conf = BASE_CONF
        self.hosts = ''
        self.argv = '-N -C -f @RUN@/squid.conf'
        self.limits = dict(simtime_s=3600, events=3000000, wall_s=120)
        self.drain_us = 2000000
        self.clock0 = CLOCK0
        self.extra_files = {}
    def knob(self, name, *vals):
        self.top.append('knob %s %s' % (name, ' '.join(str(v) for v in vals)))
    def line(self, l):
        self.top.append(l)
    def server(self, name, ip, port, **opts):
        b = Block('server %s %s %d' % (name, ip, port))
        for k, v in opts.items():
            b.add('opt %s %s' % (k, ' '.join(str(x) for x in (v if isinstance(v, (list, tuple)) else [v]))))
        self.blocks.append(b)
        return b
    def client(self, name, **opts):
        head = 'client ' + name
        for k, v in opts.items():
            if v is True:
                head += ' ' + k
            else:
                head += ' %s %s' % (k, ' '.join(str(x) for x in (v if isinstance(v, (list, tuple)) else [v])))
        b = Block(head)
        self.blocks.append(b)
        return b
    def helper(self, token, concurrency=0, **opts):
        head = 'helper %s concurrency %d' % (token, concurrency)
        for k, v in opts.items():
            head += ' %s %s' % (k, v)
        b = Block(head)
        self.blocks.append(b)
        return b
    def dns(self, ip='10.0.0.53', **opts):
        head = 'dns ' + ip
        for k, v in opts.items():
            head += ' %s %s' % (k, ' '.join(str(x) for x in (v if isinstance(v, (list, tuple)) else [v])))
        b = Block(head)
        self.blocks.append(b)
        return b
    def init_text(self):
        """scenario that only runs 'squid -z' (creates cache_dir structures) with the same configuration"""
        out = ['scn 1', 'seed %d' % self.seed, 'clock start %d' % self.clock0, 'limit simtime_s 600 events 200000 wall_s 60',
               'argv -N -z -f @RUN@/squid.conf', 'file squid.conf ' + tok(self.conf.encode('latin-1')),
               'file hosts ' + tok(self.hosts.encode('latin-1') or b'\n')]
        for name, data in self.extra_files.items():
            out.append('file %s %s' % (name, tok(data)))
        return '\n'.join(out) + '\n'
    def needs_init(self):
        return re.search(r'^cache_dir ', self.conf, re.M) is not None
    def text(self):
        out = ['scn 1', 'seed %d' % self.seed, 'clock start %d' % self.clock0,
               'limit simtime_s %d events %d wall_s %d' % (self.limits['simtime_s'], self.limits['events'], self.limits['wall_s']),
               'drain %d' % self.drain_us, 'argv ' + self.argv,
               'file squid.conf ' + tok(self.conf.encode('latin-1')),
               'file hosts ' + tok(self.hosts.encode('latin-1') or b'\n')]
        for name, data in self.extra_files.items():
            out.append('file %s %s' % (name, tok(data)))
        out.extend(self.top)
        for b in self.blocks:
            b.render(out)
        return '\n'.join(out) + '\n'

# ----------------------------------------------------------------------------------------------- running
def build_dir(variant):
    repo = os.path.realpath(os.environ.get('VERIF_REPO', '/repo'))
    tag = '' if repo == '/repo' else '-' + hashlib.sha1(repo.encode()).hexdigest()[:8]
    if os.environ.get('VERIF_BUILD_TAG'):
        tag += '-' + os.environ['VERIF_BUILD_TAG']
    return os.path.join(VERIF, '.build', variant + tag)

def simsquid_path(variant=None):
    if variant is None:
        return os.environ.get('VERIF_SIMSQUID') or os.path.join(build_dir('plain'), 'simsquid')
    return os.path.join(build_dir(variant), 'simsquid')

class RunResult:
    pass

_SERVER = None
_SERVER_EXE = None

def _server(exe):
    """Per-process fork server (simsquid --server): process creation by exec scales very badly in this sandbox."""
    global _SERVER, _SERVER_EXE
    if _SERVER is not None and (_SERVER.poll() is not None or _SERVER_EXE != exe):
        stop_server()
    if _SERVER is None:
        env = {'PATH': '/usr/bin:/bin', 'TZ': 'UTC', 'LC_ALL': 'C', 'HOME': '/tmp',
               'ASAN_OPTIONS': 'exitcode=77:detect_leaks=0:abort_on_error=0:detect_stack_use_after_return=0:log_path=asan'}
        _SERVER = subprocess.Popen([exe, '--server'], env=env, stdin=subprocess.PIPE, stdout=subprocess.PIPE, stderr=subprocess.DEVNULL, cwd='/tmp')
        _SERVER_EXE = exe
    return _SERVER

def stop_server():
    global _SERVER
    if _SERVER is not None:
        try:
            _SERVER.kill(); _SERVER.wait()
        except Exception:
            pass
        _SERVER = None

import atexit, select
atexit.register(stop_server)

def run_scn(scn_text, rundir, exe=None, timeout=300, keep=False, phase_name='run'):
    """Run one simulated squid lifetime on scenario text in rundir (created if needed). Returns Hist."""
    os.makedirs(rundir, exist_ok=True)
    os.makedirs(os.path.join(rundir, 'cache'), exist_ok=True)
    scn_path = os.path.join(rundir, phase_name + '.scn')
    with open(scn_path, 'w') as f:
        f.write(scn_text)
    hist_path = os.path.join(rundir, phase_name + '.hist')
    exe = exe or simsquid_path()
    srv = _server(exe)
    rc = -999
    try:
        srv.stdin.write(('%s %s %s\n' % (scn_path, rundir, hist_path)).encode()); srv.stdin.flush()
        r, _, _ = select.select([srv.stdout], [], [], timeout)
        if r:
            line = srv.stdout.readline().decode().strip()
            if line.startswith('rc '):
                rc = int(line[3:])
            else:
                stop_server()
        else:
            stop_server()
    except (BrokenPipeError, OSError):
        stop_server()
    out = b''
    try:
        with open(os.path.join(rundir, 'stdio.log'), 'rb') as f:
            out = f.read()[-4000:]
    except OSError:
        pass
    return Hist(hist_path, rc, out, rundir)

_TEMPLATES = {}

def _copy_sparse(src, dst):
    """copy a file keeping holes (rock db files are large and almost empty)"""
    with open(src, 'rb') as fi, open(dst, 'wb') as fo:
        size = os.fstat(fi.fileno()).st_size
        pos = 0
        while pos < size:
            try:
                d = os.lseek(fi.fileno(), pos, os.SEEK_DATA)
            except OSError:
                break
            h = os.lseek(fi.fileno(), d, os.SEEK_HOLE)
            fi.seek(d); fo.seek(d)
            fo.write(fi.read(h - d))
            pos = h
        fo.truncate(size)

def _instantiate(tpl, dst):
    for root, dirs, files in os.walk(tpl):
        rel = os.path.relpath(root, tpl)
        os.makedirs(os.path.join(dst, rel), exist_ok=True)
        for f in files:
            _copy_sparse(os.path.join(root, f), os.path.join(dst, rel, f))

def run_squid(scn, rundir, init=True, phase_name='run', timeout=300):
    """Run a Scn object. When the configuration has a cache_dir, the directory structures are created by a real
    'squid -z' run once per distinct cache_dir configuration (per worker process) and copied for each run."""
    if init and scn.needs_init():
        key = hashlib.sha1('\n'.join(l for l in scn.conf.split('\n') if l.startswith('cache_dir')).encode()).hexdigest()[:12]
        tpl = _TEMPLATES.get(key)
        if tpl is None or not os.path.isdir(tpl):
            tpl = os.path.join(os.path.dirname(rundir.rstrip('/')), 't' + hashlib.sha1(('%s/%d' % (key, os.getpid())).encode()).hexdigest()[:7])
            shutil.rmtree(tpl, ignore_errors=True)
            h0 = run_scn(scn.init_text(), tpl, phase_name='init', timeout=timeout)
            if h0.rc != 0:
                h0.end = h0.end or 'init-failed'
                return h0
            _TEMPLATES[key] = tpl
        os.makedirs(rundir, exist_ok=True)
        _instantiate(os.path.join(tpl, 'cache'), os.path.join(rundir, 'cache'))
    return run_scn(scn.text(), rundir, phase_name=phase_name, timeout=timeout)

def scratch_root():
    """fresh scratch directory with a fixed-length path (squid writes its scratch paths into helper traffic and logs, so the
    length of the path must not differ between a run and its re-runs or history sizes would differ)"""
    base = os.environ.get('VERIF_TMP', '/dev/shm')
    tag = hashlib.sha1(('%d/%f' % (os.getpid(), __import__('time').time())).encode()).hexdigest()[:8]
    root = os.path.join(base, 'vr-' + tag)
    os.makedirs(root, exist_ok=True)
    return root

def fixed_name(tag):
    """8-character directory name derived from an arbitrary tag"""
    return 'x' + hashlib.sha1(tag.encode()).hexdigest()[:7]

def cleanup_rundir(rundir):
    tag = rundir.replace('/', '_')
    shutil.rmtree(rundir, ignore_errors=True)
    try:
        for n in os.listdir('/dev/shm'):
            if n.endswith(tag):
                try:
                    os.unlink(os.path.join('/dev/shm', n))
                except OSError:
                    pass
    except OSError:
        pass

# ----------------------------------------------------------------------------------------------- history
class ConnInfo:
    def __init__(self, cid, kind, peer):
        self.id = cid; self.kind = kind; self.peer = peer
        self.sqaddr = self.peeraddr = ''
        self.fd = -1; self.nth = 0; self.outcome = 'ok'
        self.psnd = []      # (seq, t, off, len) peer -> squid writes
        self.sqwr = []      # (seq, t, off, len, lost) squid -> peer writes
        self.prcv = 0       # bytes the peer actually received
        self.sqrd = 0
        self.sqrd_app = 0
        self.sqrd_ev = []   # (seq, t, n): squid's successful reads on this connection
        self.p2s_dropped = 0   # bytes in flight towards squid when an RST ended the connection
        self.werr = False
        self.events = []    # (seq, t, kind, rest)
        self.established = None
        self.accepted = None
        self.rules = []     # (seq, t, rule id, use#)
    def first(self, kind):
        for e in self.events:
            if e[2] == kind:
                return e
        return None

class Hist:
    def __init__(self, path, rc, output, rundir):
        self.rc = rc; self.output = output; self.rundir = rundir; self.path = path
        self.events = []; self.conns = {}; self.probes = {}; self.end = None; self.life = []
        self.flags = {}; self.fails = []; self.files = []; self.dns = []; self.helpers = []; self.udp = []
        self.seed = None
        try:
            with open(path + '.bin', 'rb') as f:
                self.bin = f.read()
        except OSError:
            self.bin = b''
        try:
            with open(path, 'r', errors='replace') as f:
                raw = f.read()
        except OSError:
            raw = ''
        self.raw = raw
        for line in raw.split('\n'):
            if not line:
                continue
            f = line.split('\t')
            if len(f) < 3:
                continue
            try:
                seq, t = int(f[0]), int(f[1])
            except ValueError:
                continue
            kind = f[2]; rest = f[3:]
            self.events.append((seq, t, kind, rest))
            if kind == 'CONN':
                c = ConnInfo(int(rest[0]), rest[1], rest[2])
                if rest[1] in ('c', 's'):
                    c.sqaddr, c.peeraddr = rest[3], rest[4]
                if rest[1] == 's':
                    c.fd = int(rest[5]); c.nth = int(rest[6]); c.outcome = rest[7]
                c.opened = (seq, t)
                self.conns[c.id] = c
            elif kind in ('PSND', 'SQWR', 'PRCV', 'SQRD', 'ACPT', 'ESTAB', 'CLOSE', 'PCLOSE', 'PFIN', 'PRSTSND', 'PEOF', 'PRST', 'CONNFAIL', 'RULE', 'NORULE', 'RSTBACK', 'PSNDLOST', 'SQWERR', 'P2SDROP'):
                c = self.conns.get(int(rest[0]))
                if c is None:
                    continue
                if kind == 'PSND':
                    o, n = rest[1].split(); c.psnd.append((seq, t, int(o), int(n)))
                elif kind == 'SQWR':
                    o, n = rest[1].split(); c.sqwr.append((seq, t, int(o), int(n), len(rest) > 2))
                elif kind == 'PRCV':
                    c.prcv += int(rest[1]); c.events.append((seq, t, kind, rest[1:]))
                elif kind == 'SQRD':
                    if rest[1].isdigit():
                        c.sqrd += int(rest[1])
                        c.sqrd_ev.append((seq, t, int(rest[1])))
                        if not c.werr:
                            c.sqrd_app += int(rest[1])   # reads after a failed write are comm_close() draining the socket, not the application
                    else:
                        c.events.append((seq, t, 'SQRD_' + rest[1], []))
                elif kind == 'RULE':
                    c.rules.append((seq, t, rest[1], int(rest[2])))
                    c.events.append((seq, t, kind, rest[1:]))
                else:
                    if kind == 'SQWERR':
                        c.werr = True
                    if kind == 'P2SDROP':
                        c.p2s_dropped += int(rest[1])
                    if kind == 'ESTAB':
                        c.established = (seq, t)
                    if kind == 'ACPT':
                        c.accepted = (seq, t); c.fd = int(rest[1])
                    c.events.append((seq, t, kind, rest[1:]))
            elif kind == 'PROBE':
                self.probes[rest[0]] = int(rest[1])
            elif kind == 'END':
                self.end = rest[0]
            elif kind == 'LIFE':
                self.life.append((seq, t, rest[0]))
            elif kind == 'FLAG':
                self.flags[rest[0]] = (seq, t)
            elif kind == 'PFAIL':
                self.fails.append((seq, t, rest))
            elif kind == 'FILE':
                self.files.append((seq, t, rest))
            elif kind in ('DNSQ', 'DNSA'):
                self.dns.append((seq, t, kind, rest))
            elif kind in ('HREQ', 'HRPL'):
                self.helpers.append((seq, t, kind, rest))
            elif kind in ('UDPS', 'UDPR', 'DGRM'):
                self.udp.append((seq, t, kind, rest))
            elif kind == 'SEED':
                self.seed = int(rest[0])
    def blob(self, off, n):
        return self.bin[off:off + n]
    def to_squid(self, c):
        """bytes the peer sent towards squid on connection c"""
        return b''.join(self.bin[o:o + n] for (_, _, o, n) in c.psnd)
    def arrived_at_squid(self, c):
        """bytes of to_squid(c) that reached squid's socket (the rest was in flight when an RST ended the connection)"""
        b = self.to_squid(c)
        return b[:len(b) - c.p2s_dropped] if c.p2s_dropped else b
    def squid_read_seq(self, c, nbytes):
        """(seq, t) of the read() with which squid had read the first nbytes bytes of connection c, or None if it never did"""
        acc = 0
        for (seq, t, n) in c.sqrd_ev:
            acc += n
            if acc >= nbytes:
                return (seq, t)
        return None
    def from_squid(self, c, include_lost=True):
        return b''.join(self.bin[o:o + n] for (_, _, o, n, lost) in c.sqwr if include_lost or not lost)
    def peer_received(self, c):
        return self.from_squid(c, include_lost=False)[:c.prcv]
    def fingerprint(self):
        h = hashlib.sha256()
        h.update(self.raw.encode('utf-8', 'replace'))
        # squid writes its own scratch paths to helpers (unlinkd) and logs: make the fingerprint independent of where the run lived
        h.update(hashlib.sha256(self.bin.replace(self.rundir.encode(), b'@RUN@')).digest())
        return h.hexdigest()
    def sim_seconds(self):
        if not self.events:
            return 0.0
        return (self.events[-1][1] - self.events[0][1]) / 1e6
    def life_has(self, what):
        return any(l[2] == what for l in self.life)
    def client_conns(self, name=None):
        return [c for c in self.conns.values() if c.kind == 'c' and (name is None or c.peer == name)]
    def server_conns(self, name=None):
        return [c for c in self.conns.values() if c.kind == 's' and (name is None or c.peer == name)]
    def cache_log(self):
        try:
            with open(os.path.join(self.rundir, 'cache.log'), 'r', errors='replace') as f:
                return f.read()
        except OSError:
            return ''
    def health_problems(self):
        """Universal oracle: squid alive to the end, no sanitizer report, no assertion/FATAL."""
        probs = []
        if self.rc == 77 or self.life_has('asan_error'):
            probs.append('asan-report')
        elif self.rc == -999:
            probs.append('wall-timeout')
        elif self.rc != 0:
            probs.append('exit-code-%d' % self.rc)
        if self.life_has('abort'):
            probs.append('abort')
        if self.end is None and self.rc == 0:
            probs.append('no-end-record')
        if self.end in ('limit-events', 'limit-wall', 'deadlock'):
            probs.append('sim-' + self.end)
        log = self.cache_log()
        m = re.search(r'^.*(assertion failed|FATAL:|Assertion .* failed).*$', log, re.M)
        if m:
            probs.append('cache.log: ' + m.group(0)[-200:])
        return probs
    def asan_report(self):
        out = []
        try:
            for n in sorted(os.listdir(self.rundir)):
                if n.startswith('asan'):
                    with open(os.path.join(self.rundir, n), 'r', errors='replace') as f:
                        out.append(f.read()[:4000])
        except OSError:
            pass
        return '\n'.join(out)
    def schedule_signature(self):
        """Abstracted event sequence: (event kind, connection role), sizes bucketed -> hash."""
        h = hashlib.sha1()
        for (seq, t, kind, rest) in self.events:
            if kind in ('PSND', 'SQWR', 'PRCV', 'SQRD'):
                c = self.conns.get(int(rest[0]))
                role = (c.kind + ':' + c.peer) if c else '?'
                if kind in ('PSND', 'SQWR'):
                    n = int(rest[1].split()[1])
                else:
                    n = int(rest[1]) if rest[1].isdigit() else 0
                h.update(('%s %s %d|' % (kind, role, n.bit_length())).encode())
            elif kind in ('ACPT', 'ESTAB', 'CLOSE', 'PCLOSE', 'PFIN', 'PRSTSND', 'CONNFAIL', 'RULE', 'FAULT', 'HREQ', 'DNSQ'):
                h.update((kind + '|').encode())
        return h.hexdigest()[:16]

# ----------------------------------------------------------------------------------------------- reference HTTP/1.1 codec
class HttpError(Exception):
    pass

TOKEN_RE = re.compile(rb"^[!#$%&'*+\-.^_`|~0-9A-Za-z]+$")

class Msg:
    def __init__(self):
        self.start = b''; self.headers = []; self.body = b''; self.complete = False; self.framing = 'none'
        self.trailers = []; self.raw_len = 0; self.head_len = 0; self.status = 0; self.method = b''; self.target = b''; self.version = b''
        self.reason = b''; self.error = None; self.head_raw = b''
        self.chunk_sizes = []
    def get(self, name):
        name = name.lower()
        for k, v in self.headers:
            if k.lower() == name:
                return v
        return None
    def get_all(self, name):
        name = name.lower()
        return [v for k, v in self.headers if k.lower() == name]
    def has(self, name):
        return self.get(name) is not None
    def tokens(self, name):
        out = []
        for v in self.get_all(name):
            out.extend(t.strip().lower() for t in v.split(b',') if t.strip())
        return out

def parse_head(data, pos, strict=True):
    """returns (start_line, headers, end_pos) or None if the head is incomplete; raises HttpError if malformed."""
    end = data.find(b'\r\n\r\n', pos)
    if end < 0:
        return None
    block = data[pos:end]
    lines = block.split(b'\r\n')
    start = lines[0]
    headers = []
    for l in lines[1:]:
        if l[:1] in (b' ', b'\t'):
            if strict:
                raise HttpError('obs-fold')
            if headers:
                headers[-1] = (headers[-1][0], headers[-1][1] + b' ' + l.strip())
            continue
        i = l.find(b':')
        if i <= 0:
            raise HttpError('bad header line %r' % l[:60])
        name = l[:i]
        if strict and not TOKEN_RE.match(name):
            raise HttpError('bad field name %r' % name[:60])
        headers.append((name, l[i + 1:].strip(b' \t')))
    return start, headers, end + 4

def decode_chunked(data, pos):
    """returns (body, trailers, end_pos, complete, chunk_sizes); raises HttpError on malformed chunking."""
    body = []
    sizes = []
    while True:
        e = data.find(b'\r\n', pos)
        if e < 0:
            if len(data) - pos > 200 and b'\n' not in data[pos:pos + 200]:
                raise HttpError('chunk size line too long')
            return b''.join(body), [], pos, False, sizes
        line = data[pos:e]
        sz = line.split(b';', 1)[0].strip()
        if not re.match(rb'^[0-9a-fA-F]+$', sz):
            raise HttpError('bad chunk size %r' % line[:40])
        n = int(sz, 16)
        pos = e + 2
        if n == 0:
            trailers = []
            while True:
                e = data.find(b'\r\n', pos)
                if e < 0:
                    return b''.join(body), trailers, pos, False, sizes
                l = data[pos:e]
                pos = e + 2
                if not l:
                    return b''.join(body), trailers, pos, True, sizes
                i = l.find(b':')
                if i <= 0:
                    raise HttpError('bad trailer')
                trailers.append((l[:i], l[i + 1:].strip()))
        sizes.append(n)
        if len(data) - pos < n:
            body.append(data[pos:])
            return b''.join(body), [], len(data), False, sizes
        body.append(data[pos:pos + n])
        pos += n
        if len(data) - pos < 2:
            return b''.join(body), [], pos, False, sizes
        if data[pos:pos + 2] != b'\r\n':
            raise HttpError('missing CRLF after chunk data')
        pos += 2

def parse_responses(data, methods, closed=True):
    """Parse a client-side byte stream into responses; methods = request methods in order.
    Returns (list of Msg, leftover bytes, error or None). 1xx responses are returned as separate Msg with interim=True."""
    out = []
    pos = 0
    mi = 0
    err = None
    while pos < len(data):
        m = Msg()
        try:
            ph = parse_head(data, pos)
        except HttpError as e:
            err = 'malformed head at %d: %s' % (pos, e); break
        if ph is None:
            m.error = 'incomplete-head'; m.head_raw = data[pos:]; m.raw_len = len(data) - pos; m.partial_head = True
            out.append(m); pos = len(data); break
        start, headers, hend = ph
        m.start = start; m.headers = headers; m.head_len = hend - pos; m.head_raw = data[pos:hend]
        mm = re.match(rb'^(HTTP/\d\.\d) (\d{3}) ?(.*)$', start)
        if not mm:
            err = 'bad status line at %d: %r' % (pos, start[:80]); break
        m.version, m.status, m.reason = mm.group(1), int(mm.group(2)), mm.group(3)
        method = methods[mi] if mi < len(methods) else b'GET'
        m.interim = 100 <= m.status < 200 and m.status != 101
        if m.interim:
            m.complete = True; m.raw_len = hend - pos; out.append(m); pos = hend; continue
        m.req_index = mi
        mi += 1
        te = m.tokens(b'transfer-encoding')
        cls = m.get_all(b'content-length')
        if method == b'HEAD' or m.status in (204, 304):
            m.framing = 'none'; m.complete = True; end = hend
        elif method == b'CONNECT' and 200 <= m.status < 300:
            m.framing = 'tunnel'; m.complete = True; end = hend
            m.raw_len = end - pos; out.append(m); pos = end
            m.tunnel_data = data[pos:]; pos = len(data); break
        elif te:
            if te != [b'chunked']:
                err = 'unexpected transfer-encoding %r' % te; break
            if cls:
                err = 'response has both Content-Length and Transfer-Encoding'; break
            try:
                m.body, m.trailers, end, m.complete, m.chunk_sizes = decode_chunked(data, hend)
            except HttpError as e:
                err = 'malformed chunking in response %d: %s' % (mi, e); m.error = str(e); out.append(m); break
            m.framing = 'chunked'
        elif cls:
            vals = set(cls)
            if len(vals) != 1 or not re.match(rb'^\d+$', cls[0]):
                err = 'bad content-length %r' % cls; break
            n = int(cls[0])
            m.framing = 'cl'; m.body = data[hend:hend + n]; m.complete = len(m.body) == n; end = hend + len(m.body)
            m.declared = n
        else:
            m.framing = 'close'; m.body = data[hend:]; end = len(data); m.complete = closed
        m.raw_len = end - pos
        out.append(m)
        pos = end
        if not m.complete:
            break
    return out, data[pos:], err

def parse_requests(data, strict=False):
    """Parse an upstream byte stream (what an origin received) into requests. Returns (list of Msg, leftover, error)."""
    out = []
    pos = 0
    err = None
    while pos < len(data):
        m = Msg()
        try:
            ph = parse_head(data, pos, strict=strict)
        except HttpError as e:
            err = 'malformed request head at %d: %s' % (pos, e); break
        if ph is None:
            m.error = 'incomplete-head'; m.head_raw = data[pos:]; m.raw_len = len(data) - pos; m.partial_head = True
            out.append(m); pos = len(data); break
        start, headers, hend = ph
        m.start = start; m.headers = headers; m.head_len = hend - pos; m.head_raw = data[pos:hend]
        parts = start.split(b' ')
        if len(parts) != 3 or not parts[2].startswith(b'HTTP/'):
            err = 'bad request line %r' % start[:80]; break
        m.method, m.target, m.version = parts
        te = m.tokens(b'transfer-encoding')
        cls = m.get_all(b'content-length')
        m.n_cl = len(cls); m.has_te = bool(te); m.te = te
        if te:
            try:
                m.body, m.trailers, end, m.complete, m.chunk_sizes = decode_chunked(data, hend)
            except HttpError as e:
                err = 'malformed chunking in request: %s' % e; m.error = str(e); out.append(m); break
            m.framing = 'chunked'
        elif cls:
            if not re.match(rb'^\d+$', cls[0]):
                err = 'bad upstream content-length %r' % cls; break
            n = int(cls[0]); m.declared = n
            m.framing = 'cl'; m.body = data[hend:hend + n]; m.complete = len(m.body) == n; end = hend + len(m.body)
        else:
            m.framing = 'none'; m.complete = True; end = hend
        m.raw_len = end - pos
        out.append(m)
        pos = end
        if not m.complete:
            break
    return out, data[pos:], err

def chunk_encode(body, rng, max_chunk=None, extensions=False, trailers=None):
    """body: Payload or bytes -> Payload of a valid chunked encoding with seeded chunk sizes."""
    if not isinstance(body, Payload):
        body = Payload(body)
    total = len(body)
    out = Payload()
    # walk the parts so generated slices stay generated
    flat = []
    for p in body.parts:
        flat.append(p)
    pos = 0
    def take(n):
        nonlocal flat
        res = Payload()
        while n > 0 and flat:
            p = flat[0]
            plen = len(p[1]) if p[0] == 'x' else p[3]
            k = min(n, plen)
            if p[0] == 'x':
                res.add(p[1][:k]); rest = ('x', p[1][k:])
            else:
                res.add(('gen', p[1], p[2], k)); rest = ('gen', p[1], p[2] + k, p[3] - k)
            if k == plen:
                flat.pop(0)
            else:
                flat[0] = rest
            n -= k
        return res
    while pos < total:
        hi = max_chunk or rng.choice([1, 7, 64, 1024, 4096, 16384, 65536, total])
        n = min(total - pos, rng.randint(1, max(1, hi)))
        ext = b''
        if extensions and rng.random() < 0.3:
            ext = rng.choice([b';x=1', b';name="q;uoted"', b';a;b=c', b' ;sp=1'])
        fmt = rng.choice(['%x', '%X', '0%x']) if extensions else '%x'
        out.add((fmt % n).encode() + ext + b'\r\n')
        out.add(take(n))
        out.add(b'\r\n')
        pos += n
    out.add(b'0\r\n')
    for k, v in (trailers or []):
        out.add(k + b': ' + v + b'\r\n')
    out.add(b'\r\n')
    return out

def body_identify(body):
    """For bodies produced by gen_bytes: return (key, offset) of the first full record, or None."""
    m = re.search(rb'([A-Za-z0-9_]{8})([0-9a-f]{7})\n', body)
    if not m:
        return None
    return m.group(1).decode(), int(m.group(2), 16) * 16 - m.start()

def short(b, n=60):
    if isinstance(b, Payload):
        b = b.bytes()
    r = repr(b[:n])
    return r + ('…(%d)' % len(b) if len(b) > n else '')
