#!/usr/bin/env python3
"""Build simsquid from /repo's current working tree (DESIGN.md §3.8).
usage: build.py [--repo DIR] [--variant asan|plain] [--out DIR]
"""
import os, sys, subprocess, json, hashlib, argparse, fcntl, shlex
sys.path.insert(0, os.path.dirname(os.path.abspath(__file__)))
import srclist

VERIF = os.path.dirname(os.path.dirname(os.path.abspath(__file__)))

WRAPS = """main open close read write pread pwrite lseek unlink rename ftruncate opendir readdir closedir
socket socketpair pipe bind listen accept connect getsockname getsockopt setsockopt send sendto recvfrom
epoll_create epoll_ctl epoll_wait shm_open shm_unlink fork kill waitpid execvp setsid abort
time nanosleep alarm srand getrusage geteuid getuid getpid gethostname sched_getaffinity sched_setaffinity
_ZNSt6chrono3_V212system_clock3nowEv _ZNSt6chrono3_V212steady_clock3nowEv _ZNSt13random_device9_M_getvalEv
_Z9ipcCreateiPKcPKS0_S0_RN2Ip7AddressEPiS6_PPv
_ZN3Ipc8StoreMap16closeForUpdatingERNS_14StoreMapUpdateE""".split()

VARIANTS = {
    'asan': ['-O1', '-g1', '-fsanitize=address', '-fno-omit-frame-pointer'],
    'plain': ['-O1', '-g'],
}

def ninja_escape(s):
    return s.replace('$', '$$').replace(' ', '$ ').replace(':', '$:')

def q(args):
    return ' '.join(shlex.quote(a) for a in args).replace('$', '$$')

def refresh_generated(repo):
    # generated sources (cf_parser.cci, globals.cc, ...) follow their inputs
    for d, targets in (('src', ['cf_parser.cci', 'cf_gen_defines.cci', 'globals.cc', 'hier_code.cc', 'err_type.cc', 'err_detail_type.cc', 'lookup_t.cc', 'icp_opcode.cc', 'swap_log_op.cc', 'repl_modules.cc', 'squid.conf.default']),):
        dd = os.path.join(repo, d)
        if os.path.exists(os.path.join(dd, 'Makefile')):
            subprocess.run(['make', '-s', '-C', dd] + targets, stdout=subprocess.DEVNULL, stderr=subprocess.DEVNULL)

def generate(repo, variant, out):
    os.makedirs(out, exist_ok=True)
    info = srclist.collect(repo)
    vflags = VARIANTS[variant]
    shim = os.path.join(VERIF, 'sim', 'atomic_shim.h')
    lines = ['ninja_required_version = 1.5', 'builddir = ' + out,
             'rule cxx', '  command = ccache g++ $flags -MD -MF $out.d -c $in -o $out', '  depfile = $out.d', '  deps = gcc', '  description = CXX $out',
             'rule cc', '  command = ccache gcc $flags -MD -MF $out.d -c $in -o $out', '  depfile = $out.d', '  deps = gcc', '  description = CC $out',
             'rule ar', '  command = rm -f $out && ar crs $out $in', '  description = AR $out',
             'rule link', '  command = g++ $flags -o $out @$out.rsp', '  rspfile = $out.rsp', '  rspfile_content = $objs', '  description = LINK $out', '']
    def objname(src):
        rel = os.path.relpath(src, info['repo']).replace('/', '__')
        return os.path.join(out, 'obj', rel + '.o')
    def compile_line(src, d):
        o = objname(src)
        if src.endswith('.c'):
            fl = info['flags'][d]['cc'] + vflags + ['-DSQUID_VERIF=1']
            lines.append('build %s: cc %s' % (ninja_escape(o), ninja_escape(src)))
        else:
            fl = info['flags'][d]['cxx'] + vflags + ['-DSQUID_VERIF=1', '-include', shim]
            lines.append('build %s: cxx %s | %s' % (ninja_escape(o), ninja_escape(src), ninja_escape(shim)))
        lines.append('  flags = ' + q(fl))
        return o
    main_objs = [compile_line(s, info['main_dir']) for s in info['main_sources']]
    archives = []
    for i, lib in enumerate(info['libs']):
        objs = [compile_line(s, lib['dir']) for s in lib['sources']]
        a = os.path.join(out, 'lib', '%03d_%s.a' % (i, os.path.basename(lib['lib']).replace('.la', '').replace('.a', '')))
        lines.append('build %s: ar %s' % (ninja_escape(a), ' '.join(ninja_escape(o) for o in objs)))
        archives.append(a)
    # simulator objects: kernel without squid headers, glue/harness with squid's src flags + shim
    sim_objs = []
    simdir = os.path.join(VERIF, 'sim')
    for f in sorted(os.listdir(simdir)):
        if not f.endswith('.cc'):
            continue
        src = os.path.join(simdir, f)
        o = os.path.join(out, 'simobj', f + '.o')
        if f in ('kernel.cc', 'net.cc', 'scn.cc'):
            fl = ['-std=c++17', '-Wall', '-Wextra', '-Wno-unused-parameter', '-Wno-misleading-indentation'] + vflags
            lines.append('build %s: cxx %s' % (ninja_escape(o), ninja_escape(src)))
        else:
            fl = info['flags'][info['main_dir']]['cxx'] + vflags + ['-DSQUID_VERIF=1', '-include', shim, '-I' + simdir]
            lines.append('build %s: cxx %s | %s' % (ninja_escape(o), ninja_escape(src), ninja_escape(shim)))
        lines.append('  flags = ' + q(fl))
        sim_objs.append(o)
    exe = os.path.join(out, 'simsquid')
    wrapflags = ['-Wl,--wrap=' + w for w in WRAPS]
    # archives are listed twice inside a group so that libtool's link order semantics (each convenience
    # library is a set of members pulled on demand) are kept without depending on order
    objs = main_objs + sim_objs + ['-Wl,--start-group'] + archives + ['-Wl,--end-group'] + info['syslibs'] + ['-lrt', '-lpthread', '-ldl']
    lines.append('build %s: link %s' % (ninja_escape(exe), ' '.join(ninja_escape(o) for o in main_objs + sim_objs + archives)))
    lines.append('  flags = ' + q(vflags + ['-rdynamic'] + wrapflags))
    lines.append('  objs = ' + q(objs))
    lines.append('default ' + ninja_escape(exe))
    text = '\n'.join(lines) + '\n'
    path = os.path.join(out, 'build.ninja')
    old = open(path).read() if os.path.exists(path) else None
    if old != text:
        with open(path, 'w') as f:
            f.write(text)
    return exe

def build(repo='/repo', variant='asan', out=None, quiet=True):
    repo = os.path.realpath(repo)
    if out is None:
        tag = '' if repo == '/repo' else '-' + hashlib.sha1(repo.encode()).hexdigest()[:8]
        if os.environ.get('VERIF_BUILD_TAG'):
            tag += '-' + os.environ['VERIF_BUILD_TAG']
        out = os.path.join(VERIF, '.build', variant + tag)
    os.makedirs(out, exist_ok=True)
    env = dict(os.environ)
    env.setdefault('CCACHE_DIR', os.path.join(VERIF, '.build', 'ccache'))
    env.setdefault('CCACHE_MAXSIZE', '8G')
    env['CCACHE_BASEDIR'] = repo
    env['CCACHE_NOHASHDIR'] = '1'
    lock = open(os.path.join(out, '.lock'), 'w')
    fcntl.flock(lock, fcntl.LOCK_EX)
    try:
        refresh_generated(repo)
        exe = generate(repo, variant, out)
        r = subprocess.run(['ninja', '-C', out, '-j', str(os.cpu_count() or 8)], env=env,
                           stdout=subprocess.PIPE if quiet else None, stderr=subprocess.STDOUT, text=True)
        if r.returncode != 0:
            sys.stderr.write((r.stdout or '')[-6000:])
            raise SystemExit(2)
        return exe
    finally:
        fcntl.flock(lock, fcntl.LOCK_UN)

if __name__ == '__main__':
    ap = argparse.ArgumentParser()
    ap.add_argument('--repo', default=os.environ.get('VERIF_REPO', '/repo'))
    ap.add_argument('--variant', default='asan')
    ap.add_argument('--out')
    ap.add_argument('-v', action='store_true')
    a = ap.parse_args()
    print(build(a.repo, a.variant, a.out, quiet=not a.v))
