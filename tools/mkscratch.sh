#!/bin/sh
# usage: mkscratch.sh <dir> : source-only copy of /repo (generated Makefiles/headers included, no objects) for mutation runs:
#   VERIF_REPO=<dir> python3 tools/verif.py check <ID>      builds into /verif/.build/<variant>-<hash> (ccache makes it cheap)
# remove with: rm -rf <dir> /verif/.build/*-$(echo -n <dir> | sha1sum | cut -c1-8)
set -e
rsync -a --exclude='*.o' --exclude='*.a' --exclude='*.lo' --exclude='*.la' --exclude='.libs' --exclude='.git' \
  --exclude='/src/squid' --exclude='/src/tests/test*' --exclude='autom4te.cache' --exclude='*.log' --exclude='*.trs' /repo/ "$1"/ 2>/dev/null || [ $? = 24 ]   # 24: files vanished (a test run in /repo)
echo "$1"
