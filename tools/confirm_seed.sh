#!/bin/sh
# usage: confirm_seed.sh <ID>  : independently confirm a seeded change in its scratch worktree /tmp/seed-<ID>:
#  builds with the change, runs the unit-test suite, runs the demonstration (must fail), reverts the change, rebuilds, runs the demonstration
#  (must pass), re-applies the change. Writes /verif/seeded/<ID>/confirm.json
ID=$1; WT=/tmp/seed-$ID; OUT=/verif/seeded/$ID; DEMO=$(python3 -c "import json;print(json.load(open('$OUT/meta.json'))['demo_cmd'])")
cd $WT || exit 2
git -C $WT diff > /tmp/seed-$ID-scratch/confirm.patch
B1=$($WT/vrun sh -c 'make -C lib -j6 >/dev/null 2>&1; make -C compat -j6 >/dev/null 2>&1; make -C src -j6 >/dev/null 2>&1; echo $?')
$WT/vrun make -k check -j6 > /tmp/seed-$ID-scratch/confirm_check.log 2>&1; CK=$?
PASS=$(grep -c '^PASS' /tmp/seed-$ID-scratch/confirm_check.log); FAIL=$(grep -c '^FAIL\|^ERROR' /tmp/seed-$ID-scratch/confirm_check.log)
timeout 600 sh -c "$DEMO" > /tmp/seed-$ID-scratch/confirm_demo_with.log 2>&1; D1=$?
git -C $WT apply -R /tmp/seed-$ID-scratch/confirm.patch
B2=$($WT/vrun sh -c 'make -C lib -j6 >/dev/null 2>&1; make -C compat -j6 >/dev/null 2>&1; make -C src -j6 >/dev/null 2>&1; echo $?')
timeout 600 sh -c "$DEMO" > /tmp/seed-$ID-scratch/confirm_demo_without.log 2>&1; D2=$?
git -C $WT apply /tmp/seed-$ID-scratch/confirm.patch
printf '{"build_with_change_rc": %s, "make_check_rc": %s, "tests_pass": %s, "tests_fail": %s, "demo_with_change_rc": %s, "build_without_change_rc": %s, "demo_without_change_rc": %s}\n' "$B1" "$CK" "$PASS" "$FAIL" "$D1" "$B2" "$D2" > $OUT/confirm.json
cat $OUT/confirm.json
